"""Static program model of the Python part of pyunicorn (DESIGN.md §3.2).

Pure `ast`; nothing from pyunicorn is imported or executed.

* module / import / class tables, C3 MRO, per-class method tables with kinds
  and `@Cached.method` decorator arguments;
* per-concrete-class method resolution;
* *effect trees*: for a function analysed for a concrete class under a
  constant-parameter environment, an ordered tree of events (reads, writes and
  bumps of state cells rooted at `self`, calls, returns, raises) with callees
  (`self.m()`, `Base.m(self, ..)`, property getters/setters, dynamic dispatch
  by name) inlined.
"""
from __future__ import annotations

import ast
import copy
import os
import re
from dataclasses import dataclass, field
from typing import Optional, Any

from .report import AnalysisError

PKG = "pyunicorn"

# ---------------------------------------------------------------------------
# frozen tables (DESIGN.md Appendix B)

# in-place methods on arrays / sparse matrices held in a cell
INPLACE_METHODS = {
    "sort", "fill", "resize", "put", "itemset", "partition", "setfield",
    "eliminate_zeros", "setdiag", "sort_indices", "sum_duplicates",
    "append", "extend", "insert", "remove", "pop", "clear", "update",
    "setdefault", "reverse",
}
# numpy functions that modify their first argument in place
INPLACE_FUNCS = {
    ("np", "fill_diagonal"), ("np", "put"), ("np", "copyto"), ("np", "place"),
    ("np", "putmask"), ("random", "shuffle"), ("np.random", "shuffle"),
}
# igraph: structure-mutating methods of the Graph object
GRAPH_STRUCT_MUT = {
    "rewire", "simplify", "add_edge", "add_edges", "delete_edges",
    "add_vertex", "add_vertices", "delete_vertices", "to_directed",
    "to_undirected", "rewire_edges",
}
# igraph: sequence methods that mutate attributes
SEQ_ATTR_MUT = {"set_attribute_values"}
# graph methods whose `weights=` keyword names a link attribute
GRAPH_WEIGHT_KW = {"weights", "weight"}
# graph methods that (also) write attributes into a file etc. read everything
GRAPH_READS_ALL = {"write", "save", "copy", "subgraph", "__sub__"}

CONTAINER_CELLS = {"graph": ("es", "vs")}


def mangle(cls_name: str, attr: str) -> str:
    if attr.startswith("__") and not attr.endswith("__"):
        return "_" + cls_name.lstrip("_") + attr
    return attr


# ---------------------------------------------------------------------------

@dataclass(eq=False)
class FuncInfo:
    name: str
    node: ast.FunctionDef
    module: "ModuleInfo"
    cls: Optional["ClassInfo"]
    kind: str                      # method|static|class|getter|setter|function
    cached: bool = False
    cache_attrs: tuple = ()
    cache_name: Optional[str] = None
    parent: Optional["FuncInfo"] = None   # enclosing function for closures

    @property
    def qualname(self) -> str:
        base = f"{self.cls.name}.{self.name}" if self.cls else self.name
        if self.kind == "setter":
            base += ".setter"
        elif self.kind == "getter":
            base += ".getter"
        return base

    @property
    def where(self) -> str:
        return f"{self.module.relpath}:{self.node.lineno}"

    @property
    def params(self) -> list[str]:
        a = self.node.args
        return [x.arg for x in a.posonlyargs + a.args]

    @property
    def kwonly(self) -> list[str]:
        return [x.arg for x in self.node.args.kwonlyargs]

    def defaults(self) -> dict[str, ast.expr]:
        a = self.node.args
        pos = a.posonlyargs + a.args
        d = {}
        for p, dv in zip(pos[len(pos) - len(a.defaults):], a.defaults):
            d[p.arg] = dv
        for p, dv in zip(a.kwonlyargs, a.kw_defaults):
            if dv is not None:
                d[p.arg] = dv
        return d

    @property
    def is_public(self) -> bool:
        return not self.name.startswith("_")

    @property
    def docstring(self) -> str:
        return ast.get_docstring(self.node) or ""

    def __repr__(self):
        return f"<Func {self.qualname}>"


@dataclass(eq=False)
class ClassInfo:
    name: str
    node: ast.ClassDef
    module: "ModuleInfo"
    base_exprs: list = field(default_factory=list)
    bases: list = field(default_factory=list)          # resolved ClassInfo
    ext_bases: list = field(default_factory=list)      # unresolved names
    methods: dict = field(default_factory=dict)        # name -> FuncInfo
    props: dict = field(default_factory=dict)          # name -> {get,set}
    mro: list = field(default_factory=list)

    @property
    def where(self) -> str:
        return f"{self.module.relpath}:{self.node.lineno}"

    def __repr__(self):
        return f"<Class {self.name}>"


@dataclass(eq=False)
class ModuleInfo:
    name: str
    path: str
    relpath: str
    tree: ast.Module
    source: str
    is_pkg: bool
    names: dict = field(default_factory=dict)   # local name -> binding
    classes: dict = field(default_factory=dict)
    functions: dict = field(default_factory=dict)


class Program:
    def __init__(self, repo: str):
        self.repo = repo
        self.src = os.path.join(repo, "src")
        self.modules: dict[str, ModuleInfo] = {}
        self.classes: dict[str, ClassInfo] = {}
        self.ext_modules: set[str] = set()     # compiled modules (pyx)
        self._load()
        self._normalise_sources()
        self._bind()
        self._link_classes()
        self._tree_cache: dict = {}
        self._da_cache: dict = {}

    # ---- loading ---------------------------------------------------------
    def _load(self):
        root = os.path.join(self.src, PKG)
        if not os.path.isdir(root):
            raise AnalysisError(f"package directory not found: {root}")
        for dirpath, dirnames, filenames in os.walk(root):
            dirnames[:] = [d for d in dirnames if d != "__pycache__"]
            for fn in sorted(filenames):
                full = os.path.join(dirpath, fn)
                rel = os.path.relpath(full, self.repo)
                modpath = os.path.relpath(full, self.src)
                if fn.endswith(".pyx"):
                    self.ext_modules.add(
                        modpath[:-4].replace(os.sep, "."))
                    continue
                if not fn.endswith(".py"):
                    continue
                is_pkg = fn == "__init__.py"
                mod = modpath[:-3].replace(os.sep, ".")
                if is_pkg:
                    mod = mod[: -len(".__init__")]
                with open(full, encoding="utf-8") as f:
                    src = f.read()
                try:
                    tree = ast.parse(src, filename=full)
                except SyntaxError as e:
                    raise AnalysisError(f"cannot parse {rel}: {e}") from e
                self.modules[mod] = ModuleInfo(mod, full, rel, tree, src, is_pkg)

    # ---- source idioms read as the plain code they stand for ---------------
    def _normalise_sources(self):
        """(1) `with CM(a, b): BODY` where CM is a class of the package whose
        __init__ only stores its parameters, whose __enter__ returns self and
        whose __exit__ is `if exc_type is None: STMTS; return False` is read as
        `BODY; STMTS[self.<field> := argument]` (a bump-on-success guard).
        (2) `x = property(_get_x, _set_x)` in a class body is read as the
        decorator form: the two functions become the getter and setter `x`."""
        import copy
        cms = {}
        for m in self.modules.values():
            for cn in m.tree.body:
                if not isinstance(cn, ast.ClassDef) or cn.bases:
                    continue
                fns = {f.name: f for f in cn.body if isinstance(f, ast.FunctionDef)}
                if set(fns) != {"__init__", "__enter__", "__exit__"}:
                    continue
                init, ent, ex = fns["__init__"], fns["__enter__"], fns["__exit__"]
                params = [a.arg for a in init.args.args[1:]]
                fields = {}
                ok = not init.args.vararg and not init.args.kwarg and not init.args.kwonlyargs
                for st in init.body:
                    if isinstance(st, ast.Expr) and isinstance(st.value, ast.Constant):
                        continue
                    if isinstance(st, ast.Assign) and len(st.targets) == 1 and \
                            isinstance(st.targets[0], ast.Attribute) and \
                            isinstance(st.targets[0].value, ast.Name) and \
                            st.targets[0].value.id == "self" and \
                            isinstance(st.value, ast.Name) and st.value.id in params:
                        fields[st.targets[0].attr] = st.value.id
                    else:
                        ok = False
                eb = [st for st in ent.body if not (isinstance(st, ast.Expr) and
                                                    isinstance(st.value, ast.Constant))]
                ok = ok and len(eb) == 1 and isinstance(eb[0], ast.Return) and \
                    isinstance(eb[0].value, ast.Name) and eb[0].value.id == "self"
                xb = [st for st in ex.body if not (isinstance(st, ast.Expr) and
                                                   isinstance(st.value, ast.Constant))]
                exc = ex.args.args[1].arg if len(ex.args.args) > 1 else None
                stmts = None
                if ok and xb and isinstance(xb[0], ast.If) and not xb[0].orelse and \
                        ast.unparse(xb[0].test) == f"{exc} is None" and all(
                            isinstance(r, ast.Return) and (
                                r.value is None or (isinstance(r.value, ast.Constant) and
                                                    not r.value.value))
                            for r in xb[1:]):
                    stmts = xb[0].body
                if ok and stmts is not None:
                    cms[cn.name] = (params, fields, stmts)
        prog = self
        # (1b) generator context managers: `@contextmanager def g(p, q=d): PRE;
        # yield [x]; POST` (one top-level yield, no try) - `with g(a): BODY` is
        # PRE; BODY; POST with the parameters replaced by the (simple) arguments
        gens = {}
        for m in self.modules.values():
            for fn in m.tree.body:
                if not isinstance(fn, ast.FunctionDef) or not any(
                        ast.unparse(d).split(".")[-1] == "contextmanager"
                        for d in fn.decorator_list):
                    continue
                body = [st for st in fn.body if not (
                    isinstance(st, ast.Expr) and isinstance(st.value, ast.Constant))]
                ys = [i for i, st in enumerate(body) if isinstance(st, ast.Expr)
                      and isinstance(st.value, ast.Yield)]
                deep = [y for y in ast.walk(fn) if isinstance(y, (ast.Yield, ast.YieldFrom))]
                a_ = fn.args
                if len(ys) == 1 and len(deep) == 1 and not a_.vararg and not a_.kwarg \
                        and not a_.kwonlyargs and not any(
                            isinstance(r, ast.Return) for r in ast.walk(fn)):
                    gens[fn.name] = (fn, body[:ys[0]], body[ys[0] + 1:])

        def inline_gen(n):
            c = n.items[0].context_expr
            fn, pre, post = gens[c.func.id]
            params = [x.arg for x in fn.args.args]
            defaults = dict(zip(params[len(params) - len(fn.args.defaults):],
                                fn.args.defaults))
            amap = {}
            for p_, a in zip(params, c.args):
                amap[p_] = a
            for k in c.keywords:
                if k.arg is None or k.arg not in params:
                    return None
                amap[k.arg] = k.value
            for p_ in params:
                if p_ not in amap:
                    if p_ not in defaults:
                        return None
                    amap[p_] = defaults[p_]

            def simple(e):
                return isinstance(e, (ast.Name, ast.Constant)) or (
                    isinstance(e, ast.Attribute) and simple(e.value)) or (
                    isinstance(e, ast.UnaryOp) and simple(e.operand))
            if not all(simple(v) for v in amap.values()):
                return None
            # parameters must not be re-bound in the generator
            if any(isinstance(t, ast.Name) and t.id in params
                   for st in pre + post for a_ in ast.walk(st)
                   if isinstance(a_, ast.Assign) for t in a_.targets):
                return None

            class S(ast.NodeTransformer):
                def visit_Name(self, nn):
                    if nn.id in amap and isinstance(nn.ctx, ast.Load):
                        return ast.copy_location(copy.deepcopy(amap[nn.id]), nn)
                    return nn

            def part(stmts, at):
                out = []
                for st in stmts:
                    st2 = S().visit(copy.deepcopy(st))
                    for x in ast.walk(st2):
                        ast.copy_location(x, at)
                    out.append(ast.fix_missing_locations(st2))
                return out
            return part(pre, n) + n.body + part(post, n.body[-1])

        class Inline(ast.NodeTransformer):
            def visit_With(self, n):
                self.generic_visit(n)
                if len(n.items) != 1 or n.items[0].optional_vars is not None:
                    return n
                c = n.items[0].context_expr
                if isinstance(c, ast.Call) and isinstance(c.func, ast.Name) and \
                        c.func.id in gens:
                    r_ = inline_gen(n)
                    return r_ if r_ is not None else n
                # `with self._guard():` where the method only returns CM(...)
                if isinstance(c, ast.Call) and isinstance(c.func, ast.Attribute) and \
                        isinstance(c.func.value, ast.Name) and not c.args and \
                        not c.keywords and c.func.attr in factories:
                    c = factories[c.func.attr]
                if not (isinstance(c, ast.Call) and isinstance(c.func, ast.Name) and
                        c.func.id in cms and not c.keywords):
                    return n
                params, fields, stmts = cms[c.func.id]
                if len(c.args) != len(params) or any(
                        not isinstance(a, (ast.Name, ast.Constant)) for a in c.args):
                    return n
                amap = dict(zip(params, c.args))

                class Sub(ast.NodeTransformer):
                    def visit_Attribute(self, a):
                        if isinstance(a.value, ast.Name) and a.value.id == "self" and \
                                a.attr in fields:
                            return ast.copy_location(copy.deepcopy(amap[fields[a.attr]]), n)
                        self.generic_visit(a)
                        return a
                def mk_tail(at):
                    tail = [Sub().visit(copy.deepcopy(st)) for st in stmts]
                    # `owner, counter = <self>, "<k>"` : plain copies are propagated
                    env_ = {}
                    kept = []

                    class P(ast.NodeTransformer):
                        def visit_Name(self, nn):
                            if isinstance(nn.ctx, ast.Load) and nn.id in env_:
                                return ast.copy_location(copy.deepcopy(env_[nn.id]), nn)
                            return nn
                    for st in tail:
                        st = P().visit(st)
                        if isinstance(st, ast.Assign) and len(st.targets) == 1:
                            tg, vv = st.targets[0], st.value
                            pairs = None
                            if isinstance(tg, ast.Name) and isinstance(
                                    vv, (ast.Name, ast.Constant)):
                                pairs = [(tg, vv)]
                            elif isinstance(tg, ast.Tuple) and isinstance(vv, ast.Tuple) \
                                    and len(tg.elts) == len(vv.elts) and all(
                                        isinstance(a_, ast.Name) and
                                        isinstance(b_, (ast.Name, ast.Constant))
                                        for a_, b_ in zip(tg.elts, vv.elts)):
                                pairs = list(zip(tg.elts, vv.elts))
                            if pairs is not None:
                                for a_, b_ in pairs:
                                    env_[a_.id] = b_
                                continue
                        kept.append(st)
                    tail = kept
                    for t in tail:
                        for x in ast.walk(t):
                            ast.copy_location(x, at)
                        ast.fix_missing_locations(t)
                    return tail

                # a `return` inside the block leaves through __exit__ as well
                def with_returns(block):
                    out = []
                    for st in block:
                        if isinstance(st, ast.Return):
                            out.extend(mk_tail(st))
                            out.append(st)
                            continue
                        if not isinstance(st, (ast.FunctionDef, ast.AsyncFunctionDef,
                                               ast.ClassDef)):
                            for fld in ("body", "orelse", "finalbody"):
                                sub = getattr(st, fld, None)
                                if isinstance(sub, list) and sub and \
                                        isinstance(sub[0], ast.stmt):
                                    setattr(st, fld, with_returns(sub))
                            for h in getattr(st, "handlers", []) or []:
                                h.body = with_returns(h.body)
                        out.append(st)
                    return out
                body = with_returns(n.body)
                return body + mk_tail(n.body[-1])

        # methods `def _guard(self): return CM(self, "k")` (unique by name)
        factories = {}
        dup = set()
        for m in self.modules.values():
            for fn in ast.walk(m.tree):
                if isinstance(fn, ast.FunctionDef) and len(fn.args.args) == 1 and \
                        fn.name.startswith("_"):
                    body = [st for st in fn.body if not (
                        isinstance(st, ast.Expr) and isinstance(st.value, ast.Constant))]
                    if len(body) == 1 and isinstance(body[0], ast.Return) and \
                            isinstance(body[0].value, ast.Call) and \
                            isinstance(body[0].value.func, ast.Name) and \
                            body[0].value.func.id in cms and \
                            fn.args.args[0].arg == "self":
                        if fn.name in factories:
                            dup.add(fn.name)
                        factories[fn.name] = body[0].value
        for d_ in dup:
            factories.pop(d_, None)
        for m in self.modules.values():
            if (cms or gens) and any(isinstance(w, ast.With) for w in ast.walk(m.tree)):
                m.tree = Inline().visit(m.tree)
                ast.fix_missing_locations(m.tree)
            # property(getter, setter)
            for cn in ast.walk(m.tree):
                if not isinstance(cn, ast.ClassDef):
                    continue
                fns = {f.name: f for f in cn.body if isinstance(f, ast.FunctionDef)}
                newbody = []
                for st in cn.body:
                    if isinstance(st, ast.Assign) and len(st.targets) == 1 and \
                            isinstance(st.targets[0], ast.Name) and \
                            isinstance(st.value, ast.Call) and \
                            isinstance(st.value.func, ast.Name) and \
                            st.value.func.id == "property" and not st.value.keywords and \
                            1 <= len(st.value.args) <= 2 and all(
                                isinstance(a, ast.Name) and a.id in fns
                                for a in st.value.args):
                        pname = st.targets[0].id
                        g = copy.deepcopy(fns[st.value.args[0].id])
                        g.name = pname
                        g.decorator_list = [ast.Name(id="property", ctx=ast.Load())]
                        newbody.append(ast.copy_location(g, fns[st.value.args[0].id]))
                        if len(st.value.args) == 2:
                            w = copy.deepcopy(fns[st.value.args[1].id])
                            w.name = pname
                            w.decorator_list = [ast.Attribute(
                                value=ast.Name(id=pname, ctx=ast.Load()), attr="setter",
                                ctx=ast.Load())]
                            newbody.append(ast.copy_location(w, fns[st.value.args[1].id]))
                        continue
                    newbody.append(st)
                if len(newbody) != len(cn.body):
                    cn.body = newbody
                    ast.fix_missing_locations(cn)

    def _abs_module(self, m: ModuleInfo, level: int, name: Optional[str]) -> str:
        if level == 0:
            return name or ""
        parts = m.name.split(".")
        if not m.is_pkg:
            parts = parts[:-1]
        if level > 1:
            parts = parts[: len(parts) - (level - 1)]
        if name:
            parts = parts + name.split(".")
        return ".".join(parts)

    def _bind(self):
        for m in self.modules.values():
            self._bind_module(m)

    def _bind_module(self, m: ModuleInfo):
        def visit_body(body):
            for st in body:
                if isinstance(st, ast.ImportFrom):
                    target = self._abs_module(m, st.level, st.module)
                    for al in st.names:
                        if al.name == "*":
                            m.names.setdefault("*", []).append(target)
                        else:
                            m.names[al.asname or al.name] = (
                                "import", target, al.name)
                elif isinstance(st, ast.Import):
                    for al in st.names:
                        m.names[al.asname or al.name.split(".")[0]] = (
                            "module", al.name if al.asname else
                            al.name.split(".")[0])
                elif isinstance(st, ast.ClassDef):
                    ci = self._make_class(m, st)
                    m.classes[st.name] = ci
                    m.names[st.name] = ("class", ci)
                elif isinstance(st, ast.FunctionDef):
                    fi = FuncInfo(st.name, st, m, None, "function")
                    m.functions[st.name] = fi
                    m.names[st.name] = ("func", fi)
                elif isinstance(st, (ast.Try,)):
                    visit_body(st.body)
                    for h in st.handlers:
                        visit_body(h.body)
                elif isinstance(st, ast.If):
                    visit_body(st.body)
                    visit_body(st.orelse)
                elif isinstance(st, (ast.Assign, ast.AnnAssign)):
                    tgts = st.targets if isinstance(st, ast.Assign) else [st.target]
                    for t in tgts:
                        if isinstance(t, ast.Name):
                            m.names.setdefault(t.id, ("value", st.value))
        visit_body(m.tree.body)

    # -- compile-time constants (class-level / module-level tables of names)
    def static_value(self, e, cls=None, module=None, env=None, _depth=0,
                     _classnode=None):
        """Python value of an expression built from literals, `+` on strings and
        tuples, and names of class-level / module-level constants; UNKNOWN
        otherwise.  `cls` is a ClassInfo (its MRO is searched for self.X / cls.X /
        bare names inside the class body), `_classnode` a ClassDef under
        construction."""
        if _depth > 12:
            return UNKNOWN
        rec = lambda x: self.static_value(x, cls, module, env, _depth + 1, _classnode)
        if isinstance(e, ast.Constant):
            return e.value if isinstance(e.value, (str, int, float, bool, type(None))) \
                else UNKNOWN
        if isinstance(e, (ast.Tuple, ast.List)):
            out = []
            for x in e.elts:
                if isinstance(x, ast.Starred):
                    v = rec(x.value)
                    if not isinstance(v, tuple):
                        return UNKNOWN
                    out.extend(v)
                else:
                    v = rec(x)
                    if v is UNKNOWN:
                        return UNKNOWN
                    out.append(v)
            return tuple(out)
        if isinstance(e, ast.Dict):
            out = {}
            for k_, v_ in zip(e.keys, e.values):
                if k_ is None:
                    return UNKNOWN
                kv, vv = rec(k_), rec(v_)
                if kv is UNKNOWN or vv is UNKNOWN or isinstance(kv, (dict, list)):
                    return UNKNOWN
                out[kv] = vv
            return out
        if isinstance(e, ast.Subscript):
            base, key = rec(e.value), rec(e.slice)
            if base is UNKNOWN or key is UNKNOWN:
                return UNKNOWN
            try:
                return base[key]
            except Exception:
                return UNKNOWN
        if isinstance(e, ast.BinOp) and isinstance(e.op, ast.Add):
            a, b = rec(e.left), rec(e.right)
            if isinstance(a, str) and isinstance(b, str):
                return a + b
            if isinstance(a, tuple) and isinstance(b, tuple):
                return a + b
            return UNKNOWN
        if isinstance(e, ast.JoinedStr):
            parts = []
            for x in e.values:
                if isinstance(x, ast.Constant):
                    parts.append(str(x.value))
                elif isinstance(x, ast.FormattedValue) and x.format_spec is None and \
                        x.conversion == -1:
                    v = rec(x.value)
                    if not isinstance(v, str):
                        return UNKNOWN
                    parts.append(v)
                else:
                    return UNKNOWN
            return "".join(parts)

        def class_const(nodes, name):
            for cn in nodes:
                for st in cn.body:
                    if isinstance(st, ast.Assign) and len(st.targets) == 1 and \
                            isinstance(st.targets[0], ast.Name) and \
                            st.targets[0].id == name:
                        return st.value, cn
                    if isinstance(st, ast.AnnAssign) and isinstance(st.target, ast.Name) \
                            and st.target.id == name and st.value is not None:
                        return st.value, cn
            return None, None

        def class_nodes(c):
            try:
                return [k.node for k in c.mro]
            except Exception:
                return [c.node]
        if isinstance(e, ast.Name):
            if env is not None and e.id in env:
                v = env[e.id]
                return v if isinstance(v, (str, int, float, bool, type(None))) else UNKNOWN
            nodes = ([_classnode] if _classnode is not None else [])
            v, cn = class_const(nodes, e.id)
            if v is not None:
                return self.static_value(v, cls, module, None, _depth + 1, cn)
            if module is not None:
                ent = module.names.get(e.id)
                if ent and ent[0] == "value" and ent[1] is not None:
                    return self.static_value(ent[1], None, module, None, _depth + 1)
            return UNKNOWN
        if isinstance(e, ast.Attribute) and isinstance(e.value, ast.Name):
            owner = None
            if e.value.id in ("self", "cls") and cls is not None:
                owner = cls
            elif e.value.id in getattr(self, "classes", {}):
                owner = self.classes[e.value.id]
            if owner is not None:
                v, cn = class_const(class_nodes(owner), e.attr)
                if v is not None:
                    return self.static_value(v, owner, owner.module, None, _depth + 1, cn)
        return UNKNOWN

    def _make_class(self, m: ModuleInfo, node: ast.ClassDef) -> ClassInfo:
        ci = ClassInfo(node.name, node, m, base_exprs=list(node.bases))
        for st in node.body:
            if not isinstance(st, ast.FunctionDef):
                continue
            kind = "method"
            cached, attrs, cname = False, (), None
            prop = None
            for d in st.decorator_list:
                ds = ast.unparse(d)
                if ds == "staticmethod":
                    kind = "static"
                elif ds == "classmethod":
                    kind = "class"
                elif ds == "property":
                    kind = "getter"
                    prop = st.name
                elif ds.endswith(".setter"):
                    kind = "setter"
                    prop = ds[: -len(".setter")]
                elif ds == "abstractmethod":
                    pass
                elif isinstance(d, ast.Call) and ast.unparse(d.func) == "Cached.method":
                    cached = True
                    for kw in d.keywords:
                        if kw.arg == "attrs":
                            try:
                                attrs = tuple(ast.literal_eval(kw.value))
                            except Exception as e:
                                sv = self.static_value(kw.value, None, m, None, 0, node)
                                if isinstance(sv, tuple) and all(
                                        isinstance(x, str) for x in sv):
                                    attrs = sv
                                    continue
                                raise AnalysisError(
                                    f"{m.relpath}:{d.lineno} non-literal attrs "
                                    f"in @Cached.method") from e
                        elif kw.arg == "name":
                            try:
                                cname = ast.literal_eval(kw.value)
                            except Exception:
                                cname = None
                    if d.args:
                        try:
                            cname = ast.literal_eval(d.args[0])
                            if len(d.args) > 1:
                                attrs = tuple(ast.literal_eval(d.args[1]))
                        except Exception as e:
                            raise AnalysisError(
                                f"{m.relpath}:{d.lineno} non-literal args in "
                                f"@Cached.method") from e
                elif ds in ("Cached.method",):
                    raise AnalysisError(
                        f"{m.relpath}:{d.lineno} @Cached.method without call")
            fi = FuncInfo(st.name, st, m, ci, kind, cached, attrs, cname)
            if kind == "getter":
                ci.props.setdefault(prop, {})["get"] = fi
            elif kind == "setter":
                ci.props.setdefault(prop, {})["set"] = fi
            else:
                ci.methods[st.name] = fi
        return ci

    # ---- name resolution -------------------------------------------------
    def resolve_name(self, m: ModuleInfo, name: str, _seen=None):
        """Resolve a module-level name to ('class', ClassInfo) |
        ('func', FuncInfo) | ('kernel', ext_module, name) | ('module', name) |
        ('value', expr) | None."""
        _seen = _seen or set()
        if (m.name, name) in _seen:
            return None
        _seen.add((m.name, name))
        b = m.names.get(name)
        if b is None:
            for target in m.names.get("*", []):
                tm = self.modules.get(target)
                if tm is not None:
                    r = self.resolve_name(tm, name, _seen)
                    if r is not None:
                        return r
            return None
        if b[0] in ("class", "func", "value"):
            return b
        if b[0] == "module":
            return b
        if b[0] == "import":
            _, target, attr = b
            if target in self.ext_modules:
                return ("kernel", target, attr)
            tm = self.modules.get(target)
            if tm is None:
                # maybe `from . import x` (submodule)
                sub = f"{target}.{attr}"
                if sub in self.modules or sub in self.ext_modules:
                    return ("module", sub)
                return ("external", target, attr)
            sub = f"{target}.{attr}"
            r = self.resolve_name(tm, attr, _seen)
            if r is None and (sub in self.modules or sub in self.ext_modules):
                return ("module", sub)
            return r
        return None

    def resolve_dotted(self, start: str, dotted: str):
        """Resolve 'a.b.c' starting in package/module `start` the way
        attribute access on the imported module object would."""
        cur = ("module", start)
        for part in dotted.split("."):
            if cur is None:
                return None
            if cur[0] == "module":
                mn = cur[1]
                sub = f"{mn}.{part}"
                r = None
                if mn in self.modules:
                    r = self.resolve_name(self.modules[mn], part)
                if r is None:
                    if sub in self.modules or sub in self.ext_modules:
                        r = ("module", sub)
                if r is None and mn in self.ext_modules:
                    r = ("kernel", mn, part)
                cur = r
            elif cur[0] == "class":
                ci = cur[1]
                f = self.lookup(ci, part)
                cur = ("func", f) if f else None
            else:
                return None
        return cur

    def _link_classes(self):
        for m in self.modules.values():
            for ci in m.classes.values():
                if ci.name in self.classes and self.classes[ci.name] is not ci:
                    raise AnalysisError(
                        f"duplicate class name {ci.name}: {ci.where} and "
                        f"{self.classes[ci.name].where}")
                self.classes[ci.name] = ci
        for ci in self.classes.values():
            for be in ci.base_exprs:
                r = None
                if isinstance(be, ast.Name):
                    r = self.resolve_name(ci.module, be.id)
                if r and r[0] == "class":
                    ci.bases.append(r[1])
                else:
                    ci.ext_bases.append(ast.unparse(be))
        for ci in self.classes.values():
            ci.mro = self._c3(ci)

    def _c3(self, ci: ClassInfo, _stack=()) -> list:
        if ci in _stack:
            raise AnalysisError(f"inheritance cycle at {ci.name}")
        seqs = [self._c3(b, _stack + (ci,)) for b in ci.bases] + [list(ci.bases)]
        res = [ci]
        seqs = [list(s) for s in seqs if s]
        while seqs:
            for s in seqs:
                cand = s[0]
                if not any(cand in t[1:] for t in seqs):
                    break
            else:
                raise AnalysisError(f"inconsistent MRO for {ci.name}")
            res.append(cand)
            for s in seqs:
                if s and s[0] is cand:
                    del s[0]
            seqs = [s for s in seqs if s]
        return res

    def is_subclass(self, ci: ClassInfo, base_name: str) -> bool:
        return any(c.name == base_name for c in ci.mro)

    def subclasses(self, base_name: str) -> list[ClassInfo]:
        return sorted((c for c in self.classes.values()
                       if self.is_subclass(c, base_name)),
                      key=lambda c: c.name)

    # ---- method resolution -------------------------------------------------
    def lookup(self, ci: ClassInfo, name: str, start: ClassInfo | None = None):
        """First plain method `name` in MRO(ci) (from `start` on)."""
        mro = ci.mro
        if start is not None:
            if start in mro:
                mro = mro[mro.index(start):]
            else:
                mro = start.mro
        for c in mro:
            if name in c.methods:
                return c.methods[name]
            if name in c.props:
                return None
        return None

    def lookup_prop(self, ci: ClassInfo, name: str, start: ClassInfo | None = None):
        mro = ci.mro
        if start is not None:
            mro = mro[mro.index(start):] if start in mro else start.mro
        for c in mro:
            if name in c.props:
                return c.props[name]
            if name in c.methods:
                return None
        return None

    def all_methods(self, ci: ClassInfo) -> dict[str, FuncInfo]:
        out = {}
        for c in reversed(ci.mro):
            for n, f in c.methods.items():
                out[n] = f
            for n in c.props:
                out.pop(n, None)
        return out

    def all_props(self, ci: ClassInfo) -> dict[str, dict]:
        out = {}
        for c in reversed(ci.mro):
            for n, p in c.props.items():
                out[n] = p
            for n in c.methods:
                out.pop(n, None)
        return out

    def functions(self):
        for m in self.modules.values():
            for f in m.functions.values():
                yield f
            for c in m.classes.values():
                for f in c.methods.values():
                    yield f
                for p in c.props.values():
                    for f in p.values():
                        yield f

    # ---- effect trees ------------------------------------------------------
    def tree(self, func: FuncInfo, cls: Optional[ClassInfo], env: dict | None = None,
             reinit: bool = True):
        """Effect tree of `func` executed on an instance of `cls`."""
        env = env or {}
        key = (func, cls, tuple(sorted(env.items(), key=lambda kv: kv[0])), reinit)
        if key in self._tree_cache:
            hit = self._tree_cache[key]
            return hit if hit is not None else EMPTY   # None: recursion
        self._tree_cache[key] = None
        b = _Builder(self, func, cls, env, reinit)
        t = b.build()
        self._tree_cache[key] = t
        return t

    def _only_called_on_fresh_objects(self, f: FuncInfo) -> bool:
        """Every call `<x>.<f.name>(...)` in the package has as receiver a local
        that was bound, in the same function, to a constructor call (`net =
        Network(...)`): the method only ever runs on objects nobody else holds
        yet (a loader finishing the object it has just built)."""
        n = 0
        for g in self.functions():
            gs = g.params[0] if g.params and g.kind in ("method", "setter",
                                                        "getter") else None
            for c in ast.walk(g.node):
                if not (isinstance(c, ast.Call) and isinstance(c.func, ast.Attribute)
                        and c.func.attr == f.name):
                    continue
                recv = c.func.value
                if not isinstance(recv, ast.Name) or recv.id == gs:
                    return False
                fresh = False
                for st in ast.walk(g.node):
                    if isinstance(st, ast.Assign) and len(st.targets) == 1 and \
                            isinstance(st.targets[0], ast.Name) and \
                            st.targets[0].id == recv.id and isinstance(st.value, ast.Call):
                        fn = st.value.func
                        nm = fn.id if isinstance(fn, ast.Name) else \
                            fn.attr if isinstance(fn, ast.Attribute) else ""
                        if nm in self.classes or nm == "cls":
                            fresh = True
                if not fresh:
                    return False
                n += 1
        return n >= 1

    def simplify_is_idempotent(self) -> bool:
        """True iff every `self.graph = ...` in the package is directly
        followed by `self.graph.simplify()` in the same block."""
        if hasattr(self, "_simplify_ok"):
            return self._simplify_ok
        ok, n = True, 0
        for f in self.functions():
            # stores through `self` of instance methods (a loader that attaches a
            # graph to a freshly built object is not one of them)
            if f.kind not in ("method", "setter", "getter"):
                continue
            sn = f.params[0] if f.params else None
            if f.name.startswith("_") and not f.name.startswith("__") and \
                    self._only_called_on_fresh_objects(f):
                continue        # the loader idiom, factored into a private helper
            for node in ast.walk(f.node):
                for fld in ("body", "orelse", "finalbody"):
                    body = getattr(node, fld, None)
                    if not isinstance(body, list):
                        continue
                    for i, st in enumerate(body):
                        tg = None
                        if isinstance(st, ast.Assign) and len(st.targets) == 1:
                            tg = st.targets[0]
                        elif isinstance(st, ast.AnnAssign) and st.value is not None:
                            tg = st.target
                        if not (isinstance(tg, ast.Attribute) and tg.attr == "graph"
                                and isinstance(tg.value, ast.Name)
                                and tg.value.id == sn):
                            continue
                        if isinstance(st.value, ast.Constant) and st.value.value is None:
                            continue
                        n += 1
                        # simplified right after the store, as the cell or as the
                        # local that was stored; or the stored local was simplified
                        # right before it was stored
                        accepted = {f"{sn}.graph.simplify()"}
                        if isinstance(st.value, ast.Name):
                            accepted.add(f"{st.value.id}.simplify()")
                        nxt = body[i + 1] if i + 1 < len(body) else None
                        prv = body[i - 1] if i > 0 else None
                        good = (isinstance(nxt, ast.Expr)
                                and ast.unparse(nxt.value) in accepted) or \
                            (isinstance(prv, ast.Expr) and isinstance(st.value, ast.Name)
                             and ast.unparse(prv.value) == f"{st.value.id}.simplify()")
                        if not good:
                            ok = False
        self._simplify_ok = ok and n >= 1
        return self._simplify_ok

    def definitely_assigned(self, cls: ClassInfo) -> frozenset:
        """Cells assigned (or bumped) on every normal path of cls's constructor."""
        if cls in self._da_cache:
            return self._da_cache[cls]
        self._da_cache[cls] = frozenset()
        init = self.lookup(cls, "__init__")
        res = frozenset()
        if init is not None:
            t = self.tree(init, cls, {}, reinit=False)
            res = definitely_written(t)
        self._da_cache[cls] = res
        # trees built with the provisional empty set are only the reinit=False
        # ones, which never consult it
        return res


# ---------------------------------------------------------------------------
# effect tree representation
#
# node := ("seq", [node...]) | ("alt", [node...]) | ("loop", node)
#       | ("ev", Event) | ("ret",) | ("raise",)
#       | ("call", CallInfo, node)      (callee body inlined)

@dataclass(eq=False)
class Event:
    kind: str          # read | write | bump | assign | objcall | kernel | extcall
    cell: str = ""
    node: Any = None
    func: Optional[FuncInfo] = None
    info: dict = field(default_factory=dict)

    @property
    def where(self) -> str:
        ln = getattr(self.node, "lineno", 0)
        return f"{self.func.module.relpath}:{ln}" if self.func else f"?:{ln}"

    def __repr__(self):
        return f"{self.kind}({self.cell})@{self.where}"


@dataclass(eq=False)
class CallInfo:
    func: FuncInfo
    cls: Optional[ClassInfo]
    node: Any
    caller: Optional[FuncInfo]
    via: str = "self"      # self | base | prop-get | prop-set | dyn | ctor

    @property
    def where(self):
        ln = getattr(self.node, "lineno", 0)
        return f"{self.caller.module.relpath}:{ln}" if self.caller else f"?:{ln}"


EMPTY = ("seq", [])


def seq(nodes):
    out = []
    for n in nodes:
        if n is None or n == EMPTY:
            continue
        if n[0] == "seq":
            out.extend(n[1])
        else:
            out.append(n)
    if len(out) == 1:
        return out[0]
    return ("seq", out)


def alt(nodes):
    nodes = [n if n is not None else EMPTY for n in nodes]
    if len(nodes) == 1:
        return nodes[0]
    return ("alt", nodes)


def iter_events(t, into_calls=True, _seen=None):
    """All events of a tree (flow-insensitive)."""
    if _seen is None:
        _seen = set()
    if id(t) in _seen:
        return
    _seen.add(id(t))
    k = t[0]
    if k == "ev":
        yield t[1]
    elif k in ("seq", "alt"):
        for c in t[1]:
            yield from iter_events(c, into_calls, _seen)
    elif k == "loop":
        yield from iter_events(t[1], into_calls, _seen)
    elif k == "call":
        if into_calls:
            yield from iter_events(t[2], into_calls, _seen)


def iter_calls(t, _seen=None):
    if _seen is None:
        _seen = set()
    if id(t) in _seen:
        return
    _seen.add(id(t))
    k = t[0]
    if k in ("seq", "alt"):
        for c in t[1]:
            yield from iter_calls(c, _seen)
    elif k == "loop":
        yield from iter_calls(t[1], _seen)
    elif k == "call":
        yield t[1], t[2]
        yield from iter_calls(t[2], _seen)


def definitely_written(t) -> frozenset:
    """Cells written on every normal (non-raising) path."""
    def go(n):
        # returns (set written on all normal paths, may_complete_normally)
        k = n[0]
        if k == "ev":
            e = n[1]
            if e.kind in ("write", "bump", "assign", "ensure"):
                return frozenset([e.cell]), True
            return frozenset(), True
        if k == "seq":
            acc = frozenset()
            for c in n[1]:
                w, ok = go(c)
                acc |= w
                if not ok:
                    return acc, False
            return acc, True
        if k == "alt":
            res = None
            anyok = False
            for c in n[1]:
                w, ok = go(c)
                if ok:
                    anyok = True
                    res = w if res is None else (res & w)
            return (res if res is not None else frozenset()), anyok
        if k == "loop":
            return frozenset(), True
        if k == "call":
            w, ok = go(n[2])
            return w, True if ok or _returns(n[2]) else False
        if k == "ret":
            return frozenset(), True     # conservative: treat as normal end
        if k == "raise":
            return frozenset(), False
        return frozenset(), True
    return go(t)[0]


def _returns(t) -> bool:
    k = t[0]
    if k == "ret":
        return True
    if k in ("seq", "alt"):
        return any(_returns(c) for c in t[1])
    if k == "loop":
        return _returns(t[1])
    return False


# ---------------------------------------------------------------------------
# constants

UNKNOWN = object()
_HASHABLE_CONST = (type(None), bool, str, int, float)


def const_of(node, env, b=None):
    """Constant value of an expression under env, or UNKNOWN.  With a builder
    `b`, class-level / module-level constants and `+` on strings are folded."""
    if b is not None and isinstance(node, (ast.Attribute, ast.BinOp, ast.JoinedStr,
                                           ast.Name, ast.Subscript)) and \
            not (isinstance(node, ast.Name) and node.id in env):
        # only *constants by convention* (UPPER_CASE class / module names holding
        # strings) are folded: an instance attribute may shadow anything else
        local_ = getattr(b, "_stored_names", None)
        if local_ is None:
            local_ = {x.id for x in ast.walk(b.f.node) if isinstance(x, ast.Name)
                      and isinstance(x.ctx, ast.Store)} | set(b.f.params)
            b._stored_names = local_
        for a in ast.walk(node):
            if isinstance(a, ast.Name) and a.id in local_ and a.id not in env and \
                    a.id not in ("self", "cls", getattr(b, "selfname", None)):
                return UNKNOWN          # a local of this function, value unknown
            if isinstance(a, ast.Attribute) and a.attr != a.attr.upper():
                return UNKNOWN
            if isinstance(a, ast.Name) and a.id not in env and a.id != a.id.upper() \
                    and a.id not in ("self", "cls") and a.id not in b.p.classes:
                return UNKNOWN
        v = b.p.static_value(node, b.cls, b.f.module, env)
        return v if (v is not UNKNOWN and isinstance(v, str)) else UNKNOWN
    if isinstance(node, ast.Constant):
        v = node.value
        if v is None or isinstance(v, (bool, str)):
            return v
        if isinstance(v, (int, float)):
            return v
        return UNKNOWN
    if isinstance(node, ast.Name) and node.id in env:
        return env[node.id]
    if isinstance(node, ast.UnaryOp) and isinstance(node.op, ast.USub):
        v = const_of(node.operand, env)
        if isinstance(v, (int, float)) and not isinstance(v, bool):
            return -v
    return UNKNOWN


_HASHABLE_CONST = (type(None), bool, str, int, float)


class _GetattrToAttr(ast.NodeTransformer):
    """getattr(self, "<k>"[, default]) -> self.<k> when <k> is the constant name
    `only` (used to read `setattr(self, k, getattr(self, k) + 1)` as a bump; a
    default makes it the accepted continue-the-counter idiom and is kept)."""
    def __init__(self, builder, only):
        self.b, self.only = builder, only

    def visit_Call(self, n):
        self.generic_visit(n)
        if isinstance(n.func, ast.Name) and n.func.id == "getattr" and \
                len(n.args) == 2 and self.b.is_self(n.args[0]) and \
                const_of(n.args[1], self.b.env, self.b) == self.only:
            return ast.copy_location(ast.Attribute(value=n.args[0], attr=self.only,
                                                   ctx=ast.Load()), n)
        if isinstance(n.func, ast.Name) and n.func.id == "getattr" and \
                len(n.args) == 3 and self.b.is_self(n.args[0]) and \
                isinstance(const_of(n.args[1], self.b.env, self.b), str):
            # normalise the name argument to a literal (K2 reads it syntactically)
            n.args[1] = ast.copy_location(ast.Constant(
                value=const_of(n.args[1], self.b.env, self.b)), n.args[1])
        return n


class _Builder:
    def __init__(self, prog: Program, func: FuncInfo, cls, env, reinit):
        self.p = prog
        self.f = func
        self.cls = cls
        self.env = dict(env)
        self.reinit = reinit
        self.selfname = None
        if func.kind in ("method", "getter", "setter") and func.params:
            self.selfname = func.params[0]
        self.aliases: dict[str, str] = {}     # local name -> cell
        self.objalias: dict[str, str] = {}    # local name -> cell holding object
        self.classvars: dict[str, ClassInfo] = {}

    def const_str_seq(self, e):
        """[str, ...] when e is a tuple/list literal of string constants or a
        class-level attribute (self.X / Class.X) bound to one."""
        if isinstance(e, (ast.Tuple, ast.List)) and e.elts and all(
                isinstance(x, ast.Constant) and isinstance(x.value, str) for x in e.elts):
            return [x.value for x in e.elts]
        if isinstance(e, ast.Attribute) and isinstance(e.value, ast.Name) and \
                self.cls is not None and (self.is_self(e.value) or
                                          e.value.id in self.p.classes):
            classes = self.cls.mro if self.is_self(e.value) else \
                self.p.classes[e.value.id].mro
            for c in classes:
                for st in c.node.body:
                    if isinstance(st, ast.Assign) and len(st.targets) == 1 and \
                            isinstance(st.targets[0], ast.Name) and \
                            st.targets[0].id == e.attr:
                        return self.const_str_seq(st.value)
                    if isinstance(st, ast.AnnAssign) and isinstance(st.target, ast.Name) \
                            and st.target.id == e.attr and st.value is not None:
                        return self.const_str_seq(st.value)
        return None

    # -- helpers
    def ev(self, kind, cell, node, **info):
        if cell in getattr(self, "_fresh", ()) and kind in ("assign", "write"):
            info["fresh_guard"] = True     # only reached when the attribute is absent
        return ("ev", Event(kind, cell, node, self.f, info))

    def cellname(self, attr):
        owner = self.f.cls.name if self.f.cls else ""
        return mangle(owner, attr)

    def is_self(self, node):
        return (self.selfname is not None and isinstance(node, ast.Name)
                and node.id == self.selfname)

    def self_cell(self, node):
        """If node is an access path rooted at self that names a cell, return
        (cell, rest-attr-chain)."""
        chain = []
        cur = node
        while isinstance(cur, ast.Attribute):
            chain.append(cur.attr)
            cur = cur.value
        if not self.is_self(cur) or not chain:
            return None
        chain.reverse()
        first = self.cellname(chain[0])
        if first in CONTAINER_CELLS and len(chain) >= 2 and \
                chain[1] in CONTAINER_CELLS[first]:
            return f"{first}.{chain[1]}", chain[2:]
        return first, chain[1:]

    # -- build
    def build(self):
        node = self.f.node
        # assert p is None at the top makes p known
        for st in node.body[:4]:
            if isinstance(st, ast.Assert):
                t = st.test
                if (isinstance(t, ast.Compare) and len(t.ops) == 1
                        and isinstance(t.ops[0], ast.Is)
                        and isinstance(t.left, ast.Name)
                        and isinstance(t.comparators[0], ast.Constant)
                        and t.comparators[0].value is None
                        and t.left.id not in self.env):
                    self.env[t.left.id] = None
        return self.block(node.body)

    def block(self, stmts):
        out = []
        for st in stmts:
            n = self.stmt(st)
            out.append(n)
            if self._terminates(n):
                break
        return seq(out)

    @staticmethod
    def _terminates(n):
        if n is None:
            return False
        if n[0] in ("ret", "raise"):
            return True
        if n[0] == "seq" and n[1]:
            return _Builder._terminates(n[1][-1])
        if n[0] == "alt":
            return all(_Builder._terminates(c) for c in n[1])
        return False

    # -- condition evaluation
    def truth(self, test):
        """True / False / UNKNOWN for a condition under env."""
        if isinstance(test, ast.Constant):
            return bool(test.value)
        if isinstance(test, ast.Name):
            v = self.env.get(test.id, UNKNOWN)
            if v is UNKNOWN:
                return UNKNOWN
            return bool(v)
        if isinstance(test, ast.UnaryOp) and isinstance(test.op, ast.Not):
            v = self.truth(test.operand)
            return UNKNOWN if v is UNKNOWN else (not v)
        if isinstance(test, ast.BoolOp):
            vals = [self.truth(v) for v in test.values]
            if isinstance(test.op, ast.And):
                if any(v is False for v in vals):
                    return False
                if all(v is True for v in vals):
                    return True
                return UNKNOWN
            if any(v is True for v in vals):
                return True
            if all(v is False for v in vals):
                return False
            return UNKNOWN
        if isinstance(test, ast.Compare) and len(test.ops) == 1:
            l = const_of(test.left, self.env, self)
            r = const_of(test.comparators[0], self.env, self)
            op = test.ops[0]
            if isinstance(op, (ast.In, ast.NotIn)) and l is not UNKNOWN and \
                    isinstance(test.comparators[0], (ast.List, ast.Tuple, ast.Set)):
                elts = [const_of(e, self.env, self) for e in test.comparators[0].elts]
                if all(e is not UNKNOWN for e in elts):
                    res = l in elts
                    return res if isinstance(op, ast.In) else not res
                return UNKNOWN
            if l is UNKNOWN or r is UNKNOWN:
                return UNKNOWN
            if isinstance(op, ast.Is):
                return (l is r) if (l is None or r is None or
                                    isinstance(l, bool) or isinstance(r, bool)) else UNKNOWN
            if isinstance(op, ast.IsNot):
                return (l is not r) if (l is None or r is None or
                                        isinstance(l, bool) or isinstance(r, bool)) else UNKNOWN
            try:
                if isinstance(op, ast.Eq):
                    return l == r
                if isinstance(op, ast.NotEq):
                    return l != r
                if l is None or r is None:
                    return UNKNOWN
                if isinstance(op, ast.Lt):
                    return l < r
                if isinstance(op, ast.LtE):
                    return l <= r
                if isinstance(op, ast.Gt):
                    return l > r
                if isinstance(op, ast.GtE):
                    return l >= r
            except TypeError:
                return UNKNOWN
            return UNKNOWN
        if isinstance(test, ast.Call) and isinstance(test.func, ast.Name) \
                and test.func.id == "hasattr" and len(test.args) == 2 \
                and self.is_self(test.args[0]) \
                and isinstance(test.args[1], ast.Constant):
            if self.reinit and self.cls is not None:
                cell = self.cellname(test.args[1].value)
                if cell in self.p.definitely_assigned(self.cls):
                    return True
            return UNKNOWN
        return UNKNOWN

    def const_call(self, call, depth=0):
        """Constant result of a call of a small module-level function / static
        helper whose outcome is decided by the constant arguments (a parameter
        normaliser such as `"topological" -> None`): its ifs are decided under
        the bound constants and every reached `return` yields a constant."""
        callee = None
        if isinstance(call.func, ast.Name):
            r = self.p.resolve_name(self.f.module, call.func.id)
            if r and r[0] == "func":
                callee = r[1]
        elif isinstance(call.func, ast.Attribute) and isinstance(call.func.value, ast.Name) \
                and self.cls is not None and (
                    self.is_self(call.func.value) or
                    call.func.value.id in {c.name for c in self.cls.mro}):
            callee = self.p.lookup(self.cls, call.func.attr)
        if callee is None or depth > 2 or not isinstance(callee.node, ast.FunctionDef):
            return UNKNOWN
        a = callee.node.args
        if a.vararg or a.kwarg or any(isinstance(x, ast.Starred) for x in call.args) or \
                any(k.arg is None for k in call.keywords):
            return UNKNOWN
        params = [x.arg for x in a.posonlyargs + a.args]
        if params and params[0] in ("self", "cls") and isinstance(call.func, ast.Attribute):
            params = params[1:]
        if len(call.args) > len(params):
            return UNKNOWN
        env = {}
        dflt = dict(zip([x.arg for x in (a.posonlyargs + a.args)][-len(a.defaults):],
                        a.defaults)) if a.defaults else {}
        for pn, d in dflt.items():
            c = const_of(d, {})
            if c is not UNKNOWN:
                env[pn] = c
        for pn, v in list(zip(params, call.args)) + [(k.arg, k.value)
                                                     for k in call.keywords]:
            c = const_of(v, self.env, self)
            if c is UNKNOWN:
                env.pop(pn, None)
            else:
                env[pn] = c
        sub = _Builder(self.p, callee, callee.cls, env, False)

        def run(stmts):
            for st in stmts:
                if isinstance(st, (ast.Expr, ast.Pass)):
                    continue             # docstring / print: no value
                if isinstance(st, ast.If):
                    t = sub.truth(st.test)
                    if t is UNKNOWN:
                        return ("unknown",)
                    r = run(st.body if t else st.orelse)
                    if r[0] != "fall":
                        return r
                    continue
                if isinstance(st, ast.Return):
                    c = const_of(st.value, sub.env) if st.value is not None else None
                    return ("ret", c) if c is not UNKNOWN else ("unknown",)
                if isinstance(st, ast.Assign) and len(st.targets) == 1 and \
                        isinstance(st.targets[0], ast.Name):
                    c = const_of(st.value, sub.env)
                    if c is UNKNOWN:
                        return ("unknown",)
                    sub.env[st.targets[0].id] = c
                    continue
                return ("unknown",)
            return ("fall",)
        r = run(callee.node.body)
        if r[0] == "ret":
            return r[1]
        if r[0] == "fall":
            return None
        return UNKNOWN

    # -- statements
    def stmt(self, st):
        if isinstance(st, ast.Expr):
            if isinstance(st.value, ast.Constant):
                return EMPTY
            return self.expr(st.value)
        if isinstance(st, ast.Assign):
            v = self.expr(st.value)
            outs = [v]
            for t in st.targets:
                outs.append(self.store(t, st.value, st))
            return seq(outs)
        if isinstance(st, ast.AnnAssign):
            if st.value is None:
                return EMPTY
            v = self.expr(st.value)
            return seq([v, self.store(st.target, st.value, st)])
        if isinstance(st, ast.AugAssign):
            v = self.expr(st.value)
            return seq([v, self.augstore(st)])
        if isinstance(st, ast.Return):
            v = self.expr(st.value) if st.value is not None else EMPTY
            return seq([v, ("ret",)])
        if isinstance(st, ast.Raise):
            v = self.expr(st.exc) if st.exc is not None else EMPTY
            return seq([v, ("raise",)])
        if isinstance(st, ast.Assert):
            return self.expr(st.test)
        if isinstance(st, ast.If):
            c = self.expr(st.test)
            tv = self.truth(st.test)
            if tv is True:
                return seq([c, self.block(st.body)])
            if tv is False:
                return seq([c, self.block(st.orelse)])
            saved = (dict(self.aliases), dict(self.objalias), dict(self.env))
            # a branch taken only when `self` has no attribute k yet
            fresh_cell, fresh_in_body = None, True
            t0 = st.test
            neg0 = isinstance(t0, ast.UnaryOp) and isinstance(t0.op, ast.Not)
            h0 = t0.operand if neg0 else t0
            if isinstance(h0, ast.Call) and isinstance(h0.func, ast.Name) and \
                    h0.func.id == "hasattr" and len(h0.args) == 2 and \
                    self.is_self(h0.args[0]) and isinstance(h0.args[1], ast.Constant) \
                    and isinstance(h0.args[1].value, str):
                fresh_cell, fresh_in_body = self.cellname(h0.args[1].value), neg0
            prev_fresh = getattr(self, "_fresh", frozenset())
            if fresh_cell and fresh_in_body:
                self._fresh = prev_fresh | {fresh_cell}
            b1 = self.block(st.body)
            self._fresh = prev_fresh
            a1 = (self.aliases, self.objalias, self.env)
            self.aliases, self.objalias = dict(saved[0]), dict(saved[1])
            self.env = dict(saved[2])
            if fresh_cell and not fresh_in_body:
                self._fresh = prev_fresh | {fresh_cell}
            b2 = self.block(st.orelse)
            self._fresh = prev_fresh
            # may-alias join; constants must agree on both branches
            t1, t2 = self._terminates(b1), self._terminates(b2)
            if t2 and not t1:
                self.aliases, self.objalias, self.env = a1
            elif not t1:
                for k, v in a1[0].items():
                    self.aliases.setdefault(k, v)
                for k, v in a1[1].items():
                    self.objalias.setdefault(k, v)
                self.env = {k: v for k, v in self.env.items()
                            if k in a1[2] and a1[2][k] is v or
                            (k in a1[2] and a1[2][k] == v and
                             type(a1[2][k]) is type(v))}
            out = [c, alt([b1, b2])]
            # `if not hasattr(self, "k"): self.k = ...` (or the else-form): after
            # the statement the attribute exists on every path
            t_ = st.test
            neg = isinstance(t_, ast.UnaryOp) and isinstance(t_.op, ast.Not)
            h = t_.operand if neg else t_
            if isinstance(h, ast.Call) and isinstance(h.func, ast.Name) and \
                    h.func.id == "hasattr" and len(h.args) == 2 and \
                    self.is_self(h.args[0]) and isinstance(h.args[1], ast.Constant) and \
                    isinstance(h.args[1].value, str):
                cell = self.cellname(h.args[1].value)
                if cell in definitely_written(b1 if neg else b2):
                    out.append(self.ev("ensure", cell, st))
            return seq(out)
        if isinstance(st, (ast.For, ast.AsyncFor)):
            # a loop over a literal / class-level tuple of strings is unrolled
            # (attribute names driven by a table: setattr(self, name, ...))
            vals = self.const_str_seq(st.iter)
            if vals is not None and isinstance(st.target, ast.Name) and not st.orelse \
                    and len(vals) <= 16:
                outs = [self.expr(st.iter)]
                saved = self.env.get(st.target.id, UNKNOWN)
                for v in vals:
                    self.env[st.target.id] = v
                    outs.append(self.block(st.body))
                if saved is UNKNOWN:
                    self.env.pop(st.target.id, None)
                else:
                    self.env[st.target.id] = saved
                return seq(outs)
            # for key, name, opt in <constant table of tuples>: unrolled with every
            # target bound to its constant
            if isinstance(st.target, ast.Tuple) and not st.orelse and all(
                    isinstance(x, ast.Name) for x in st.target.elts) and \
                    isinstance(st.iter, (ast.Attribute, ast.Name)):
                ok_name = all(a.attr == a.attr.upper() for a in ast.walk(st.iter)
                              if isinstance(a, ast.Attribute)) and all(
                    a.id == a.id.upper() or a.id in ("self", "cls") or a.id in self.p.classes
                    for a in ast.walk(st.iter) if isinstance(a, ast.Name))
                tab = self.p.static_value(st.iter, self.cls, self.f.module, None) \
                    if ok_name else UNKNOWN
                if isinstance(tab, tuple) and 0 < len(tab) <= 16 and all(
                        isinstance(r, tuple) and len(r) == len(st.target.elts) and all(
                            isinstance(c_, _HASHABLE_CONST) for c_ in r) for r in tab):
                    names_ = [x.id for x in st.target.elts]
                    outs = [self.expr(st.iter)]
                    saved = {k: self.env.get(k, UNKNOWN) for k in names_}
                    for row in tab:
                        for k, v in zip(names_, row):
                            self.env[k] = v
                        outs.append(self.block(st.body))
                    for k, sv in saved.items():
                        if sv is UNKNOWN:
                            self.env.pop(k, None)
                        else:
                            self.env[k] = sv
                    return seq(outs)
            # for step in (self.a, self.b): step(...)  - unrolled with the
            # loop variable standing for each bound method in turn
            if isinstance(st.iter, (ast.Tuple, ast.List)) and st.iter.elts and \
                    isinstance(st.target, ast.Name) and not st.orelse and \
                    len(st.iter.elts) <= 8 and self.cls is not None and all(
                        isinstance(x, ast.Attribute) and self.is_self(x.value) and
                        self.p.lookup(self.cls, x.attr) is not None
                        for x in st.iter.elts):
                if not hasattr(self, "fnalias"):
                    self.fnalias = {}
                saved_fa = self.fnalias.get(st.target.id)
                outs = []
                for x in st.iter.elts:
                    self.fnalias[st.target.id] = x.attr
                    outs.append(self.block(st.body))
                if saved_fa is None:
                    self.fnalias.pop(st.target.id, None)
                else:
                    self.fnalias[st.target.id] = saved_fa
                return seq(outs)
            # for i, name in enumerate(<table>): the same with the position
            if isinstance(st.iter, ast.Call) and isinstance(st.iter.func, ast.Name) and \
                    st.iter.func.id == "enumerate" and len(st.iter.args) == 1 and \
                    not st.iter.keywords and isinstance(st.target, ast.Tuple) and \
                    len(st.target.elts) == 2 and not st.orelse and \
                    all(isinstance(x, ast.Name) for x in st.target.elts):
                vals = self.const_str_seq(st.iter.args[0])
                if vals is not None and len(vals) <= 16:
                    ti, tn = st.target.elts[0].id, st.target.elts[1].id
                    outs = [self.expr(st.iter.args[0])]
                    saved = {k: self.env.get(k, UNKNOWN) for k in (ti, tn)}
                    for k_, v in enumerate(vals):
                        self.env[ti], self.env[tn] = k_, v
                        outs.append(self.block(st.body))
                    for k, sv in saved.items():
                        if sv is UNKNOWN:
                            self.env.pop(k, None)
                        else:
                            self.env[k] = sv
                    return seq(outs)
            it = self.expr(st.iter)
            self.bind_loop_target(st.target, st.iter)
            self.forget(assigned_names(st.body) | assigned_names([st.target]))
            body = self.block(st.body)
            self.forget(assigned_names(st.body))
            orelse = self.block(st.orelse)
            return seq([it, ("loop", body), orelse])
        if isinstance(st, ast.While):
            self.forget(assigned_names(st.body))
            c = self.expr(st.test)
            body = self.block(st.body)
            self.forget(assigned_names(st.body))
            return seq([c, ("loop", seq([body, c])), self.block(st.orelse)])
        if isinstance(st, (ast.With, ast.AsyncWith)):
            outs = []
            for item in st.items:
                outs.append(self.expr(item.context_expr))
                if item.optional_vars is not None:
                    outs.append(self.store(item.optional_vars, item.context_expr, st))
            outs.append(self.block(st.body))
            return seq(outs)
        if isinstance(st, ast.Try):
            body = self.block(st.body)
            # a raise inside the body may be caught: make the body's raising
            # paths continue into the handlers
            body = _catch(body)
            handlers = [self.block(h.body) for h in st.handlers]
            orelse = self.block(st.orelse)
            fin = self.block(st.finalbody)
            return seq([body, alt([orelse] + handlers) if handlers else orelse, fin])
        if isinstance(st, ast.Delete):
            outs = []
            for t in st.targets:
                outs.append(self.delete(t, st))
            return seq(outs)
        if isinstance(st, ast.FunctionDef):
            # local closure: analysed where it is defined, as "may execute"
            sub = _Builder(self.p, FuncInfo(st.name, st, self.f.module, self.f.cls,
                                            "closure", parent=self.f),
                           self.cls, self.env, self.reinit)
            sub.selfname = self.selfname
            sub.f = self.f      # events are attributed to the enclosing function
            sub.aliases = dict(self.aliases)
            sub.objalias = dict(self.objalias)
            body = sub.block(st.body)
            body = _strip_term(body)
            return alt([body, EMPTY])
        if isinstance(st, (ast.Pass, ast.Break, ast.Continue, ast.Import,
                           ast.ImportFrom, ast.Global, ast.Nonlocal)):
            return EMPTY
        if isinstance(st, ast.ClassDef):
            return EMPTY
        if isinstance(st, ast.Match):
            c = self.expr(st.subject)
            return seq([c, alt([self.block(cs.body) for cs in st.cases] + [EMPTY])])
        raise AnalysisError(
            f"{self.f.module.relpath}:{st.lineno} unsupported statement "
            f"{type(st).__name__}")

    def forget(self, names):
        for n in names:
            self.env.pop(n, None)

    def bind_loop_target(self, target, it):
        # `for e in self.graph.es` binds e as an alias of graph.es
        sc = self.self_cell(it)
        if sc and isinstance(target, ast.Name):
            cell, rest = sc
            if not rest and cell in ("graph.es", "graph.vs"):
                self.aliases[target.id] = cell
                return
        if isinstance(target, ast.Name):
            self.aliases.pop(target.id, None)
            self.objalias.pop(target.id, None)

    # -- stores
    def store(self, target, value, st):
        if isinstance(target, (ast.Tuple, ast.List)):
            outs = []
            vals = value.elts if isinstance(value, (ast.Tuple, ast.List)) and \
                len(value.elts) == len(target.elts) else [None] * len(target.elts)
            for t, v in zip(target.elts, vals):
                outs.append(self.store(t, v, st))
            return seq(outs)
        if isinstance(target, ast.Starred):
            return self.store(target.value, None, st)
        if isinstance(target, ast.Name):
            # local aliasing of cells
            self.aliases.pop(target.id, None)
            self.objalias.pop(target.id, None)
            if not hasattr(self, "fnalias"):
                self.fnalias = {}
            self.fnalias.pop(target.id, None)
            if isinstance(value, ast.Attribute) and self.is_self(value.value) and \
                    self.cls is not None and \
                    self.p.lookup(self.cls, value.attr) is not None:
                self.fnalias[target.id] = value.attr
            c = const_of(value, self.env, self) if value is not None else UNKNOWN
            if c is UNKNOWN and isinstance(value, ast.Call):
                c = self.const_call(value)
            if c is not UNKNOWN and isinstance(c, _HASHABLE_CONST):
                self.env[target.id] = c
            else:
                self.env.pop(target.id, None)
            if value is not None:
                src = self.alias_source(value)
                if src:
                    self.aliases[target.id] = src
                sc = self.self_cell(value)
                if sc and not sc[1]:
                    self.objalias[target.id] = sc[0]
            return EMPTY
        if isinstance(target, ast.Attribute):
            if self.is_self(target.value):
                attr = target.attr
                # property with setter?
                if self.cls is not None:
                    pr = self.p.lookup_prop(self.cls, attr)
                    if pr is not None and "set" in pr:
                        return self.inline_call(pr["set"], self.cls, st,
                                                [value] if value is not None else [],
                                                [], via="prop-set")
                cell = self.cellname(attr)
                c = const_of(value, self.env, self) if value is not None else UNKNOWN
                if c is not UNKNOWN:
                    return self.ev("assign", cell, st, const=c)
                # self.k = self.k + c  /  c + self.k  is the spelled-out bump
                if isinstance(value, ast.BinOp) and isinstance(value.op, ast.Add):
                    for a, b in ((value.left, value.right), (value.right, value.left)):
                        same = isinstance(a, ast.Attribute) and self.is_self(a.value) \
                            and a.attr == attr
                        # ... or a local that was just read from the counter
                        if not same and isinstance(a, ast.Name) and \
                                (self.aliases.get(a.id) == cell or
                                 self.objalias.get(a.id) == cell):
                            same = True
                        if same:
                            k = const_of(b, self.env, self)
                            if isinstance(k, (int, float)) and \
                                    not isinstance(k, bool) and k > 0:
                                return self.ev("bump", cell, st, amount=k)
                info = {}
                if value is not None:
                    info["value"] = value
                    if isinstance(value, ast.Call):
                        r = self.callee_class(value.func)
                        if r is not None:
                            info["new_object"] = r.name
                return self.ev("write", cell, st, how="rebind", **info)
            sc = self.self_cell(target)
            if sc:
                cell, rest = sc
                if rest and rest == ["silence_level"]:
                    return EMPTY
                if not rest:
                    # self.graph.es = ... (rebinding container member)
                    return self.ev("write", cell, st, how="rebind")
                return self.ev("write", cell, st, how="attr-store")
            # obj.attr = v where obj is a local alias of a cell
            if isinstance(target.value, ast.Name) and target.value.id in self.aliases:
                if target.attr == "silence_level":
                    return EMPTY
                return self.ev("write", self.aliases[target.value.id], st,
                               how="attr-store")
            return self.expr(target.value)
        if isinstance(target, ast.Subscript):
            outs = [self.expr(target.slice)]
            base = target.value
            cell = self.base_cell(base)
            if cell:
                outs.append(self.ev("write", cell, st, how="item-store"))
            else:
                outs.append(self.expr(base))
            return seq(outs)
        return EMPTY

    def base_cell(self, base):
        """Cell whose storage `base` (an expression used as the base of an
        in-place operation) may alias."""
        while True:
            if isinstance(base, ast.Subscript):
                # basic slicing keeps aliasing; fancy does not, but for a store
                # target x[a][b] = v the outer store goes to a temp copy only if
                # x[a] is fancy; stay conservative: keep alias
                base = base.value
                continue
            if isinstance(base, ast.Attribute) and base.attr in (
                    "T", "flat", "real", "imag", "data"):
                base = base.value
                continue
            break
        sc = self.self_cell(base)
        if sc:
            return sc[0]
        if isinstance(base, ast.Name) and base.id in self.aliases:
            return self.aliases[base.id]
        return None

    def alias_source(self, value):
        """Cell that a local would alias after `name = value`."""
        v = value
        while True:
            if isinstance(v, ast.Attribute) and v.attr in ("T", "flat", "real", "imag"):
                v = v.value
                continue
            if isinstance(v, ast.Subscript) and _basic_slice(v.slice):
                v = v.value
                continue
            if isinstance(v, ast.Call) and isinstance(v.func, ast.Attribute) and \
                    v.func.attr in ("reshape", "view", "ravel", "squeeze",
                                    "swapaxes", "transpose"):
                v = v.func.value
                continue
            break
        sc = self.self_cell(v)
        if sc and not sc[1]:
            cell = sc[0]
            # a property getter that returns the cell itself
            if self.cls is not None:
                pr = self.p.lookup_prop(self.cls, cell)
                if pr is not None and "get" in pr:
                    rc = _returned_cell(pr["get"])
                    if rc:
                        return mangle(pr["get"].cls.name, rc)
                    return None
            return cell
        if isinstance(v, ast.Name) and v.id in self.aliases:
            return self.aliases[v.id]
        return None

    def augstore(self, st):
        target = st.target
        if isinstance(target, ast.Attribute) and self.is_self(target.value):
            cell = self.cellname(target.attr)
            c = const_of(st.value, self.env, self)
            if isinstance(st.op, ast.Add) and isinstance(c, (int, float)) \
                    and not isinstance(c, bool) and c > 0:
                return self.ev("bump", cell, st, amount=c)
            pr = self.p.lookup_prop(self.cls, target.attr) if self.cls else None
            if pr is not None and "set" in pr:
                g = self.inline_call(pr["get"], self.cls, st, [], [], via="prop-get") \
                    if "get" in pr else EMPTY
                s = self.inline_call(pr["set"], self.cls, st, [None], [], via="prop-set")
                return seq([g, s])
            return seq([self.ev("read", cell, st),
                        self.ev("write", cell, st, how="augassign")])
        if isinstance(target, ast.Name):
            if target.id in self.aliases:
                return self.ev("write", self.aliases[target.id], st, how="augassign")
            self.env.pop(target.id, None)
            return EMPTY
        if isinstance(target, ast.Subscript):
            outs = [self.expr(target.slice)]
            cell = self.base_cell(target.value)
            if cell:
                outs += [self.ev("read", cell, st),
                         self.ev("write", cell, st, how="item-augassign")]
            else:
                outs.append(self.expr(target.value))
            return seq(outs)
        if isinstance(target, ast.Attribute):
            sc = self.self_cell(target)
            if sc:
                return seq([self.ev("read", sc[0], st),
                            self.ev("write", sc[0], st, how="attr-augassign")])
        return EMPTY

    def delete(self, t, st):
        if isinstance(t, ast.Attribute) and self.is_self(t.value):
            return self.ev("write", self.cellname(t.attr), st, how="del")
        if isinstance(t, ast.Subscript):
            cell = self.base_cell(t.value)
            if cell:
                return seq([self.expr(t.slice),
                            self.ev("write", cell, st, how="del-item")])
        if isinstance(t, ast.Name):
            self.aliases.pop(t.id, None)
            self.objalias.pop(t.id, None)
        return EMPTY

    # -- expressions
    def expr(self, e):
        if e is None:
            return EMPTY
        m = getattr(self, "e_" + type(e).__name__, None)
        if m is not None:
            return m(e)
        outs = []
        for ch in ast.iter_child_nodes(e):
            if isinstance(ch, ast.expr):
                outs.append(self.expr(ch))
            elif isinstance(ch, ast.comprehension):
                outs.append(self.expr(ch.iter))
                for c in ch.ifs:
                    outs.append(self.expr(c))
            elif isinstance(ch, ast.keyword):
                outs.append(self.expr(ch.value))
        return seq(outs)

    def e_Constant(self, e):
        return EMPTY

    def e_Name(self, e):
        return EMPTY

    def e_Lambda(self, e):
        body = self.expr(e.body)
        return alt([body, EMPTY])

    def e_IfExp(self, e):
        c = self.expr(e.test)
        tv = self.truth(e.test)
        if tv is True:
            return seq([c, self.expr(e.body)])
        if tv is False:
            return seq([c, self.expr(e.orelse)])
        return seq([c, alt([self.expr(e.body), self.expr(e.orelse)])])

    def e_BoolOp(self, e):
        outs = [self.expr(e.values[0])]
        for v in e.values[1:]:
            outs.append(alt([self.expr(v), EMPTY]))
        return seq(outs)

    def comp(self, e, elts):
        outs = []
        for g in e.generators:
            outs.append(self.expr(g.iter))
            self.bind_loop_target(g.target, g.iter)
        inner = [self.expr(c) for g in e.generators for c in g.ifs]
        inner += [self.expr(x) for x in elts]
        outs.append(("loop", seq(inner)))
        return seq(outs)

    def e_ListComp(self, e):
        return self.comp(e, [e.elt])

    e_SetComp = e_GeneratorExp = e_ListComp

    def e_DictComp(self, e):
        return self.comp(e, [e.key, e.value])

    def e_Attribute(self, e):
        chain = []
        cur = e
        while isinstance(cur, ast.Attribute):
            chain.append(cur.attr)
            cur = cur.value
        chain.reverse()
        if self.is_self(cur):
            a0 = chain[0]
            if self.cls is not None:
                pr = self.p.lookup_prop(self.cls, a0)
                if pr is not None and "get" in pr:
                    return self.inline_call(pr["get"], self.cls, e, [], [],
                                            via="prop-get")
                m = self.p.lookup(self.cls, a0)
                if m is not None:
                    # reference to a bound method (not a call)
                    return self.ev("methodref", a0, e, chain=chain[1:])
            cell = self.cellname(a0)
            if cell in CONTAINER_CELLS and len(chain) >= 2 and \
                    chain[1] in CONTAINER_CELLS[cell]:
                # `self.graph.es` as such (iteration, len) only depends on the
                # structure; attribute *values* are read by subscripting it or
                # by calling its methods (handled in e_Subscript / e_Call)
                if len(chain) == 2:
                    return self.ev("read", cell.split(".")[0], e)
                cell = f"{cell}.{chain[1]}"
            return self.ev("read", cell, e)
        if isinstance(cur, ast.Name) and cur.id in self.aliases:
            cell = self.aliases[cur.id]
            if cell == "graph.es" and chain[0] in ("tuple", "source", "target",
                                                   "index"):
                return self.ev("read", "graph", e)
            return self.ev("read", cell, e)
        return self.expr(e.value)

    def e_Subscript(self, e):
        outs = [self.expr(e.slice)]
        sc = self.self_cell(e.value)
        if isinstance(e.value, ast.Name) and e.value.id in self.aliases:
            outs.append(self.ev("read", self.aliases[e.value.id], e))
        elif sc and not sc[1] and sc[0] in ("graph.es", "graph.vs"):
            outs.append(self.ev("read", "graph", e))
            outs.append(self.ev("read", sc[0], e))
        else:
            outs.append(self.expr(e.value))
        return seq(outs)

    # -- calls
    def callee_class(self, fn) -> Optional[ClassInfo]:
        if isinstance(fn, ast.Name):
            if fn.id in self.classvars:
                return self.classvars[fn.id]
            r = self.p.resolve_name(self.f.module, fn.id)
            if r and r[0] == "class":
                return r[1]
            if fn.id == "cls" and self.f.kind == "class":
                return self.f.cls
        return None

    def args_events(self, call):
        outs = [self.expr(a) for a in call.args]
        outs += [self.expr(k.value) for k in call.keywords]
        return outs

    def e_Call(self, e):
        fn = e.func
        # a local bound to a bound method of self (`step = self.update_R`, or the
        # variable of `for step in (self.a, self.b):`) is called as that method
        if isinstance(fn, ast.Name) and fn.id in getattr(self, "fnalias", {}):
            sn_ = self.f.params[0] if self.f.params else "self"
            e = ast.copy_location(ast.Call(
                func=ast.copy_location(ast.Attribute(
                    value=ast.copy_location(ast.Name(id=sn_, ctx=ast.Load()), fn),
                    attr=self.fnalias[fn.id], ctx=ast.Load()), fn),
                args=e.args, keywords=e.keywords), e)
            fn = e.func
        # hasattr/getattr on self
        if isinstance(fn, ast.Name) and fn.id == "getattr" and e.args:
            return self.getattr_call(e, None)
        if isinstance(fn, ast.Call) and isinstance(fn.func, ast.Name) and \
                fn.func.id == "getattr":
            return self.getattr_call(fn, e)
        if isinstance(fn, ast.Name) and fn.id == "setattr" and len(e.args) == 3 and \
                self.is_self(e.args[0]):
            # setattr(self, "<k>", v) with a constant (or constant-specialised) name
            # is the assignment self.<k> = v
            nm = const_of(e.args[1], self.env, self)
            if isinstance(nm, str):
                target = ast.copy_location(ast.Attribute(
                    value=e.args[0], attr=nm, ctx=ast.Store()), e)
                v = e.args[2]
                # getattr(self, "<k>"[, d]) inside the value reads the same attribute
                v2 = _GetattrToAttr(self, nm).visit(copy.deepcopy(v))
                ast.fix_missing_locations(v2)
                pseudo = ast.copy_location(ast.Assign(targets=[target], value=v2), e)
                return seq([self.expr(v), self.store(target, v2, pseudo)])
            # name not known in this (unspecialised) context: the specialised
            # call sites carry the effect; here it is an opaque expression
            return seq([self.expr(a) for a in e.args])
        if isinstance(fn, ast.Name) and fn.id in ("hasattr", "isinstance", "len",
                                                  "print", "str", "repr", "float",
                                                  "int", "range", "list", "tuple",
                                                  "sum", "min", "max", "abs", "zip",
                                                  "enumerate", "sorted", "map",
                                                  "all", "any", "type", "id", "bool"):
            return seq(self.args_events(e))
        argev = self.args_events(e)
        # in-place library functions applied to a cell: np.fill_diagonal(self.x, ..)
        if isinstance(fn, ast.Attribute):
            modname = ast.unparse(fn.value)
            if (modname, fn.attr) in INPLACE_FUNCS and e.args:
                cell = self.base_cell(e.args[0]) or self.alias_source(e.args[0])
                if cell:
                    return seq(argev + [self.ev("write", cell, e,
                                                how=f"{modname}.{fn.attr}")])
            for kw in e.keywords:
                if kw.arg == "out":
                    cell = self.base_cell(kw.value) or self.alias_source(kw.value)
                    if cell:
                        argev.append(self.ev("write", cell, e, how="out="))
        if isinstance(fn, ast.Name) and fn.id == "shuffle" and e.args:
            cell = self.base_cell(e.args[0]) or self.alias_source(e.args[0])
            if cell:
                return seq(argev + [self.ev("write", cell, e, how="shuffle")])

        # self.m(...)
        if isinstance(fn, ast.Attribute) and self.is_self(fn.value):
            name = fn.attr
            if self.cls is not None:
                target = self.p.lookup(self.cls, name)
                if target is not None:
                    if target.kind == "static":
                        return seq(argev + [self.static_call(target, e)])
                    return seq(argev + [self.inline_call(
                        target, self.cls, e, e.args, e.keywords, via="self")])
                pr = self.p.lookup_prop(self.cls, name)
                if pr is not None and "get" in pr:
                    # calling the value of a property
                    return seq(argev + [self.inline_call(pr["get"], self.cls, e, [],
                                                         [], via="prop-get")])
            # unknown attribute called on self: e.g. a callable stored in a cell
            return seq(argev + [self.ev("read", self.cellname(name), e),
                                self.ev("extcall", self.cellname(name), e)])
        # self.x.method(...)  (objects held in cells, arrays, graph)
        if isinstance(fn, ast.Attribute):
            sc = self.self_cell(fn.value)
            alias_cell = None
            if sc is None and isinstance(fn.value, ast.Name):
                if fn.value.id in self.aliases:
                    alias_cell = self.aliases[fn.value.id]
                elif fn.value.id in self.objalias:
                    alias_cell = self.objalias[fn.value.id]
            if sc is not None or alias_cell is not None:
                if sc is not None:
                    cell, rest = sc
                    base_read = self.expr(fn.value)
                else:
                    cell, rest = alias_cell, []
                    base_read = self.ev("read", cell, e)
                meth = fn.attr
                outs = argev + [base_read]
                if cell == "graph" and not rest:
                    outs += self.graph_call(meth, e)
                elif cell in ("graph.es", "graph.vs") and not rest:
                    if meth in SEQ_ATTR_MUT:
                        outs.append(self.ev("write", cell, e, how=meth))
                    else:
                        outs.append(self.ev("read", cell, e))
                elif not rest:
                    if meth in INPLACE_METHODS:
                        outs.append(self.ev("write", cell, e, how="." + meth))
                    outs.append(self.ev("objcall", cell, e, method=meth,
                                        call=e))
                else:
                    outs.append(self.ev("objcall", cell, e, method=meth,
                                        path=rest, call=e))
                return seq(outs)
        # Base.m(self, ...) / Class.static(...) / Class(...)
        if isinstance(fn, ast.Attribute) and isinstance(fn.value, ast.Name):
            ci = self.callee_class(fn.value)
            if ci is not None:
                target = self.p.lookup(ci, fn.attr)
                if target is not None:
                    if target.kind in ("static", "class"):
                        # static/class call that is handed `self` explicitly
                        return seq(argev + [self.static_call(target, e)])
                    if e.args and self.is_self(e.args[0]) and self.cls is not None:
                        return seq(argev + [self.inline_call(
                            target, self.cls, e, e.args[1:], e.keywords,
                            via="base")])
                    return seq(argev)
        ci = self.callee_class(fn)
        if ci is not None:
            return seq(argev + [self.ev("extcall", "", e, new_object=ci.name)])
        # module-level function of the package
        if isinstance(fn, ast.Name):
            r = self.p.resolve_name(self.f.module, fn.id)
            if r and r[0] == "kernel":
                return seq(argev + [self.ev("kernel", "", e, module=r[1],
                                            name=r[2], call=e)])
        # a local callable (closure / parameter): may run a lambda that was
        # analysed at its definition
        return seq([self.expr(fn)] + argev)

    def graph_call(self, meth, e):
        outs = []
        if meth == "simplify" and self.p.simplify_is_idempotent():
            # every rebinding of `self.graph` is immediately followed by
            # `.simplify()`, so the graph held in the cell is always simple and
            # a further simplify() leaves structure and attributes unchanged
            return [self.ev("read", "graph", e)]
        if meth in GRAPH_STRUCT_MUT:
            outs.append(self.ev("write", "graph", e, how="." + meth))
            outs.append(self.ev("write", "graph.es", e, how="." + meth))
            return outs
        outs.append(self.ev("read", "graph", e))
        reads_es = meth in GRAPH_READS_ALL
        for kw in e.keywords:
            if kw.arg in GRAPH_WEIGHT_KW:
                c = const_of(kw.value, self.env, self)
                if c is not None:
                    reads_es = True
        if reads_es:
            outs.append(self.ev("read", "graph.es", e))
            if meth in GRAPH_READS_ALL:
                outs.append(self.ev("read", "graph.vs", e))
        return outs

    def static_call(self, target: FuncInfo, e):
        # static functions have no self; but `self` may be passed explicitly
        # (e.g. Class.static(self, ..)) - not used in this code base.
        return ("call", CallInfo(target, None, e, self.f, via="static"), EMPTY)

    def getattr_call(self, g, outer):
        """getattr(X, name)(args) dispatch by name."""
        obj = g.args[0]
        nm = g.args[1] if len(g.args) > 1 else None
        argev = []
        if outer is not None:
            argev = self.args_events(outer)
        names = None
        if nm is not None:
            c = const_of(nm, self.env, self)
            if isinstance(c, str):
                names = [c]
            elif isinstance(nm, ast.JoinedStr):
                pat = ""
                for v in nm.values:
                    if isinstance(v, ast.Constant):
                        pat += re.escape(str(v.value))
                    else:
                        cv = const_of(v.value, self.env, self) if isinstance(
                            v, ast.FormattedValue) else UNKNOWN
                        pat += re.escape(cv) if isinstance(cv, str) else r"\w+"
                names = ("re", re.compile("^" + pat + "$"))
        target_cls = None
        via_self = False
        if self.is_self(obj):
            target_cls, via_self = self.cls, True
        else:
            target_cls = self.callee_class(obj)
        if target_cls is None:
            # getattr on a foreign object (netCDF handle, ...): plain expression
            return seq([self.expr(a) for a in g.args] + argev)
        if outer is None:
            # bare getattr(self, "x", default): a read
            if isinstance(names, list):
                return self.ev("read", self.cellname(names[0]), g,
                               getattr_default=len(g.args) > 2)
            if self.f.name.startswith("_") and not self.f.name.startswith("__"):
                # private helper analysed without its call-site constants: the
                # specialised call sites carry the read; opaque here
                return seq([self.expr(a) for a in g.args])
            # an attribute name computed at run time (a table of property
            # names): a read of *some* cell; a cached method must not do that
            # (rules_c01 answers "no verdict" then), everything else ignores it
            return seq([self.expr(a) for a in g.args] +
                       [self.ev("dynread", "?", g, name=ast.unparse(nm) if nm else "?")])
        if names is None:
            raise AnalysisError(
                f"{self.f.module.relpath}:{g.lineno} unresolved dynamic "
                f"dispatch getattr({ast.unparse(obj)}, {ast.unparse(nm) if nm else '?'}) "
                f"in {self.f.qualname} (env={self.env})")
        allm = self.p.all_methods(target_cls)
        if isinstance(names, list):
            cands = [allm[n] for n in names if n in allm]
        else:
            cands = [f for n, f in sorted(allm.items()) if names[1].match(n)]
        if not cands:
            raise AnalysisError(
                f"{self.f.module.relpath}:{g.lineno} dynamic dispatch in "
                f"{self.f.qualname} matches no method of {target_cls.name}")
        branches = []
        for t in cands:
            if t.kind in ("static", "class"):
                branches.append(self.static_call(t, outer))
                continue
            if via_self:
                branches.append(self.inline_call(t, self.cls, outer, outer.args,
                                                 outer.keywords, via="dyn"))
            elif outer.args and self.is_self(outer.args[0]) and self.cls is not None:
                branches.append(self.inline_call(t, self.cls, outer, outer.args[1:],
                                                 outer.keywords, via="dyn"))
            else:
                branches.append(self.static_call(t, outer))
        return seq(argev + [alt(branches)])

    def call_env(self, target: FuncInfo, args, keywords):
        """Constant environment of the callee from the call site."""
        params = target.params
        if target.kind in ("method", "getter", "setter") and params:
            params = params[1:]
        env = {}
        bound = set()
        starred = any(isinstance(a, ast.Starred) for a in args if a is not None)
        if not starred:
            for p, a in zip(params, args):
                bound.add(p)
                if a is None:
                    continue
                c = const_of(a, self.env, self)
                if c is not UNKNOWN and isinstance(c, _HASHABLE_CONST):
                    env[p] = c
        else:
            bound.update(params)
        has_kwsplat = False
        for kw in keywords:
            if kw.arg is None:
                has_kwsplat = True
                continue
            bound.add(kw.arg)
            c = const_of(kw.value, self.env, self)
            if c is not UNKNOWN and isinstance(c, _HASHABLE_CONST):
                env[kw.arg] = c
        if not has_kwsplat:
            for p, d in target.defaults().items():
                if p not in bound:
                    c = const_of(d, {})
                    if c is not UNKNOWN and isinstance(c, _HASHABLE_CONST):
                        env[p] = c
        return env

    def inline_call(self, target: FuncInfo, cls, node, args, keywords, via):
        env = self.call_env(target, args, keywords)
        sub = self.p.tree(target, cls, env, self.reinit)
        return ("call", CallInfo(target, cls, node, self.f, via=via), sub)


def assigned_names(stmts) -> set:
    out = set()
    for st in stmts:
        for n in ast.walk(st):
            if isinstance(n, ast.Name) and isinstance(n.ctx, (ast.Store, ast.Del)):
                out.add(n.id)
            elif isinstance(n, ast.AugAssign) and isinstance(n.target, ast.Name):
                out.add(n.target.id)
    return out


def _basic_slice(s) -> bool:
    if isinstance(s, ast.Slice):
        return True
    if isinstance(s, ast.Constant) and (isinstance(s.value, int) or s.value is Ellipsis):
        return True
    if isinstance(s, ast.Tuple):
        return all(_basic_slice(x) or (isinstance(x, ast.Constant) and x.value is None)
                   for x in s.elts)
    if isinstance(s, ast.UnaryOp) and isinstance(s.operand, ast.Constant):
        return True
    return False


def _returned_cell(getter: FuncInfo) -> Optional[str]:
    """If every return of the getter is `self.<x>`, return x."""
    cells = set()
    selfname = getter.params[0] if getter.params else None
    for n in ast.walk(getter.node):
        if isinstance(n, ast.Return):
            v = n.value
            if isinstance(v, ast.Attribute) and isinstance(v.value, ast.Name) \
                    and v.value.id == selfname:
                cells.add(v.attr)
            else:
                return None
    return cells.pop() if len(cells) == 1 else None


def _catch(t):
    """Raising paths inside a try body continue (into the handlers)."""
    k = t[0]
    if k == "raise":
        return EMPTY
    if k == "seq":
        return ("seq", [_catch(c) for c in t[1]])
    if k == "alt":
        return ("alt", [_catch(c) for c in t[1]])
    if k == "loop":
        return ("loop", _catch(t[1]))
    return t


def _strip_term(t):
    k = t[0]
    if k in ("ret", "raise"):
        return EMPTY
    if k == "seq":
        return ("seq", [_strip_term(c) for c in t[1]])
    if k == "alt":
        return ("alt", [_strip_term(c) for c in t[1]])
    if k == "loop":
        return ("loop", _strip_term(t[1]))
    return t
