"""C10 - similarity/coupling estimates: applicability clauses A1..A4.
(Also provides the option-flow rule used by C16.)"""
from __future__ import annotations

import ast

from .pymodel import Program
from .cymodel import CyProgram, X, pp, walk
from .kernels import report_sites, local_buffer_decls
from .loopir import py_stmts
from .report import Run, AnalysisError

C10_FILES = ("funcnet/", "climate/", "timeseries/surrogates.py")


def a2_float_index(run: Run, prog: Program, rule="A2", files=C10_FILES):
    n = 0
    for f in prog.functions():
        if not any(p in f.module.relpath for p in files):
            continue
        for node in ast.walk(f.node):
            if not isinstance(node, ast.Subscript):
                continue
            dims = node.slice.elts if isinstance(node.slice, ast.Tuple) else [node.slice]
            if len(dims) < 2 and not any(isinstance(d, ast.Constant) for d in dims):
                continue
            n += 1
            bad = [d for d in dims if isinstance(d, ast.Constant)
                   and isinstance(d.value, float)]
            # dict lookups with float keys are legitimate: only flag when the
            # subscript also contains array-style indices
            arrayish = len(dims) > 1
            ok = not (bad and arrayish)
            run.oblige(rule, f"{f.qualname}@{node.lineno}:{ast.unparse(node)[:40]}", ok,
                       nontrivial=bool(bad) or len(dims) > 2)
            if not ok:
                run.add(rule, f"{f.qualname}/float-index/{ast.unparse(node.value)}",
                        f"{f.module.relpath}:{node.lineno}",
                        f"{f.qualname}: `{ast.unparse(node)[:70]}` indexes an array with "
                        f"the float constant {bad[0].value!r}: numpy raises IndexError "
                        f"on every execution of this branch")
    run.floor(f"{rule} multi-index subscripts", n, 50)


def validated_params(f):
    """{param: accepted literal list} from `if p not in [..]: raise` statements."""
    out = {}
    for st in ast.walk(f.node):
        if isinstance(st, ast.If) and isinstance(st.test, ast.Compare) and \
                len(st.test.ops) == 1 and isinstance(st.test.ops[0], ast.NotIn) and \
                isinstance(st.test.left, ast.Name) and \
                isinstance(st.test.comparators[0], (ast.List, ast.Tuple)) and \
                any(isinstance(s, ast.Raise) for s in st.body):
            vals = st.test.comparators[0].elts
            if all(isinstance(v, ast.Constant) for v in vals) and \
                    st.test.left.id in f.params:
                # the outermost (unconditional) validation wins
                out.setdefault(st.test.left.id, [v.value for v in vals])
    return out


def a3_option_flow(run: Run, prog: Program, rule="A3", files=None):
    """Literal option values flowing into validated parameters."""
    n = 0
    val = {}
    for f in prog.functions():
        v = validated_params(f)
        # only validations that are not nested under a condition on another param
        top = {}
        for st in f.node.body:
            if isinstance(st, ast.If) and isinstance(st.test, ast.Compare) and \
                    isinstance(st.test.ops[0], ast.NotIn) and \
                    isinstance(st.test.left, ast.Name) and st.test.left.id in v:
                top[st.test.left.id] = v[st.test.left.id]
        if top:
            val[f] = top
    by_name = {}
    for f in val:
        by_name.setdefault(f.name, []).append(f)

    def possible_values(expr, conds):
        if isinstance(expr, ast.Constant) and isinstance(expr.value, str):
            return [expr.value]
        src = ast.unparse(expr)
        for c in reversed(conds):
            if isinstance(c, ast.Compare) and len(c.ops) == 1 and \
                    isinstance(c.ops[0], ast.In) and ast.unparse(c.left) == src and \
                    isinstance(c.comparators[0], (ast.List, ast.Tuple)) and \
                    all(isinstance(v, ast.Constant) for v in c.comparators[0].elts):
                return [v.value for v in c.comparators[0].elts]
        return None

    for f in prog.functions():
        if files and not any(p in f.module.relpath for p in files):
            continue

        def go(stmts, conds):
            nonlocal n
            for st in stmts:
                if isinstance(st, ast.If):
                    go(st.body, conds + [st.test])
                    go(st.orelse, conds)
                    continue
                for fld in ("body", "orelse", "finalbody"):
                    sub = getattr(st, fld, None)
                    if isinstance(sub, list) and sub and isinstance(sub[0], ast.stmt) \
                            and not isinstance(st, ast.If):
                        go(sub, conds)
                for call in [c for c in ast.walk(st) if isinstance(c, ast.Call)]:
                    fn = call.func
                    if not isinstance(fn, ast.Attribute):
                        continue
                    targets = by_name.get(fn.attr, [])
                    if not targets:
                        continue
                    # resolve through the receiver's class when it is self
                    tg = None
                    if isinstance(fn.value, ast.Name) and f.params and \
                            fn.value.id == f.params[0] and f.cls is not None:
                        m = prog.lookup(f.cls, fn.attr)
                        if m in val:
                            tg = m
                    elif len(targets) == 1:
                        tg = targets[0]
                    if tg is None:
                        continue
                    for kw in call.keywords:
                        if kw.arg in val[tg]:
                            pv = possible_values(kw.value, conds)
                            if pv is None:
                                continue
                            n += 1
                            bad = [v for v in pv if v not in val[tg][kw.arg]]
                            inst = f"{f.qualname}->{tg.qualname}({kw.arg})@{call.lineno}"
                            run.oblige(rule, inst, not bad, sample={
                                "where": f"{f.module.relpath}:{call.lineno}",
                                "values": pv, "accepted": val[tg][kw.arg]})
                            if bad:
                                run.add(rule, f"{f.qualname}/{tg.qualname}/{kw.arg}/"
                                        + "+".join(map(str, bad)),
                                        f"{f.module.relpath}:{call.lineno}",
                                        f"{f.qualname} passes {kw.arg}={bad} to "
                                        f"{tg.qualname}, which only accepts "
                                        f"{val[tg][kw.arg]} and raises otherwise: this "
                                        f"option combination can never work")
        go(f.node.body, [])
    return n


def a4_absmax(run: Run, cy: CyProgram, prog: Program):
    """Running absolute maximum: `if abs(v) > abs(M): M = v` (signed store) or
    `if abs(v) > M: M = abs(v)` (unsigned store) - never a mixture."""
    n = 0

    def scan(body, where_of, fname):
        nonlocal n
        for s in walk(body):
            if not (isinstance(s, X) and s.k == "if"):
                continue
            for cond, b in s.a[0]:
                if cond.k != "cmp" or cond.a[0] not in (">", ">=", "<", "<="):
                    continue
                l, r = cond.a[1], cond.a[2]
                if cond.a[0] in ("<", "<="):
                    l, r = r, l

                def is_abs(x):
                    return x.k == "call" and pp(x.a[0]) in ("abs", "np.abs", "fabs",
                                                            "numpy.abs") and x.a[1]
                if not is_abs(l):
                    continue
                v = l.a[1][0]
                stores = [st for st in b if st.k == "assign" and len(st.a[0]) == 1
                          and st.a[0][0].k == "name"]
                for st in stores:
                    M = st.a[0][0].a[0]
                    if M not in {x.a[0] for x in walk(r) if isinstance(x, X)
                                 and x.k == "name"}:
                        continue
                    n += 1
                    signed_store = pp(st.a[1]) == pp(v)
                    abs_store = is_abs(st.a[1]) and pp(st.a[1].a[1][0]) == pp(v)
                    cmp_abs = is_abs(r) and pp(r.a[1][0]) == M
                    cmp_plain = r.k == "name" and r.a[0] == M
                    ok = (signed_store and cmp_abs) or (abs_store and cmp_plain) or \
                        not (signed_store or abs_store)
                    run.oblige("A4", f"{fname}:{M}", ok, sample={
                        "where": where_of(s), "test": pp(cond), "store": pp(st)})
                    if not ok:
                        run.add("A4", f"{fname}/absmax/{M}", where_of(s),
                                f"{fname}: running absolute maximum compares "
                                f"`{pp(cond)}` but stores `{pp(st)}`: after a negative "
                                f"value has been stored every later value replaces it, "
                                f"so the result is the last lag instead of the absolute "
                                f"maximum")
    for f in cy.all_funcs():
        if "funcnet" in f.module.name or "climate" in f.module.name:
            scan(f.body, lambda s, f=f: f"{f.module.relpath}:{s.line}", f.name)
    for f in prog.functions():
        if "funcnet/" in f.module.relpath:
            scan(py_stmts(f.node.body), lambda s, f=f: f"{f.module.relpath}:{s.line}",
                 f.qualname)
    run.floor("A4 running-absmax sites", n, 1)


_MUTABLE_MAKERS = ("list", "dict", "set", "np.zeros", "np.ones", "np.empty", "np.array",
                   "np.arange", "np.full", "np.zeros_like", "np.empty_like",
                   "np.ones_like", "numpy.zeros", "numpy.ones", "numpy.empty",
                   "numpy.array", "numpy.arange", "numpy.full")
_INPLACE_METHODS = ("append", "extend", "insert", "sort", "fill", "pop", "remove",
                    "update", "add", "clear", "reverse")


def a6_loop_alias(run: Run, prog: Program, rule="A6", files=C10_FILES):
    """Per-iteration work objects are fresh: inside a loop, `v = w` with `w` a
    list/array built *before* the loop only binds a second name; a following
    in-place change of `v` (`v += ...`, v.append, v[...] = ...) changes `w` for
    every later iteration (the estimator then conditions on / sums over what
    the earlier iterations left behind)."""
    n = 0
    for f in prog.functions():
        if not any(p in f.module.relpath for p in files):
            continue
        loops = [l for l in ast.walk(f.node) if isinstance(l, (ast.For, ast.While))]
        if not loops:
            continue
        # all plain definitions of every local
        defs = {}
        for st in ast.walk(f.node):
            if isinstance(st, ast.Assign):
                for t in st.targets:
                    if isinstance(t, ast.Name):
                        defs.setdefault(t.id, []).append(st)
        for L in loops:
            inside = {id(x) for x in ast.walk(L)}
            for st in ast.walk(L):
                if not (isinstance(st, ast.Assign) and len(st.targets) == 1
                        and isinstance(st.targets[0], ast.Name)
                        and isinstance(st.value, ast.Name)):
                    continue
                v, w = st.targets[0].id, st.value.id
                wdefs = defs.get(w, [])
                if v == w or not wdefs or any(id(d) in inside for d in wdefs):
                    continue
                # the aliased object is mutable: a display / comprehension / maker
                def mutable(e):
                    if isinstance(e, (ast.List, ast.ListComp, ast.Dict, ast.DictComp,
                                      ast.Set, ast.SetComp)):
                        return True
                    return isinstance(e, ast.Call) and \
                        ast.unparse(e.func) in _MUTABLE_MAKERS
                if not all(mutable(d.value) for d in wdefs):
                    continue
                n += 1
                # in-place changes of v after the alias, inside the same loop,
                # before v is rebound
                hits = []
                for x in ast.walk(L):
                    if getattr(x, "lineno", 0) <= st.lineno:
                        continue
                    if isinstance(x, ast.AugAssign) and isinstance(x.target, ast.Name) \
                            and x.target.id == v:
                        hits.append(x)
                    elif isinstance(x, ast.Call) and isinstance(x.func, ast.Attribute) \
                            and isinstance(x.func.value, ast.Name) and \
                            x.func.value.id == v and x.func.attr in _INPLACE_METHODS:
                        hits.append(x)
                    elif isinstance(x, (ast.Assign, ast.AugAssign)):
                        tg = x.targets if isinstance(x, ast.Assign) else [x.target]
                        for t in tg:
                            if isinstance(t, ast.Subscript) and \
                                    isinstance(t.value, ast.Name) and t.value.id == v:
                                hits.append(x)
                # other plain rebinding of v in the loop (v = fresh) between alias
                # and mutation makes the mutation harmless: only count hits with
                # no rebinding of v on lines in between
                rebinds = [d.lineno for d in defs.get(v, []) if id(d) in inside
                           and d is not st]
                hits = [h for h in hits if not any(st.lineno < r <= h.lineno
                                                   for r in rebinds)]
                ok = not hits
                run.oblige(rule, f"{f.qualname}:{v}={w}", ok, sample={
                    "where": f"{f.module.relpath}:{st.lineno}"})
                if not ok:
                    run.add(rule, f"{f.qualname}/loop-alias/{w}",
                            f"{f.module.relpath}:{hits[0].lineno}",
                            f"{f.qualname}: `{v} = {w}` (line {st.lineno}) only aliases the "
                            f"{type(wdefs[0].value).__name__.lower()} built before the loop, "
                            f"and `{ast.unparse(hits[0])[:60]}` then changes it in place: "
                            f"`{w}` keeps growing/changing over the iterations of the loop "
                            f"at line {L.lineno}")
    run.count(rule, n)


def a7_local_memo(run: Run, prog: Program, rule="A7", files=C10_FILES):
    """A local dict used as a memo inside nested loops (`if key not in memo:
    memo[key] = value`) must be keyed on every loop variable its value depends
    on: the dependence is followed through the assignments made inside the
    loops (def-use closure).  A key that leaves one out returns the value of an
    earlier iteration for a different input."""
    n = 0
    for f in prog.functions():
        if not any(p in f.module.relpath for p in files):
            continue
        dicts = {}
        for st in ast.walk(f.node):
            if isinstance(st, ast.Assign) and len(st.targets) == 1 and \
                    isinstance(st.targets[0], ast.Name) and (
                        (isinstance(st.value, ast.Dict) and not st.value.keys) or
                        (isinstance(st.value, ast.Call) and
                         ast.unparse(st.value.func) in ("dict", "{}") and
                         not st.value.args and not st.value.keywords)):
                dicts[st.targets[0].id] = st
        if not dicts:
            continue
        # loops enclosing every node
        parents = {}
        for p_ in ast.walk(f.node):
            for ch in ast.iter_child_nodes(p_):
                parents[id(ch)] = p_

        def enclosing_loops(node):
            out = []
            x = parents.get(id(node))
            while x is not None:
                if isinstance(x, (ast.For, ast.While)):
                    out.append(x)
                x = parents.get(id(x))
            return out
        for test in ast.walk(f.node):
            if not (isinstance(test, ast.If) and isinstance(test.test, ast.Compare) and
                    len(test.test.ops) == 1 and isinstance(test.test.ops[0], ast.NotIn)
                    and isinstance(test.test.comparators[0], ast.Name)
                    and test.test.comparators[0].id in dicts):
                continue
            D = test.test.comparators[0].id
            key = test.test.left
            stores = [s_ for b_ in test.body for s_ in ast.walk(b_)
                      if isinstance(s_, ast.Assign) and
                      isinstance(s_.targets[0], ast.Subscript) and
                      isinstance(s_.targets[0].value, ast.Name) and
                      s_.targets[0].value.id == D and
                      ast.unparse(s_.targets[0].slice) == ast.unparse(key)]
            if not stores:
                continue
            loops = [l for l in enclosing_loops(test)
                     if l.lineno > dicts[D].lineno]       # loops inside the memo's life
            if not loops:
                continue
            loopvars = {x.id for l in loops if isinstance(l, ast.For)
                        for x in ast.walk(l.target) if isinstance(x, ast.Name)}
            # def-use closure of the stored value over assignments inside the loops
            inside = {id(x) for l in loops for x in ast.walk(l)}
            deps = {}
            for st in ast.walk(loops[-1]):
                if isinstance(st, (ast.Assign, ast.AugAssign)) and id(st) in inside:
                    tg = st.targets if isinstance(st, ast.Assign) else [st.target]
                    names_v = {x.id for x in ast.walk(st.value) if isinstance(x, ast.Name)}
                    for t in tg:
                        for x in ast.walk(t):
                            if isinstance(x, ast.Name) and isinstance(x.ctx, ast.Store):
                                deps.setdefault(x.id, set()).update(names_v)
                                if isinstance(st, ast.AugAssign):
                                    deps[x.id].add(x.id)
            # the statements of the if-body itself define the value
            work = [x.id for s_ in stores for x in ast.walk(s_.value)
                    if isinstance(x, ast.Name)]
            closure = set()
            while work:
                v = work.pop()
                if v in closure:
                    continue
                closure.add(v)
                work.extend(deps.get(v, ()))
            keynames = {x.id for x in ast.walk(key) if isinstance(x, ast.Name)}
            missing = sorted((closure & loopvars) - keynames - {D})
            n += 1
            run.oblige(rule, f"{f.qualname}:{D}[{ast.unparse(key)}]", not missing, sample={
                "where": f"{f.module.relpath}:{test.lineno}",
                "value_depends_on_loop_variables": sorted(closure & loopvars)})
            if missing:
                run.add(rule, f"{f.qualname}/memo-key/{D}",
                        f"{f.module.relpath}:{test.lineno}",
                        f"{f.qualname}: the local memo `{D}` is keyed on "
                        f"`{ast.unparse(key)}` but the stored value depends on the loop "
                        f"variable(s) {missing} (through assignments inside the loops): "
                        f"a later iteration with another {missing[0]} reuses the value "
                        f"computed for an earlier one")
    run.count(rule, n)


def a5_layout(run: Run, prog: Program, cy: CyProgram, sites):
    """The C estimators address their 2-D inputs row-major with the row length
    the caller's shape gives them.  Re-uses C20's affine pointer analysis (every
    access offset as a polynomial in loop counters and extents, every buffer's
    shape in C parameter names from the Python call sites); C20 itself only
    decides that the accesses are in bounds, which a transposed hand-over with
    swapped extents still is."""
    from . import rules_c20
    sub = Run("C20", write=False, quiet=True, repo=run.repo)
    try:
        rules_c20.check(sub, prog, cy, sites)
    except AnalysisError as ex:
        run.unknowns.append(f"A5: the pointer analysis of C20 did not complete "
                            f"({str(ex)[:120]}): layouts not decided")
        return
    n = 0
    for o in getattr(sub, "layout", []):
        if not any(p_ in o["file"] for p_ in ("climate/", "timeseries/", "funcnet/")):
            continue
        n += 1
        run.oblige("A5", o["instance"], o["ok"], sample=o["sample"])
        if not o["ok"]:
            run.add("A5", o["key"], o["where"], o["message"])
    run.floor("A5 strided accesses into non-square 2-D buffers", n, 10)


def check(run: Run, prog: Program, cy: CyProgram, sites):
    run.rule("A1", "compiled estimators are called with the dtype/rank their "
             "signature demands (applicability of every estimator x option branch)")
    run.rule("A2", "no array subscript with a float constant index")
    run.rule("A3", "literal option values that flow into a validated parameter are "
             "accepted by the callee")
    run.rule("A4", "running absolute-maximum idiom is internally consistent")
    run.rule("A7", "a local memo dict inside loops is keyed on every loop variable "
             "its value depends on")
    run.rule("A6", "a name bound inside a loop to a list/array built before the loop "
             "is not changed in place (work objects are fresh per iteration)")
    run.rule("A5", "C estimators address 2-D inputs row-major with the row length of "
             "the shape the caller hands over (C20's pointer analysis re-used)")
    run.explanation = (
        "Applicability clauses of C10 only: kernel-boundary typing, index typing, "
        "option flow, and consistency of the abs-max selection idiom. Numerical "
        "equality with reference statistics is NOT decided.")
    n = report_sites(run, "A1", sites, lambda s: any(
        p in s.func.module.relpath for p in C10_FILES) and
        s.kernel.name not in ("_twins_s", "_twin_surrogates_s", "_recurrence_plot",
                              "_embed_time_series_array"))
    run.floor("A1 call sites", n, 1)
    for (f, name, t, init, verdict, detail) in local_buffer_decls(cy):
        if not ("funcnet" in f.module.name or "climate" in f.module.name):
            continue
        ok = not verdict.startswith("mismatch")
        run.oblige("A1", f"local:{f.name}.{name}", ok, sample=detail)
        if not ok:
            run.add("A1", f"local/{f.name}/{name}", f"{f.module.relpath}:{detail['line']}",
                    f"kernel {f.name} declares `{name}` as {detail['declared']} but "
                    f"allocates it with {detail['init']} ({verdict})")
    a2_float_index(run, prog)
    # (eventseries_climatenetwork.py is hosted by C16/E2)
    k = a3_option_flow(run, prog, "A3", ("funcnet/", "climate/tsonis", "climate/mutual",
                                          "climate/spearman", "climate/partial",
                                          "climate/rainfall", "climate/havlin",
                                          "climate/hilbert", "timeseries/surrogates.py"))
    a4_absmax(run, cy, prog)
    a5_layout(run, prog, cy, sites)
    a6_loop_alias(run, prog)
    a7_local_memo(run, prog)
