"""C03 - structural clauses: motif kernels complete (M1), kernel boundary (M2),
virtual calls survive overriding (M4 = X5 restricted to network.py)."""
from __future__ import annotations

import ast
import math
import re

from .pymodel import Program
from .cymodel import CyProgram, X, pp, walk, names_in
from .kernels import report_sites, local_buffer_decls
from .loopir import count_sites, resolve_role
from .report import Run, AnalysisError

CORE = "pyunicorn.core._ext.numerics"


def product_factors(e: X) -> list:
    if e.k == "bin" and e.a[0] == "*":
        return product_factors(e.a[1]) + product_factors(e.a[2])
    if e.k == "cast":           # <double> k * (k-1) ... : the cast widens only
        return product_factors(e.a[1])
    return [e]


def m1(run: Run, cy: CyProgram):
    kernels = [f for f in cy.modules[CORE].funcs.values()
               if f.name.startswith("_local_cliquishness_")]
    run.floor("cliquishness kernels", len(kernels), 2, hard=True)
    for f in sorted(kernels, key=lambda f: f.name):
        # the clique counter is the numerator of the normalisation statement
        # `out[i] = counter / (d (d-1) ...)` - whatever it is called
        def strip(e):
            while e.k == "cast":
                e = e.a[1]
            return e
        def numerator(e):
            """(counter name, constant multiplier) of `counter` / `c * counter`"""
            e = strip(e)
            if e.k == "name":
                return e.a[0], 1
            if e.k == "bin" and e.a[0] == "*":
                l, r_ = strip(e.a[1]), strip(e.a[2])
                for c_, n_ in ((l, r_), (r_, l)):
                    if c_.k == "num" and n_.k == "name" and \
                            float(c_.a[0]) == int(float(c_.a[0])):
                        return n_.a[0], int(float(c_.a[0]))
            return None
        norm = None
        fbody0 = f.body
        try:
            from .loopir import inline_value_helpers, fold_subcounters
            ib = fold_subcounters(inline_value_helpers(f))
            if ib is not None:
                import copy as _copy
                f = _copy.copy(f)
                f.body = ib
        except Exception:
            f.body = fbody0
        for st in walk(f.body):
            if isinstance(st, X) and st.k == "assign" and strip(st.a[1]).k == "bin" and \
                    strip(st.a[1]).a[0] == "/" and \
                    numerator(strip(st.a[1]).a[1]) is not None:
                norm = st
        if norm is None:
            run.unknowns.append(f"M1: {f.where}: {f.name}: no statement `out[i] = "
                                f"counter / normaliser` found (restructured kernel); "
                                f"clique test and normaliser not decided")
            continue
        counter, mult = numerator(strip(norm.a[1]).a[1])
        sites = [s for s in count_sites(f.body) if s.counter == counter]
        if len(sites) != 1:
            run.unknowns.append(f"M1: {f.where}: {f.name}: {len(sites)} sites "
                                f"`{counter} += 1` (the count is produced by helpers "
                                f"in a form that is not read); clique test and "
                                f"normaliser not decided")
            continue
        s = sites[0]
        adj = next((n for n, t in f.args if t.kind in ("buffer", "memview")
                    and t.ndim == 2), "A")
        # neighbour roles: variables bound to <neighbour list>[<loop var>] with
        # the loop running over the full neighbour range
        roles = {}
        for name in sorted({n for t in s.tests for n in t[1]}):
            src, lv, it = resolve_role(name, s)
            roles[name] = (src, lv, pp(it) if it is not None else None)
        srcs = [src for (src, lv, it) in roles.values() if src != "range"]
        nb_src = max(set(srcs), key=srcs.count) if srcs else None
        nb_roles = sorted(n for n, (src, lv, it) in roles.items() if src == nb_src)
        # two enumerations of the neighbour tuples are recognised: all ordered
        # tuples (every role over range(<degree>)) or every subset once (role k
        # over range(<loop variable of role k-1> + 1, <degree>), the count then
        # multiplied by r!)
        lvorder = [v for v, _ in s.loops]
        by_pos = sorted(nb_roles, key=lambda n: lvorder.index(roles[n][1])
                        if roles[n][1] in lvorder else 99)
        its = [(roles[n][2] or "").replace(" ", "") for n in by_pos]
        mode = "tuples"
        cands = set()
        # an enumeration in a form the rule does not know (reversed ranges,
        # mirrored indices, while loops) is not judged
        exotic = [it_ for it_ in its if not re.fullmatch(r"range\([^,]*(,[^,]*)?\)", it_)]
        if exotic or len(nb_roles) < 3:
            run.unknowns.append(f"M1: {f.where}: {f.name} enumerates its neighbour tuples "
                                f"in a form that is not recognised ({exotic[:2]}); "
                                f"completeness of the clique test not decided")
            continue
        for k_, it_ in enumerate(its):
            m_ = re.fullmatch(r"range\((\w+)\)", it_)
            if m_:
                cands.add(m_.group(1))
                continue
            prev = roles[by_pos[k_ - 1]][1] if k_ else None
            m_ = re.fullmatch(r"range\(\(?(\w+)\+1\)?,(\w+)\)", it_) or \
                re.fullmatch(r"range\(\(?1\+(\w+)\)?,(\w+)\)", it_)
            if m_ and k_ and m_.group(1) == prev:
                cands.add(m_.group(2))
                mode = "subsets"
                continue
            cands.add(None)
        if mode == "subsets" and not all("," in it_ for it_ in its[1:]):
            cands.add(None)              # mixed enumeration
        ranges = cands
        # the common range bound must be the node's degree: a local bound to
        # <degree parameter>[<outer loop variable>]
        dname = None
        if len(ranges) == 1 and None not in ranges:
            if True:
                cand = next(iter(ranges))
                bnd = s.bindings.get(cand)
                degp = [n for n, t in f.args if t.kind in ("buffer", "memview")
                        and t.ndim == 1]
                if bnd is not None and bnd.k == "index" and bnd.a[0].k == "name" and \
                        bnd.a[0].a[0] in degp and s.loops and \
                        pp(bnd.a[1][0]) == s.loops[0][0]:
                    dname = cand
        full = dname is not None
        r = len(nb_roles)
        want = {frozenset((a, b)) for i, a in enumerate(nb_roles) for b in nb_roles[i + 1:]}
        got = {p for p in s.pairs(adj) if p <= set(nb_roles) and len(p) == 2}
        missing = sorted(tuple(sorted(p)) for p in want - got)
        ok = full and not missing and r >= 3
        # report roles by position (1st, 2nd ... neighbour loop), not by name
        pos = {n: f"nb{k + 1}" for k, n in enumerate(
            sorted(nb_roles, key=lambda n: [v for v, _ in s.loops].index(roles[n][1])
                   if roles[n][1] in [v for v, _ in s.loops] else 99))}
        run.oblige("M1", f"{f.name}:guards", ok, sample={
            "where": f"{f.module.relpath}:{s.line}", "roles": roles,
            "tested_pairs": sorted(tuple(sorted(p)) for p in got),
            "required": r * (r - 1) // 2})
        if not full:
            run.add("M1", f"{f.name}/range", f"{f.module.relpath}:{s.line}",
                    f"{f.name}: a neighbour role does not range over all "
                    f"`range(<degree of the node>)` neighbours: {roles}")
        if missing:
            run.add("M1", f"{f.name}/missing-pairs/" +
                    ",".join("-".join(sorted(pos[x] for x in p)) for p in missing),
                    f"{f.module.relpath}:{s.line}",
                    f"{f.name} counts {r}-tuples of neighbours as cliques without "
                    f"testing the link(s) {missing}: tuples that are not cliques "
                    f"(e.g. with a repeated neighbour) are counted (tested: "
                    f"{sorted(tuple(sorted(p)) for p in got)})")
        # normaliser: falling factorial of the degree with r factors
        d = dname or "degree_i"
        den = strip(strip(norm.a[1]).a[2])
        if den.k == "name":
            # the normaliser hoisted into a local assigned once
            dd = [st_.a[1] for st_ in walk(f.body) if isinstance(st_, X)
                  and st_.k == "assign" and len(st_.a[0]) == 1
                  and st_.a[0][0].k == "name" and st_.a[0][0].a[0] == den.a[0]]
            init = f.locals.get(den.a[0])
            if init is not None and init[1] is not None:
                dd.append(init[1])
            if len(dd) == 1:
                den = dd[0]
        facs = sorted(pp(x).replace(" ", "") for x in product_factors(den))
        wantf = sorted([d] + [f"({d}-{t})" for t in range(1, r)])
        wantm = math.factorial(r) if mode == "subsets" else 1
        okn = facs == wantf and mult == wantm
        run.oblige("M1", f"{f.name}:normaliser", okn, sample={
            "where": f"{f.module.relpath}:{norm.line}", "factors": facs,
            "enumeration": mode, "multiplier": mult})
        if not okn:
            run.add("M1", f"{f.name}/normaliser", f"{f.module.relpath}:{norm.line}",
                    f"{f.name} normalises {mult} x the count of "
                    f"{'subsets' if mode == 'subsets' else 'ordered tuples'} of {r} "
                    f"neighbours by {facs}, expected {wantm} x count over the falling "
                    f"factorial {wantf}")
        # the order constant must match the number of roles
        order = f.locals.get("order")
        if order is not None and order[1] is not None:
            oko = order[1].k == "num" and order[1].a[0] == r + 1
            run.oblige("M1", f"{f.name}:order", oko, nontrivial=False)
            if not oko:
                run.add("M1", f"{f.name}/order", f.where,
                        f"{f.name}: declared order {pp(order[1])} but {r} neighbour "
                        f"roles are enumerated")


def override_signature_findings(prog: Program):
    """X5: `self.m(args)` in a method f of B, inherited by a subclass C that
    overrides m with an incompatible signature."""
    out = []
    n_checked = 0
    for B in prog.classes.values():
        for f in list(B.methods.values()) + [x for p in B.props.values()
                                             for x in p.values()]:
            if f.kind not in ("method", "getter", "setter") or not f.params:
                continue
            sn = f.params[0]
            calls = [n for n in ast.walk(f.node) if isinstance(n, ast.Call)
                     and isinstance(n.func, ast.Attribute)
                     and isinstance(n.func.value, ast.Name) and n.func.value.id == sn]
            if not calls:
                continue
            subs = [C for C in prog.classes.values() if C is not B and B in C.mro]
            for C in subs:
                # does C still execute f ?
                cur = prog.lookup(C, f.name) if f.kind == "method" else None
                if f.kind == "method" and cur is not f:
                    continue
                for c in calls:
                    m = c.func.attr
                    gB = prog.lookup(B, m)
                    gC = prog.lookup(C, m)
                    if gB is None or gC is None or gC is gB or \
                            gC.kind not in ("method",):
                        continue
                    n_checked += 1
                    why = _accepts(gC, c)
                    out.append((f, C, c, gC, gB, why))
    return out, n_checked


def _accepts(g, call: ast.Call):
    a = g.node.args
    params = [x.arg for x in a.posonlyargs + a.args][1:]
    ndef = len(a.defaults)
    required = params[: len(params) - ndef] if ndef else params
    if any(isinstance(x, ast.Starred) for x in call.args) or \
            any(k.arg is None for k in call.keywords):
        return None
    npos = len(call.args)
    if npos > len(params) and a.vararg is None:
        return (f"passes {npos} positional argument(s), the override accepts "
                f"{len(params)}")
    kws = {k.arg for k in call.keywords}
    allowed = set(params) | {x.arg for x in a.kwonlyargs}
    bad = sorted(k for k in kws if k not in allowed)
    if bad and a.kwarg is None:
        return f"passes keyword(s) {bad} the override does not accept"
    missing = [p for i, p in enumerate(required) if i >= npos and p not in kws]
    if missing:
        return f"does not pass required argument(s) {missing} of the override"
    return None


def m4(run: Run, prog: Program, rule="M4", file_part="core/network.py"):
    found, n = override_signature_findings(prog)
    k = 0
    seen = set()
    for (f, C, c, gC, gB, why) in found:
        if file_part not in f.module.relpath:
            continue
        key = f"{f.qualname}/{gC.qualname}"
        inst = f"{C.name}:{f.qualname}->{c.func.attr}@{c.lineno}"
        if not why:
            run.oblige(rule, inst, True, sample={
                "where": f"{f.module.relpath}:{c.lineno}", "override": gC.qualname})
            k += 1
            continue
        run.oblige(rule, inst, False, sample={
            "where": f"{f.module.relpath}:{c.lineno}", "call": ast.unparse(c)[:80],
            "override": gC.qualname, "why": why})
        k += 1
        if key in seen:
            continue
        seen.add(key)
        classes = sorted({C2.name for (f2, C2, c2, g2, _, w2) in found
                          if f2 is f and g2 is gC and w2})
        run.add(rule, key, f"{f.module.relpath}:{c.lineno}",
                f"{f.qualname} calls `{ast.unparse(c)[:70]}`, but on "
                f"{', '.join(classes[:6])} `{c.func.attr}` resolves to {gC.qualname}"
                f"{ast.unparse(gC.node.args)!r}: the call {why} -> TypeError on every "
                f"call of the inherited method", classes=classes)
    run.count(rule, n)
    run.extra.setdefault("override_pairs_checked_repo_wide", n)
    return n


def m5(run: Run, prog: Program):
    """Pair-count normalisers: a measure normalised by a number of pairs
    D*(D-1) must have both factors in the denominator.  `x / D * (D - 1)`
    divides by D and *multiplies* by D-1 (operator precedence); the shape
    "divide by D, then multiply by D +- constant" has no other reading in the
    measure code, so every instance is reported."""
    n = 0
    for f in prog.functions():
        if "/core/" not in f.module.relpath:
            continue
        for e in ast.walk(f.node):
            if not (isinstance(e, ast.BinOp) and isinstance(e.op, ast.Div)):
                continue
            n += 1
        for e in ast.walk(f.node):
            if isinstance(e, ast.BinOp) and isinstance(e.op, ast.Mult) and \
                    isinstance(e.left, ast.BinOp) and isinstance(e.left.op, ast.Div):
                D, R = e.left.right, e.right
                d = ast.unparse(D)
                if isinstance(R, ast.BinOp) and isinstance(R.op, (ast.Sub, ast.Add)) and \
                        ast.unparse(R.left) == d and isinstance(R.right, ast.Constant):
                    run.oblige("M5", f"{f.qualname}@{ast.unparse(e)[:40]}", False,
                               sample={"where": f"{f.module.relpath}:{e.lineno}"})
                    run.add("M5", f"{f.qualname}/split-normaliser/{d}",
                            f"{f.module.relpath}:{e.lineno}",
                            f"{f.qualname}: `{ast.unparse(e)}` divides by `{d}` and then "
                            f"multiplies by `{ast.unparse(R)}`; a normalisation by the "
                            f"number of pairs needs `/ ({d} * ({ast.unparse(R)}))`")
    run.count("M5", n)
    run.floor("M5 divisions scanned (core)", n, 100)


# ---------------------------------------------------------------------------
# M7: the direction convention  A[i, j] = link i -> j

_AXIS_OF = {"in": 0, "out": 1}


from .idioms import fold_constants as _fold  # noqa: E402


def _axis_sums(fnode):
    """[(node, summed expression, axis constant | None)] for `x.sum(axis=k)` /
    `np.sum(x, axis=k)` in fnode, locals inlined."""
    from .idioms import inline_locals
    out = []
    for c in ast.walk(fnode):
        if not (isinstance(c, ast.Call) and isinstance(c.func, ast.Attribute)
                and c.func.attr == "sum"):
            continue
        kw = {k.arg: k.value for k in c.keywords}
        if ast.unparse(c.func.value) in ("np", "numpy"):
            if not c.args:
                continue
            x = c.args[0]
            ax = kw.get("axis", c.args[1] if len(c.args) > 1 else None)
        else:
            x = c.func.value
            ax = kw.get("axis", c.args[0] if c.args else None)
        if ax is None:
            continue
        ax = inline_locals(fnode, ax)
        x = inline_locals(fnode, x)
        k = ax.value if isinstance(ax, ast.Constant) and isinstance(ax.value, int) else None
        out.append((c, x, k))
    return out


def _transposed(x) -> bool:
    s = ast.unparse(x)
    return bool(re.search(r"\.T\b|transpose|swapaxes", s))


def m7(run: Run, prog: Program):
    """Entry [i, j] of every adjacency / link-attribute matrix is the link from
    i to j: in-degrees and in-strengths add up a column (axis 0), out-degrees a
    row (axis 1).  Decided (a) in every method called *in/out-degree and (b) in
    methods that select the direction by a "in"/"out" string parameter, after
    folding that parameter to either constant."""
    n = 0
    for cname in ("Network", "InteractingNetworks"):
        ci = prog.classes.get(cname)
        if ci is None:
            raise AnalysisError(f"class {cname} vanished")
        for mname, m in sorted(ci.methods.items()):
            d = "in" if "indegree" in mname else "out" if "outdegree" in mname else None
            if d is None or "distribution" in mname or "cdf" in mname:
                continue
            for c, x, k in _axis_sums(m.node):
                if k is None or _transposed(x):
                    run.unknowns.append(f"M7: {m.qualname}: axis of `{ast.unparse(c)[:60]}` "
                                        f"not decided (computed axis or transposed operand)")
                    continue
                n += 1
                ok = k == _AXIS_OF[d]
                run.oblige("M7", f"{m.qualname}:axis@{ast.unparse(x)[:40]}", ok, sample={
                    "where": f"{m.module.relpath}:{c.lineno}", "axis": k})
                if not ok:
                    run.add("M7", f"{m.qualname}/axis", f"{m.module.relpath}:{c.lineno}",
                            f"{m.qualname} sums `{ast.unparse(x)[:60]}` over axis {k}: with "
                            f"entry [i,j] = link i->j the {d}-degree/strength of a node is "
                            f"the sum over axis {_AXIS_OF[d]}")
    run.floor("M7 in/out-degree axis sites", n, 8)
    # (b) direction selected by a string parameter
    k2 = 0
    for ci in prog.classes.values():
        if not ci.module.relpath.endswith(("core/network.py",
                                           "core/interacting_networks.py")):
            continue
        for mname, m in sorted(ci.methods.items()):
            if "direction" not in m.params:
                continue
            sn = m.params[0]
            for d, other in (("in", "out"), ("out", "in")):
                body = _fold(m.node, {"direction": d, f"{sn}.directed": True})
                k2 += 1
                calls = {c.func.attr for c in ast.walk(body)
                         if isinstance(c, ast.Call) and isinstance(c.func, ast.Attribute)
                         and isinstance(c.func.value, ast.Name) and c.func.value.id == sn}
                wrong = sorted(x for x in calls if f"{other}degree" in x
                               or f"{other}strength" in x)
                ok = not wrong
                bad_axes = []
                for c, x, k in _axis_sums(body):
                    if k is None or _transposed(x):
                        continue
                    if k != _AXIS_OF[d]:
                        bad_axes.append((ast.unparse(x)[:50], k))
                        ok = False
                run.oblige("M7", f"{m.qualname}:direction={d}", ok, sample={
                    "where": m.where, "self_calls": sorted(calls)[:8]})
                if not ok:
                    run.add("M7", f"{m.qualname}/direction-{d}", m.where,
                            f"{m.qualname}(direction=\"{d}\") on a directed network uses "
                            f"{wrong or bad_axes}: with entry [i,j] = link i->j the "
                            f"{d}-degree is the sum over axis {_AXIS_OF[d]} "
                            f"({d}degree()), not over axis {_AXIS_OF[other]}")
    run.floor("M7 direction-parameter methods", k2, 2)



SPARSE_MAKERS = {"tocsc", "tocsr", "tolil", "tocoo", "todia", "tobsr", "todok"}
SPARSE_FUNCS = ("csc_matrix", "csr_matrix", "coo_matrix", "lil_matrix",
                "dia_matrix", "dok_matrix", "bsr_matrix", "csc_array",
                            "csr_array", "identity", "eye", "diags", "spdiags",
                            "block_diag", "kron")
DENSE_MAKERS = {"toarray"}     # todense() gives np.matrix, whose `*` is the matrix product
DENSE_FUNCS = {"np.zeros", "np.ones", "np.empty", "np.array", "np.asarray", "np.full",
               "np.zeros_like", "np.ones_like", "np.empty_like", "np.identity", "np.eye",
               "np.diag", "np.outer", "np.dot", "np.matmul", "np.abs", "np.triu",
               "np.tril", "np.ascontiguousarray"}
KEEPS_KIND = {"astype", "copy", "transpose", "conj", "conjugate"}


def m8(run: Run, prog: Program):
    """`x * y` between two matrices is the matrix product for scipy sparse
    matrices and the element-wise product for ndarrays.  An operand pair that
    is sparse on one path and dense on another (e.g. a helper returning the
    sparse adjacency or a dense link-attribute matrix) makes one expression
    compute two different functions."""
    import ast

    def store_values(C, attr):
        out = []
        for c in C.mro:
            for m in list(c.methods.values()) + [g for pr in c.props.values()
                                                 for g in pr.values()]:
                for n in ast.walk(m.node):
                    if isinstance(n, ast.Assign) and len(n.targets) == 1 and \
                            isinstance(n.targets[0], ast.Attribute) and \
                            n.targets[0].attr == attr and \
                            isinstance(n.targets[0].value, ast.Name) and \
                            m.params and n.targets[0].value.id == m.params[0]:
                        out.append((n.value, m))
        return out

    def kinds(e, f, depth=0):
        if depth > 6 or e is None:
            return set()
        C = f.cls
        sn = f.params[0] if f.kind in ("method", "getter", "setter") and f.params else None
        if isinstance(e, ast.IfExp):
            return kinds(e.body, f, depth + 1) | kinds(e.orelse, f, depth + 1)
        if isinstance(e, ast.Attribute):
            if e.attr in ("T", "real", "imag"):
                return kinds(e.value, f, depth + 1)
            if e.attr == "A" and not (isinstance(e.value, ast.Name) and e.value.id == sn):
                return {"dense"}
            if isinstance(e.value, ast.Name) and e.value.id == sn and C is not None:
                pr = prog.lookup_prop(C, e.attr)
                if pr is not None and "get" in pr:
                    g = pr["get"]
                    out = set()
                    for r in ast.walk(g.node):
                        if isinstance(r, ast.Return):
                            out |= kinds(r.value, g, depth + 1)
                    return out
                out = set()
                for v, m in store_values(C, e.attr):
                    out |= kinds(v, m, depth + 1)
                return out
            return set()
        if isinstance(e, ast.Call):
            fn = e.func
            name = ast.unparse(fn)
            if name in DENSE_FUNCS:
                return {"dense"}
            if isinstance(fn, ast.Attribute):
                if fn.attr in SPARSE_MAKERS:
                    return {"sparse"}
                if fn.attr in DENSE_MAKERS:
                    return {"dense"}
                if fn.attr in KEEPS_KIND:
                    return kinds(fn.value, f, depth + 1)
                if fn.attr in SPARSE_FUNCS and isinstance(fn.value, ast.Name) and \
                        fn.value.id in ("sp", "sparse", "scipy"):
                    return {"sparse"}
                if isinstance(fn.value, ast.Name) and fn.value.id == sn and C is not None:
                    g = prog.lookup(C, fn.attr)
                    if g is not None and g is not f:
                        out = set()
                        for r in ast.walk(g.node):
                            if isinstance(r, ast.Return):
                                out |= kinds(r.value, g, depth + 1)
                        return out
            return set()
        if isinstance(e, ast.Name):
            out = set()
            if e.id in f.params:
                return set()
            for n in ast.walk(f.node):
                if isinstance(n, ast.Assign) and len(n.targets) == 1 and \
                        isinstance(n.targets[0], ast.Name) and n.targets[0].id == e.id \
                        and n.value is not e:
                    out |= kinds(n.value, f, depth + 1)
                elif isinstance(n, ast.AugAssign) and isinstance(n.target, ast.Name) \
                        and n.target.id == e.id:
                    return set()
            return out
        return set()

    n_mult = n_typed = 0
    for f in sorted(prog.functions(), key=lambda g: (g.module.relpath, g.node.lineno)):
        if "core/" not in f.module.relpath and "climate/" not in f.module.relpath \
                and "funcnet/" not in f.module.relpath:
            continue
        for b in ast.walk(f.node):
            if not (isinstance(b, ast.BinOp) and isinstance(b.op, ast.Mult)):
                continue
            n_mult += 1
            try:
                kl, kr = kinds(b.left, f), kinds(b.right, f)
            except RecursionError:
                continue
            if not kl or not kr:
                continue
            n_typed += 1
            bad = {"sparse", "dense"} <= kl and {"sparse", "dense"} <= kr
            inst = f"{f.qualname}:{ast.unparse(b)[:40]}:{b.lineno}"
            run.oblige("M8", inst, not bad, sample={
                "where": f"{f.module.relpath}:{b.lineno}", "left": sorted(kl),
                "right": sorted(kr)})
            if bad:
                run.add("M8", f"{f.qualname}/{ast.unparse(b)[:40]}",
                        f"{f.module.relpath}:{b.lineno}",
                        f"{f.qualname} multiplies `{ast.unparse(b.left)[:40]}` and "
                        f"`{ast.unparse(b.right)[:40]}` with `*`; both are a scipy sparse "
                        f"matrix on one path and a dense ndarray on another, so the "
                        f"same expression is the matrix product in one case and the "
                        f"element-wise product in the other")
    run.extra["M8"] = {"products_seen": n_mult, "both_operands_typed": n_typed}
    run.floor("M8 products scanned", n_mult, 200, hard=True)
    if n_typed == 0:
        run.oblige("M8", "no-matrix-product-typed", True, nontrivial=False)


def check(run: Run, prog: Program, cy: CyProgram, sites):
    run.rule("M8", "`*` is never applied to two matrices that are scipy sparse on one "
             "path and dense on another (matrix product vs element-wise product)")
    run.rule("M5", "pair-count normalisers keep both factors in the denominator "
             "(no `x / D * (D - 1)`)")
    run.rule("M1", "clique-counting kernels test every pair of enumerated neighbour "
             "roles and normalise by the matching falling factorial")
    run.rule("M2", "compiled kernels used by core/network.py are called with the "
             "dtype/rank their signature demands")
    run.rule("M4", "a `self.m()` call in an inherited Network method is accepted by "
             "every override of m in subclasses that inherit the caller")
    run.rule("M7", "direction convention A[i,j] = link i->j: in-degree/strength sums "
             "axis 0, out-degree axis 1, also behind a direction=\"in\"/\"out\" "
             "parameter (folded to either constant)")
    run.explanation = (
        "Structural necessary conditions of C03: completeness of the motif "
        "(clique) counting kernels derived from the kernels' own loop structure, "
        "kernel-boundary typing, and override-signature compatibility of virtual "
        "calls. The equality of each measure with its definition is NOT decided "
        "(igraph/scipy based and spectral measures are out of reach).")
    m1(run, cy)
    n = report_sites(run, "M2", sites,
                     lambda s: s.func.module.relpath.endswith("core/network.py"))
    run.floor("M2 call sites (network.py)", n, 1)
    for (f, name, t, init, verdict, detail) in local_buffer_decls(cy):
        if f.module.name != CORE:
            continue
        ok = not verdict.startswith("mismatch")
        run.oblige("M2", f"local:{f.name}.{name}", ok, sample=detail)
        if not ok:
            run.add("M2", f"local/{f.name}/{name}", f"{f.module.relpath}:{detail['line']}",
                    f"kernel {f.name} declares `{name}` as {detail['declared']} but "
                    f"allocates it with {detail['init']} ({verdict})")
    m5(run, prog)
    m7(run, prog)
    m8(run, prog)
    nm4 = m4(run, prog, "M4", "core/network.py")
    run.floor("override pairs checked (repo-wide)", nm4, 100, hard=True)
