"""Equivalence digest for twin_1: EventSeries.event_series_analysis /
event_analysis_significance option checks, symmetrization lookup and the
p-value masking in EventSeriesClimateNetwork.__init__."""
import hashlib
import io
import contextlib
import itertools

import numpy as np

from pyunicorn.eventseries import EventSeries
from pyunicorn.climate.eventseries_climatenetwork import \
    EventSeriesClimateNetwork
from pyunicorn.core.data import Data
from pyunicorn.climate.climate_data import ClimateData

H = hashlib.sha256()


def put(tag, val):
    H.update(tag.encode())
    if isinstance(val, np.ndarray):
        H.update(str(val.dtype).encode() + str(val.shape).encode())
        H.update(np.ascontiguousarray(val).tobytes())
    elif isinstance(val, (str, bytes, int, float, bool, tuple, list,
                          type(None), np.generic)):
        H.update(repr(val).encode())
    else:
        H.update(type(val).__name__.encode())


def attempt(tag, fn):
    buf = io.StringIO()
    try:
        with contextlib.redirect_stdout(buf):
            res = fn()
    except Exception as e:  # pylint: disable=broad-except
        put(tag, ("EXC", type(e).__name__, str(e)))
        res = None
    else:
        if isinstance(res, tuple):
            for k, x in enumerate(res):
                put(f"{tag}/{k}", x)
        else:
            put(tag, res)
    put(tag + "/out", buf.getvalue())
    return res


def event_matrix(seed, T, N, rate):
    rng = np.random.RandomState(seed)
    m = (rng.rand(T, N) < rate).astype(int)
    m[0, :] = 0
    m[1, :] = 1
    return m


SYMS = ['directed', 'symmetric', 'antisym', 'mean', 'max', 'min', 'bogus',
        None, ('directed',), ['mean']]
WINS = ['symmetric', 'retarded', 'advanced', 'bogus', None]
METHODS = ['ES', 'ECA', 'es', None, 3, ('ES',)]

for seed, (T, N, rate, taumax, lag) in enumerate([
        (30, 4, 0.3, 3.0, 0.0), (25, 5, 0.2, np.inf, 0.0),
        (40, 3, 0.4, 2, 1.0), (12, 6, 0.5, 1.0, 0.0)]):
    em = event_matrix(seed, T, N, rate)
    es = EventSeries(em, taumax=taumax, lag=lag)
    em0 = em.copy()
    for meth, sym, win in itertools.product(METHODS, SYMS, WINS):
        tag = f"esa/{seed}/{meth!r}/{sym!r}/{win!r}"
        r1 = attempt(tag, lambda: es.event_series_analysis(
            method=meth, symmetrization=sym, window_type=win))
        # repeated query: equal and (for ES directed) the very same object
        r2 = attempt(tag + "/again", lambda: es.event_series_analysis(
            method=meth, symmetrization=sym, window_type=win))
        put(tag + "/same", r1 is r2 if r1 is not None else None)
    put(f"cache_is/{seed}", attempt(
        f"nd/{seed}", es._ndim_event_synchronization)
        is attempt(f"esd/{seed}", lambda: es.event_series_analysis('ES')))
    put(f"em_unchanged/{seed}", bool((em == em0).all()))
    put(f"opts/{seed}", sorted(es.symmetrization_options))

    # significance (shuffle + analytic), small surrogate numbers
    for meth, sur, sym, win in itertools.product(
            ['ES', 'ECA', 'xx'], ['shuffle', 'analytic', 'zz'],
            ['directed', 'mean', 'antisym', 'symmetric', 'max', 'bogus'],
            ['symmetric', 'retarded', 'advanced', 'bogus']):
        np.random.seed(100 + seed)
        attempt(f"sig/{seed}/{meth}/{sur}/{sym}/{win}",
                lambda: es.event_analysis_significance(
                    method=meth, surrogate=sur, n_surr=4,
                    symmetrization=sym, window_type=win))
    # the memoised ES matrix must be what it was
    attempt(f"nd_after/{seed}", es._ndim_event_synchronization)

    # modified options dictionary (public attribute)
    es.symmetrization_options['neg'] = lambda m: -m
    attempt(f"neg/{seed}", lambda: es.event_series_analysis(
        'ES', symmetrization='neg'))
    del es.symmetrization_options['max']
    attempt(f"delmax/{seed}", lambda: es.event_series_analysis(
        'ES', symmetrization='max'))
    np.random.seed(7)
    attempt(f"delmax_sig/{seed}", lambda: es.event_analysis_significance(
        'ES', n_surr=2, symmetrization='max'))

# ---- EventSeriesClimateNetwork --------------------------------------------


def climate_data(seed, T, shape):
    rng = np.random.RandomState(seed)
    base = Data.SmallTestData()
    if shape == 'small':
        obs = base.observable().copy()
        obs += 0.3 * rng.randn(*obs.shape)
        return ClimateData(observable=obs, grid=base.grid, time_cycle=5,
                           silence_level=2)
    return EventSeriesClimateNetwork.SmallTestData()


def net_digest(tag, net):
    if net is None:
        return
    put(tag + "/adj", np.asarray(net.adjacency))
    put(tag + "/sim", np.asarray(net.similarity_measure()))
    put(tag + "/directed", net.directed)
    put(tag + "/str", str(net))
    put(tag + "/esmat", net._ndim_event_synchronization())
    put(tag + "/esa", net.event_series_analysis('ES'))


for seed in range(3):
    for meth, pv, sym, win in itertools.product(
            ['ES', 'ECA', 'ES_pval', 'ECA_pval', 'bogus'],
            [None, 0.0, 0.3, 0.9, 1.0, 1.5, -0.1, np.float32(0.5),
             np.array([0.4]), np.array([[0.6]])],
            ['directed', 'mean', 'symmetric', 'bogus'],
            ['symmetric', 'retarded']):
        if win == 'retarded' and not meth.startswith('ECA'):
            continue
        data = climate_data(seed, 10, 'small')
        obs0 = data.observable().copy()
        np.random.seed(1000 + seed)
        tag = f"escn/{seed}/{meth}/{pv!r}/{sym}/{win}"
        net = attempt(tag, lambda: EventSeriesClimateNetwork(
            data, method=meth, p_value=pv, taumax=2.0, symmetrization=sym,
            window_type=win, threshold_method='quantile',
            threshold_values=0.7, threshold_types='above', n_surr=5,
            silence_level=2))
        if net is not None:
            buf = io.StringIO()
            with contextlib.redirect_stdout(buf):
                net_digest(tag, net)
        put(tag + "/obs_unchanged",
            bool((data.observable() == obs0).all()))

# defaults / other kwargs
for kw in [dict(), dict(non_local=True), dict(node_weight_type=None),
           dict(lag=1.0), dict(surrogate='analytic', p_value=0.5,
                               method='ECA', window_type='advanced'),
           dict(surrogate='bogus', p_value=0.5)]:
    data = climate_data(0, 10, 'small')
    np.random.seed(5)
    kw = dict(dict(taumax=3.0, threshold_method='quantile',
                   threshold_values=0.8, threshold_types='above', n_surr=3),
              **kw)
    tag = f"escn_kw/{sorted(kw.items())!r}"
    net = attempt(tag, lambda: EventSeriesClimateNetwork(data, **kw))
    if net is not None:
        buf = io.StringIO()
        with contextlib.redirect_stdout(buf):
            net_digest(tag, net)

print(H.hexdigest())
