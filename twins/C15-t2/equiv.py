"""Equivalence digest for Fourier (phase randomised) surrogates and the memoised FFT.

Run as:  PYTHONPATH=<worktree>/src /venv/bin/python equiv.py
Prints one sha256 digest; must be identical on pristine and refactored tree.
"""
import contextlib
import hashlib
import io
import os
import sys
import random as pyrandom
import warnings

import numpy as np

from pyunicorn.timeseries.surrogates import Surrogates

warnings.simplefilter("ignore")
H = hashlib.sha256()


def feed(tag, obj):
    H.update(repr(tag).encode())
    if isinstance(obj, tuple):
        H.update(b"tuple%d" % len(obj))
        for k, o in enumerate(obj):
            feed((tag, k), o)
    elif isinstance(obj, np.ndarray):
        H.update(str(obj.dtype).encode())
        H.update(repr(obj.shape).encode())
        H.update(repr((obj.flags.c_contiguous, obj.flags.writeable,
                       obj.flags.owndata)).encode())
        H.update(np.ascontiguousarray(obj).tobytes())
    else:
        H.update(repr(obj).encode())


def rng_state(tag):
    """record how much randomness was consumed"""
    feed((tag, "np-next"), np.random.get_state()[1][:8].copy())
    feed((tag, "np-pos"), int(np.random.get_state()[2]))
    feed((tag, "py-next"), pyrandom.getstate()[1][:8])


def attempt(tag, fn):
    try:
        res = fn()
    except BaseException as exc:  # pylint: disable=broad-except
        feed((tag, "exc"), type(exc).__name__)
        if os.environ.get("EQUIV_VERBOSE"):
            print("EXC", tag, type(exc).__name__, exc, file=sys.stderr)
        return None
    feed((tag, "ok"), res)
    return res


def datasets():
    rs = np.random.RandomState(20240915)
    yield "small", Surrogates.SmallTestData().original_data
    yield "gauss-even", rs.randn(4, 64)
    yield "gauss-odd", rs.randn(3, 51)
    yield "single-row", rs.randn(1, 17)
    yield "ties", rs.randint(0, 4, size=(5, 40)).astype(float)
    yield "int-data", rs.randint(-50, 50, size=(3, 33))
    yield "float32", rs.randn(3, 20).astype(np.float32)
    const = rs.randn(3, 16)
    const[1, :] = 2.5
    yield "const-row", const
    yield "fortran", np.asfortranarray(rs.randn(4, 30))
    yield "strided", rs.randn(6, 60)[::2, ::3]
    yield "short2", rs.randn(2, 2)
    yield "short1", rs.randn(2, 1)
    yield "empty-rows", np.zeros((0, 8))
    yield "nan", np.where(rs.rand(2, 24) < .1, np.nan, rs.randn(2, 24))


for name, data in datasets():
    data = data.copy(order="K")
    before = data.copy()
    np.random.seed(1234)
    pyrandom.seed(1234)
    s = Surrogates(original_data=data, silence_level=2)

    first = attempt((name, "corr-1"), s.correlated_noise_surrogates)
    rng_state((name, "corr-1"))
    fft_1 = attempt((name, "fft-1"), s.original_data_fft)
    second = attempt((name, "corr-2"), s.correlated_noise_surrogates)
    rng_state((name, "corr-2"))
    fft_2 = attempt((name, "fft-2"), s.original_data_fft)
    if fft_1 is not None and fft_2 is not None:
        # memoised spectrum: same object, never edited in place
        feed((name, "fft-same-object"), fft_1 is fft_2)
        attempt((name, "fft-vs-fresh"), lambda: bool(np.array_equal(
            fft_2, np.fft.rfft(s.original_data, axis=1), equal_nan=True)))
    if first is not None and second is not None and first.size:
        feed((name, "shares"), bool(np.shares_memory(first, second)))
        feed((name, "shares-fft"), bool(np.shares_memory(first, fft_2)))

    # many repetitions must not degrade the amplitude spectrum
    for rep in range(5):
        attempt((name, "corr-rep", rep), s.correlated_noise_surrogates)
    attempt((name, "fft-after-reps"), s.original_data_fft)
    rng_state((name, "reps"))

    # verbose path prints a message; output compared through stdout capture
    buf = io.StringIO()
    with contextlib.redirect_stdout(buf):
        loud = Surrogates(original_data=data, silence_level=0)
        attempt((name, "corr-loud"), loud.correlated_noise_surrogates)
    feed((name, "stdout"), buf.getvalue())

    # users of the phase randomisation
    attempt((name, "aaft"), s.AAFT_surrogates)
    attempt((name, "refined"),
            lambda: s.refined_AAFT_surrogates(2, output="both"))
    rng_state((name, "users"))

    # in-place edit of the data WITHOUT invalidation: memo stays (stale)
    if data.size and data.dtype.kind == "f":
        s.original_data[0, 0] += 1.0
        attempt((name, "corr-stale"), s.correlated_noise_surrogates)
        attempt((name, "fft-stale"), s.original_data_fft)
        # documented invalidation path
        attempt((name, "normalize"), s.normalize_original_data)
        attempt((name, "corr-norm"), s.correlated_noise_surrogates)
        attempt((name, "fft-norm"), s.original_data_fft)
        rng_state((name, "norm"))

    # changed N / n_time attributes after construction (size mismatch paths)
    t = Surrogates(original_data=before.copy(), silence_level=2)
    t.N = t.N + 1
    attempt((name, "corr-badN"), t.correlated_noise_surrogates)
    rng_state((name, "badN"))
    t = Surrogates(original_data=before.copy(), silence_level=2)
    t.n_time = t.n_time + 3
    attempt((name, "corr-long"), t.correlated_noise_surrogates)
    t.n_time = 0
    attempt((name, "corr-zero-n"), t.correlated_noise_surrogates)
    rng_state((name, "n_time"))

    feed((name, "data-after"), s.original_data)
    feed((name, "attrs"), sorted(k for k in vars(s)))
    feed((name, "mut"), (s._mut_data, s._mut_embedding, s._normalized))

print(H.hexdigest())
