"""Equivalence digest for property C14 (visibility graphs).

Run as:  PYTHONPATH=<worktree>/src /venv/bin/python equiv.py
Prints a sha256 digest over adjacency matrices, time-directed measures,
direct kernel calls (including malformed ones) and exception type names.
"""
import hashlib
import warnings

import numpy as np

from pyunicorn.timeseries import VisibilityGraph
from pyunicorn.timeseries._ext.numerics import (
    _visibility_relations_missingvalues,
    _visibility_relations_no_missingvalues,
    _visibility_relations_horizontal,
    _retarded_local_clustering, _advanced_local_clustering)

warnings.simplefilter("ignore")
H = hashlib.sha256()
N_ITEMS = 0


def feed(tag, obj):
    global N_ITEMS
    N_ITEMS += 1
    H.update(tag.encode())
    if isinstance(obj, np.ndarray):
        H.update(str(obj.dtype).encode())
        H.update(str(obj.shape).encode())
        H.update(np.ascontiguousarray(obj).tobytes())
    else:
        H.update(repr(obj).encode())


def guarded(tag, fun):
    try:
        res = fun()
    except BaseException as exc:  # pylint: disable=broad-except
        feed(tag + ":exc", type(exc).__name__)
        return None
    feed(tag, res if isinstance(res, np.ndarray) else np.asarray(res))
    return res


def series_bank():
    rng = np.random.RandomState(20240914)
    bank = []
    for n in (3, 4, 5, 8, 13, 30, 61):
        bank.append(("normal%d" % n, rng.randn(n)))
        bank.append(("ties%d" % n, rng.randint(0, 3, n).astype(float)))
        bank.append(("walk%d" % n, np.cumsum(rng.randn(n))))
    bank.append(("const", np.ones(9)))
    bank.append(("ramp", np.arange(10.)))
    bank.append(("down", np.arange(10.)[::-1].copy()))
    bank.append(("vee", np.abs(np.arange(-6., 7.))))
    bank.append(("hat", -np.abs(np.arange(-6., 7.))))
    bank.append(("zeros", np.array([0., -0., 0., -0., 0., -0.])))
    bank.append(("inf", np.array([1., np.inf, 0., -np.inf, 2., 3., np.inf])))
    bank.append(("big", np.array([1e30, -1e30, 1e38, 3e38, -3e38, 1., 2.])))
    bank.append(("tiny", np.array([1e-40, 2e-40, 1e-45, 0., 3e-41, 1e-39])))
    return bank


def measures(tag, make):
    try:
        vg = make()
    except BaseException as exc:  # pylint: disable=broad-except
        feed(tag + ":ctor-exc", type(exc).__name__)
        return
    feed(tag + ":A", vg.adjacency)
    for name in ("retarded_degree", "advanced_degree",
                 "retarded_local_clustering", "advanced_local_clustering",
                 "retarded_closeness", "advanced_closeness",
                 "boundary_corrected_degree", "degree"):
        guarded(tag + ":" + name, getattr(vg, name))
    # repeated calls / call sequences must not depend on hidden state
    guarded(tag + ":rd2", vg.retarded_degree)
    guarded(tag + ":alc2", vg.advanced_local_clustering)
    guarded(tag + ":rel", vg.visibility_relations)
    guarded(tag + ":relh", vg.visibility_relations_horizontal)
    feed(tag + ":ts", vg.time_series)
    feed(tag + ":tm", vg.timings)
    feed(tag + ":keys", sorted(k for k in vg.__dict__ if not k.startswith("_")))
    # replace the adjacency (with a non-trivial diagonal-free pattern)
    n = vg.N
    rng = np.random.RandomState(n)
    B = np.triu((rng.rand(n, n) < 0.5).astype(int), 1)
    B = B + B.T
    try:
        vg.adjacency = B
    except BaseException as exc:  # pylint: disable=broad-except
        feed(tag + ":set-exc", type(exc).__name__)
        return
    for name in ("retarded_degree", "advanced_degree",
                 "retarded_local_clustering", "advanced_local_clustering"):
        guarded(tag + ":B:" + name, getattr(vg, name))
    # weighted entries and self-loops in the stored adjacency
    C = B * rng.randint(1, 4, (n, n)) + np.diag(rng.randint(0, 3, n))
    try:
        vg.adjacency = C
    except BaseException as exc:  # pylint: disable=broad-except
        feed(tag + ":setC-exc", type(exc).__name__)
        return
    feed(tag + ":C:A", vg.adjacency)
    for name in ("retarded_degree", "advanced_degree",
                 "retarded_local_clustering", "advanced_local_clustering",
                 "boundary_corrected_degree"):
        guarded(tag + ":C:" + name, getattr(vg, name))


def library_level():
    rng = np.random.RandomState(7)
    for name, x in series_bank():
        n = len(x)
        measures(name + ":nvg", lambda: VisibilityGraph(x, silence_level=2))
        measures(name + ":hvg", lambda: VisibilityGraph(
            x, horizontal=True, silence_level=2))
        t = np.sort(rng.rand(n)) * 10
        measures(name + ":nvg-t", lambda: VisibilityGraph(
            x, timings=t, silence_level=2))
        xm = x.copy()
        xm[rng.rand(n) < 0.25] = np.nan
        measures(name + ":nvg-mv", lambda: VisibilityGraph(
            xm, missing_values=True, silence_level=2))
        measures(name + ":nvg-mv-t", lambda: VisibilityGraph(
            xm, timings=t, missing_values=True, silence_level=2))
        measures(name + ":nvg-nan-nomv", lambda: VisibilityGraph(
            xm, silence_level=2))
        measures(name + ":hvg-nan", lambda: VisibilityGraph(
            xm, horizontal=True, silence_level=2))
        # duplicated sampling times -> division by zero inside the kernel
        td = t.copy()
        td[n // 2] = td[n // 2 - 1]
        measures(name + ":nvg-dupt", lambda: VisibilityGraph(
            x, timings=td, silence_level=2))
        measures(name + ":nvg-dupt-mv", lambda: VisibilityGraph(
            xm, timings=td, missing_values=True, silence_level=2))
    for n in (0, 1, 2):
        x = np.arange(float(n))
        measures("short%d:nvg" % n, lambda: VisibilityGraph(
            x, silence_level=2))
        measures("short%d:hvg" % n, lambda: VisibilityGraph(
            x, horizontal=True, silence_level=2))
        measures("short%d:mv" % n, lambda: VisibilityGraph(
            x, missing_values=True, silence_level=2))


def kernel_level():
    rng = np.random.RandomState(99)
    f32 = np.float32
    for trial in range(60):
        n = int(rng.randint(0, 12))
        x = rng.randn(n).astype(f32)
        if trial % 3 == 0 and n:
            x = np.round(x).astype(f32)
        if trial % 5 == 0 and n:
            x[rng.rand(n) < 0.3] = np.nan
        t = np.sort(rng.rand(n)).astype(f32)
        if trial % 4 == 0 and n > 2:
            p = int(rng.randint(1, n))
            t[p] = t[p - 1]
        mv = np.isnan(x)
        for dn in (0, -1, 1, 2):           # also wrong N (too small/large)
            N = n + dn
            for shape in ((n, n), (max(n + dn, 0), max(n + dn, 0))):
                tag = "k%d:%d:%s" % (trial, dn, shape)
                A = np.zeros(shape, dtype=np.int8)
                guarded(tag + ":nomv", lambda: (
                    _visibility_relations_no_missingvalues(x, t, N, A), 0)[1])
                feed(tag + ":nomv:A", A)
                A = np.zeros(shape, dtype=np.int8)
                guarded(tag + ":mv", lambda: (
                    _visibility_relations_missingvalues(x, t, N, A, mv), 0)[1])
                feed(tag + ":mv:A", A)
                A = np.zeros(shape, dtype=np.int8)
                guarded(tag + ":h", lambda: (
                    _visibility_relations_horizontal(x, N, A), 0)[1])
                feed(tag + ":h:A", A)
        # short mask / short timings
        A = np.zeros((n, n), dtype=np.int8)
        guarded("k%d:shortmask" % trial, lambda: (
            _visibility_relations_missingvalues(x, t, n, A, mv[:n // 2]), 0)[1])
        feed("k%d:shortmask:A" % trial, A)
        A = np.zeros((n, n), dtype=np.int8)
        guarded("k%d:shortt" % trial, lambda: (
            _visibility_relations_no_missingvalues(x, t[:n // 2], n, A), 0)[1])
        feed("k%d:shortt:A" % trial, A)
        # pre-filled A (kernels only ever set entries)
        A = (rng.rand(n, n) < 0.2).astype(np.int8) * 3
        guarded("k%d:prefilled" % trial, lambda: (
            _visibility_relations_horizontal(x, n, A), 0)[1])
        feed("k%d:prefilled:A" % trial, A)

    for trial in range(60):
        n = int(rng.randint(0, 10))
        B = (rng.rand(n, n) < 0.6).astype(np.int8)
        if trial % 2 == 0:
            B = np.triu(B, 1)
            B = (B + B.T).astype(np.int8)
        if trial % 7 == 0 and n:
            B[rng.rand(n, n) < 0.2] = 2      # entries other than 0/1
        for dn in (0, -1, 1, 3):
            N = n + dn
            for normkind in range(4):
                if normkind == 0:
                    norm = rng.randint(0, 4, max(N, 0)).astype(float)
                elif normkind == 1:
                    norm = rng.randint(0, 4, n).astype(float)
                elif normkind == 2:
                    norm = np.where(rng.rand(n) < 0.3, np.nan,
                                    rng.randn(n))
                    norm[rng.rand(n) < 0.2] = -0.0
                else:
                    norm = np.full(max(N, 0), np.inf)
                for kname, kern in (("ret", _retarded_local_clustering),
                                    ("adv", _advanced_local_clustering)):
                    tag = "c%d:%d:%d:%s" % (trial, dn, normkind, kname)
                    out = np.full(len(norm), -7.0)
                    nn = norm.copy()
                    guarded(tag, lambda: (kern(N, B, nn, out), 0)[1])
                    feed(tag + ":out", out)
                    feed(tag + ":norm", nn)
                    # aliased norm / output
                    al = norm.copy()
                    guarded(tag + ":alias", lambda: (kern(N, B, al, al), 0)[1])
                    feed(tag + ":alias:out", al)
                    # short output
                    so = np.full(len(norm) // 2, -7.0)
                    guarded(tag + ":short", lambda: (
                        kern(N, B, norm.copy(), so), 0)[1])
                    feed(tag + ":short:out", so)


library_level()
kernel_level()
print("items", N_ITEMS)
print("digest", H.hexdigest())
