"""
Equivalence digest for the similarity-network (C09) mechanism of pyunicorn.

Run as:  PYTHONPATH=<worktree>/src /venv/bin/python equiv.py
Prints one sha256 digest; it must be identical on the pristine and on the
refactored tree.
"""
import hashlib
import io
import os
import sys
import tempfile
import contextlib

import numpy as np

#  the mutual information network may try to read / write a file in cwd
os.chdir(tempfile.mkdtemp(prefix="equiv_c09_"))

from pyunicorn.core import GeoGrid                                # noqa: E402
from pyunicorn.climate.climate_data import ClimateData            # noqa: E402
from pyunicorn.climate.climate_network import ClimateNetwork      # noqa: E402
from pyunicorn.climate.tsonis import TsonisClimateNetwork         # noqa: E402
from pyunicorn.climate.spearman import SpearmanClimateNetwork     # noqa: E402
from pyunicorn.climate.partial_correlation import \
    PartialCorrelationClimateNetwork                              # noqa: E402
from pyunicorn.climate.mutual_info import MutualInfoClimateNetwork  # noqa
from pyunicorn.climate.havlin import HavlinClimateNetwork         # noqa: E402
from pyunicorn.climate.hilbert import HilbertClimateNetwork       # noqa: E402
from pyunicorn.climate._ext.numerics import mutual_information    # noqa: E402

H = hashlib.sha256()
LOG = []


def put(tag, obj):
    """Feed one labelled result into the digest."""
    if isinstance(obj, np.ndarray):
        s = (f"{tag}|nd|{obj.dtype.str}|{obj.shape}|").encode() + \
            np.ascontiguousarray(obj).tobytes()
    elif isinstance(obj, np.generic):
        s = (f"{tag}|np|{obj.dtype.str}|").encode() + obj.tobytes()
    elif isinstance(obj, (tuple, list)):
        for k, o in enumerate(obj):
            put(f"{tag}[{k}]", o)
        s = f"{tag}|seq|{type(obj).__name__}|{len(obj)}".encode()
    elif obj is None or isinstance(obj, (bool, int, float, complex, str)):
        s = f"{tag}|py|{type(obj).__name__}|{obj!r}".encode()
    else:
        #  arbitrary objects (networks): the default repr holds an address
        s = f"{tag}|obj|{type(obj).__name__}".encode()
    H.update(s)
    LOG.append(hashlib.sha256(s).hexdigest()[:8] + " " + tag)


def attempt(tag, fn):
    """Call fn, record result or exception type + captured stdout."""
    out = io.StringIO()
    try:
        with contextlib.redirect_stdout(out):
            res = fn()
    except BaseException as e:  # pylint: disable=broad-except
        put(tag + ".exc", type(e).__name__)
        res = None
    else:
        put(tag + ".res", res)
    put(tag + ".out", out.getvalue())
    return res


def state(tag, net):
    """Record the observable state of a climate network."""
    put(tag + ".thr", getattr(net, "_threshold", "<unset>"))
    put(tag + ".thr()", net.threshold() if hasattr(net, "_threshold")
        else "<unset>")
    put(tag + ".nonlocal", net.non_local())
    put(tag + ".directed", net.directed)
    put(tag + ".N", net.N)
    put(tag + ".mut_clim", net._mut_clim)
    put(tag + ".adj", net.adjacency)
    put(tag + ".nlinks", net.n_links)
    put(tag + ".ld", net.link_density)
    put(tag + ".nwt", net.node_weight_type)
    put(tag + ".sil", net.silence_level)
    put(tag + ".cache_state", repr([x for x in net.__cache_state__()
                                    if isinstance(x, (int, str, bool))]))
    if hasattr(net, "_similarity_measure"):
        put(tag + ".sim", net._similarity_measure)
    else:
        put(tag + ".sim", "<deleted>")
    put(tag + ".str", str(net))
    put(tag + ".deg", net.degree())


def make_grid(N, T, rng):
    return GeoGrid(time_seq=np.arange(T, dtype=float),
                   lat_seq=rng.uniform(-80, 80, N),
                   lon_seq=rng.uniform(-180, 180, N), silence_level=2)


def make_data(N, T, rng, cycle=12):
    grid = make_grid(N, T, rng)
    obs = rng.standard_normal((T, N)).cumsum(axis=0) * 0.3 + \
        rng.standard_normal((T, N))
    return ClimateData(observable=obs, grid=grid, time_cycle=cycle,
                       silence_level=2)


# --------------------------------------------------------------------------
#  1. plain ClimateNetwork
# --------------------------------------------------------------------------
def sim_matrix(kind, N, rng):
    m = rng.uniform(-1, 1, (N, N))
    if kind == "sym":
        m = (m + m.T) / 2
    elif kind == "ties":
        m = np.round((m + m.T) / 2, 1)
    elif kind == "asym":
        pass
    elif kind == "const":
        m = np.full((N, N), 0.25)
    elif kind == "nan":
        m = (m + m.T) / 2
        m[0, 1] = m[1, 0] = np.nan
    elif kind == "int":
        m = rng.integers(-3, 4, (N, N))
    np.fill_diagonal(m, 1)
    return m


def plain_networks():
    rng = np.random.default_rng(20240901)
    case = 0
    for N in (2, 5, 9, 14):
        for kind in ("sym", "ties", "asym", "const", "nan", "int"):
            sim = sim_matrix(kind, N, rng)
            grid = make_grid(N, 7, rng)
            for non_local in (False, True):
                for directed in (False, True):
                    case += 1
                    tag = f"P{case}:{N}:{kind}:{non_local}:{directed}"
                    sim_before = sim.copy()
                    #  by threshold
                    thr = float(rng.uniform(0, 1))
                    net = attempt(tag + ".ctor_thr", lambda: ClimateNetwork(
                        grid=grid, similarity_measure=sim, threshold=thr,
                        non_local=non_local, directed=directed,
                        node_weight_type=rng.choice(
                            ["surface", "irrigation"]).item(),
                        silence_level=int(rng.integers(0, 3))))
                    if net is None:
                        continue
                    state(tag + ".s0", net)
                    for ld in (0.0, 0.05, 0.3, 0.5, 0.77, 1.0, 2.0):
                        attempt(f"{tag}.tfld{ld}", lambda:
                                net.threshold_from_link_density(ld))
                    for ld in (0.3, 0.9, 0.0):
                        attempt(f"{tag}.sld{ld}",
                                lambda: net.set_link_density(ld))
                        state(f"{tag}.sld{ld}.s", net)
                    for t in (0.0, 0.4, np.float32(0.6), 1.0, -0.5, 1):
                        attempt(f"{tag}.st{t!r}",
                                lambda: net.set_threshold(t))
                        state(f"{tag}.st{t!r}.s", net)
                    attempt(tag + ".snl", lambda:
                            net.set_non_local(not non_local))
                    state(tag + ".snl.s", net)
                    attempt(tag + ".snl2", lambda:
                            net.set_non_local(not non_local))
                    state(tag + ".snl2.s", net)
                    attempt(tag + ".regen", net._regenerate_network)
                    state(tag + ".regen.s", net)
                    attempt(tag + ".ldf", lambda:
                            net.link_density_function(4))
                    attempt(tag + ".cta", lambda:
                            net._calculate_threshold_adjacency(
                                net.similarity_measure(), 0.3))
                    attempt(tag + ".cnla", lambda:
                            net._calculate_non_local_adjacency(
                                net.similarity_measure(), 0.3, a=30,
                                d_min=0.2))
                    #  similarity measure handed out is the stored object
                    put(tag + ".alias", net.similarity_measure()
                        is net._similarity_measure)
                    put(tag + ".input_untouched",
                        bool(np.array_equal(sim, sim_before,
                                            equal_nan=True)))
                    #  by link density
                    ld = float(rng.uniform(0, 1))
                    net2 = attempt(tag + ".ctor_ld", lambda: ClimateNetwork(
                        grid=grid, similarity_measure=sim, link_density=ld,
                        non_local=non_local, directed=directed,
                        silence_level=2))
                    if net2 is not None:
                        state(tag + ".ld.s0", net2)
                        attempt(tag + ".ld.regen", net2._regenerate_network)
                        state(tag + ".ld.regen.s", net2)

    #  error behaviour
    grid = make_grid(6, 5, rng)
    sim = sim_matrix("sym", 6, rng)
    net = ClimateNetwork(grid=grid, similarity_measure=sim, threshold=0.3,
                         silence_level=2)
    for bad in (-1.0, 1.5, 3.0, float("nan"), "a", None, [0.5],
                np.array([0.2, 0.3]), float("inf")):
        attempt(f"E.tfld.{bad!r}",
                lambda: net.threshold_from_link_density(bad))
        attempt(f"E.sld.{bad!r}", lambda: net.set_link_density(bad))
        state(f"E.sld.{bad!r}.s", net)
    for bad in ("a", None, [0.5], np.array([0.2, 0.3]), float("nan"),
                np.full((6, 6), 0.4), 1j):
        attempt(f"E.st.{bad!r}", lambda: net.set_threshold(bad))
        put(f"E.st.{bad!r}.thr", repr(net._threshold))
        put(f"E.st.{bad!r}.adj", net.adjacency)
    #  neither threshold nor link density
    attempt("E.ctor_none", lambda: ClimateNetwork(
        grid=grid, similarity_measure=sim, silence_level=2))
    #  wrong shapes
    attempt("E.ctor_shape", lambda: ClimateNetwork(
        grid=grid, similarity_measure=sim[:4, :4], threshold=0.2,
        silence_level=2))
    attempt("E.ctor_shape_ld", lambda: ClimateNetwork(
        grid=grid, similarity_measure=sim[:4, :4], link_density=0.2,
        silence_level=2))
    attempt("E.ctor_nonlocal_shape", lambda: ClimateNetwork(
        grid=grid, similarity_measure=sim[:4, :4], threshold=0.2,
        non_local=True, silence_level=2))
    #  deleted similarity measure
    net = ClimateNetwork(grid=grid, similarity_measure=sim, threshold=0.3,
                         silence_level=2)
    del net._similarity_measure
    attempt("E.del.st", lambda: net.set_threshold(0.9))
    put("E.del.st.thr", repr(net._threshold))
    put("E.del.st.adj", net.adjacency)
    attempt("E.del.sld", lambda: net.set_link_density(0.2))
    put("E.del.sld.thr", repr(net._threshold))
    attempt("E.del.tfld", lambda: net.threshold_from_link_density(0.2))
    attempt("E.del.regen", net._regenerate_network)
    put("E.del.regen.thr", repr(net._threshold))
    put("E.del.regen.mut", net._mut_clim)
    #  Small test network + verbose output
    net = ClimateNetwork.SmallTestNetwork()
    net.silence_level = 0
    attempt("V.sld", lambda: net.set_link_density(0.7))
    state("V.sld.s", net)
    attempt("V.snl", lambda: net.set_non_local(True))
    state("V.snl.s", net)
    attempt("V.regen", net._regenerate_network)
    state("V.regen.s", net)


# --------------------------------------------------------------------------
#  2. subclasses
# --------------------------------------------------------------------------
def sub_state(tag, net):
    state(tag, net)
    for name in ("_winter_only", "_max_delay", "_correlation_lag",
                 "_coherence_phase", "_prescribed_link_density"):
        if hasattr(net, name):
            put(f"{tag}.{name}", getattr(net, name))


def subclass_networks():
    rng = np.random.default_rng(77)
    case = 0
    for (N, T) in ((4, 36), (7, 48), (10, 60)):
        data = make_data(N, T, rng)
        anomaly_before = data.anomaly().copy()
        for cls in (TsonisClimateNetwork, SpearmanClimateNetwork,
                    PartialCorrelationClimateNetwork,
                    MutualInfoClimateNetwork):
            for winter in (True, False):
                for kw in ({"threshold": 0.3}, {"link_density": 0.4},
                           {"threshold": 0.1, "non_local": True}, {}):
                    case += 1
                    tag = f"S{case}:{cls.__name__}:{N}:{winter}:{sorted(kw)}"
                    sil = int(rng.integers(0, 3))
                    net = attempt(tag + ".ctor", lambda: cls(
                        data=data, winter_only=winter, silence_level=sil,
                        **kw))
                    if net is None:
                        continue
                    sub_state(tag + ".s0", net)
                    if cls is MutualInfoClimateNetwork:
                        attempt(tag + ".swo", lambda:
                                net.set_winter_only(not winter, dump=False))
                    else:
                        attempt(tag + ".swo", lambda:
                                net.set_winter_only(not winter))
                    sub_state(tag + ".swo.s", net)
                    put(tag + ".wo()", net.winter_only())
                    attempt(tag + ".sld", lambda: net.set_link_density(0.25))
                    sub_state(tag + ".sld.s", net)
                    if cls is MutualInfoClimateNetwork:
                        attempt(tag + ".swo2", lambda:
                                net.set_winter_only(winter, dump=False))
                        attempt(tag + ".pswo", lambda:
                                net._set_winter_only(not winter))
                        attempt(tag + ".csm", lambda:
                                net.calculate_similarity_measure(
                                    data.anomaly()))
                        attempt(tag + ".ccmi", lambda:
                                net._cython_calculate_mutual_information(
                                    data.anomaly(), n_bins=7))
                    else:
                        attempt(tag + ".swo2", lambda:
                                net.set_winter_only(winter))
                        attempt(tag + ".pswo", lambda:
                                net._set_winter_only(not winter))
                        attempt(tag + ".csm", lambda:
                                net.calculate_similarity_measure(
                                    data.anomaly()))
                        attempt(tag + ".corr", net.correlation)
                    sub_state(tag + ".swo2.s", net)
                    attempt(tag + ".regen", net._regenerate_network)
                    sub_state(tag + ".regen.s", net)
                    attempt(tag + ".snl", lambda: net.set_non_local(True))
                    sub_state(tag + ".snl.s", net)
        for md in (2, 5):
            for kw in ({"threshold": 2.5}, {"link_density": 0.35},
                       {"threshold": 2.0, "non_local": True}, {}):
                case += 1
                tag = f"S{case}:Havlin:{N}:{md}:{sorted(kw)}"
                net = attempt(tag + ".ctor", lambda: HavlinClimateNetwork(
                    data=data, max_delay=md, silence_level=2, **kw))
                if net is None:
                    continue
                sub_state(tag + ".s0", net)
                attempt(tag + ".smd", lambda: net.set_max_delay(md + 2))
                sub_state(tag + ".smd.s", net)
                put(tag + ".gmd", net.get_max_delay())
                put(tag + ".cs", net.correlation_strength())
                put(tag + ".cl", net.correlation_lag())
                attempt(tag + ".psmd", lambda: net._set_max_delay(md + 1))
                sub_state(tag + ".psmd.s", net)
                attempt(tag + ".sld", lambda: net.set_link_density(0.5))
                sub_state(tag + ".sld.s", net)
                attempt(tag + ".smd2", lambda: net.set_max_delay(md))
                sub_state(tag + ".smd2.s", net)
        for directed in (True, False):
            for kw in ({"threshold": 0.3}, {"link_density": 0.45},
                       {"threshold": 0.2, "non_local": True}, {}):
                case += 1
                tag = f"S{case}:Hilbert:{N}:{directed}:{sorted(kw)}"
                sil = int(rng.integers(0, 3))
                net = attempt(tag + ".ctor", lambda: HilbertClimateNetwork(
                    data=data, directed=directed, silence_level=sil, **kw))
                if net is None:
                    continue
                sub_state(tag + ".s0", net)
                attempt(tag + ".sd", lambda: net.set_directed(not directed))
                sub_state(tag + ".sd.s", net)
                put(tag + ".coh", net.coherence())
                put(tag + ".ps", net.phase_shift())
                attempt(tag + ".sld", lambda: net.set_link_density(0.3))
                sub_state(tag + ".sld.s", net)
                attempt(tag + ".psd1", lambda: net._set_directed(
                    True, calculate_coherence=False))
                sub_state(tag + ".psd1.s", net)
                attempt(tag + ".psd0", lambda: net._set_directed(
                    False, calculate_coherence=False))
                sub_state(tag + ".psd0.s", net)
                attempt(tag + ".psd2", lambda: net._set_directed(False))
                sub_state(tag + ".psd2.s", net)
                attempt(tag + ".sd2", lambda: net.set_directed(directed))
                sub_state(tag + ".sd2.s", net)
                attempt(tag + ".chc", lambda:
                        net._calculate_hilbert_correlation(data.anomaly()))
        put(f"S.anomaly_untouched:{N}",
            bool(np.array_equal(data.anomaly(), anomaly_before)))


# --------------------------------------------------------------------------
#  3. compiled mutual information kernel
# --------------------------------------------------------------------------
def mi_kernel():
    rng = np.random.default_rng(4242)
    for N in (1, 2, 3, 8, 17):
        for n_samples in (1, 5, 40, 129):
            for n_bins in (1, 2, 7, 32):
                a = rng.standard_normal((N, n_samples)).astype("float32")
                if N > 2:
                    a[2] = a[0]              # identical series
                if N > 3:
                    a[3] = 0.5               # constant series
                rmin = float(a.min())
                rmax = float(a.max())
                scaling = 1. / (rmax - rmin) if rmax > rmin else 1.0
                before = a.copy()
                attempt(f"K:{N}:{n_samples}:{n_bins}", lambda:
                        mutual_information(a, n_samples, N, n_bins, scaling,
                                           rmin))
                put(f"K:{N}:{n_samples}:{n_bins}.untouched",
                    bool(np.array_equal(a, before)))
    #  larger, skewed and heavily tied inputs
    for (N, n_samples, n_bins) in ((40, 600, 32), (25, 1000, 5),
                                   (12, 77, 64)):
        a = rng.gamma(1.5, 2.0, (N, n_samples)).astype("float32")
        a[1::3] = np.round(a[1::3])
        rmin = float(a.min())
        scaling = 1. / (float(a.max()) - rmin)
        attempt(f"KL:{N}:{n_samples}:{n_bins}", lambda:
                mutual_information(a, n_samples, N, n_bins, scaling, rmin))
        #  range wider than the data (no sample reaches the last bin)
        attempt(f"KW:{N}:{n_samples}:{n_bins}", lambda:
                mutual_information(a, n_samples, N, n_bins, scaling / 3,
                                   rmin - 1.0))
    a = rng.standard_normal((3, 4)).astype("float32")
    attempt("K.bins0", lambda: mutual_information(a, 4, 3, 0, 1.0, 0.0))
    attempt("K.bins-2", lambda: mutual_information(a, 4, 3, -2, 1.0, 0.0))
    attempt("K.none", lambda: mutual_information(None, 4, 3, 2, 1.0, 0.0))
    attempt("K.f64", lambda: mutual_information(
        a.astype("float64"), 4, 3, 2, 1.0, 0.0))
    attempt("K.fortran", lambda: mutual_information(
        np.asfortranarray(a), 4, 3, 2, 1.0, 0.0))
    attempt("K.1d", lambda: mutual_information(a[0], 4, 1, 2, 1.0, 0.0))
    attempt("K.strbins", lambda: mutual_information(a, 4, 3, "x", 1.0, 0.0))
    #  sub-unit-range scaling with samples reaching rescaled == 1
    a = np.array([[0.0, 1.0, 0.5, 0.25], [1.0, 0.0, 0.5, 0.75],
                  [0.0, 0.0, 1.0, 1.0]], dtype="float32")
    attempt("K.edge", lambda: mutual_information(a, 4, 3, 4, 1.0, 0.0))


plain_networks()
subclass_networks()
mi_kernel()

if len(sys.argv) > 1 and sys.argv[1] == "--log":
    print("\n".join(LOG))
print(len(LOG), H.hexdigest())
