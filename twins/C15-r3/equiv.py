"""
Equivalence digest for the surrogate mechanism of pyunicorn (property C15).

Run as:  PYTHONPATH=<worktree>/src /venv/bin/python equiv.py
Prints one sha256 digest over all results, object states and exception types.
"""
import hashlib
import io
import random as pyrandom
import contextlib

import numpy as np

from pyunicorn.timeseries.surrogates import Surrogates
from pyunicorn.timeseries.recurrence_plot import RecurrencePlot
from pyunicorn.timeseries._ext import numerics as nx
from pyunicorn.core._ext.types import ADJ, DEGREE, DFIELD, LAG, NODE

H = hashlib.sha256()
LOG = []


def put(tag, obj):
    """Feed a labelled object into the digest, exactly (no rounding)."""
    if isinstance(obj, np.ndarray):
        rep = (f"nd:{obj.dtype.str}:{obj.shape}:"
               f"{obj.flags['C_CONTIGUOUS']}:").encode() + \
            np.ascontiguousarray(obj).tobytes()
    elif isinstance(obj, tuple) and any(
            isinstance(o, np.ndarray) for o in obj):
        for n, o in enumerate(obj):
            put(f"{tag}[{n}]", o)
        rep = f"tuple:{len(obj)}".encode()
    else:
        rep = repr(obj).encode()
    H.update(tag.encode() + b"=" + rep + b";")
    LOG.append((tag, hashlib.sha256(rep).hexdigest()[:12]))


def attempt(tag, fn):
    """Call fn, digest the result or the exception type."""
    out = io.StringIO()
    try:
        with contextlib.redirect_stdout(out):
            res = fn()
    except BaseException as e:  # pylint: disable=broad-except
        put(tag + ":exc", type(e).__name__)
        put(tag + ":exc_mro", [c.__name__ for c in type(e).__mro__])
        res = None
    else:
        put(tag, res)
    put(tag + ":stdout", out.getvalue())
    return res


_ORIG_SEED = pyrandom.seed
SEED_CALLS = []


def _det_seed(*args, **kwargs):
    """
    `random.seed()` without arguments (as issued by the recurrence-plot twin
    walk) would draw entropy from the OS; make it deterministic, and record
    each such call so that it is part of the digest.
    """
    SEED_CALLS.append((args, sorted(kwargs.items())))
    if not args and not kwargs:
        return _ORIG_SEED(424242)
    return _ORIG_SEED(*args, **kwargs)


pyrandom.seed = _det_seed


def reseed(n):
    np.random.seed(n)
    pyrandom.seed(n)


def state(tag, s):
    """Digest the complete instance dictionary (keys in creation order)."""
    d = vars(s)
    put(tag + ":keys", list(d))
    for k, v in d.items():
        put(f"{tag}:{k}", v)
    put(tag + ":cache_state", s.__cache_state__())
    put(tag + ":hash_stable", hash(s) == hash(s))


def make_data(kind, N, T, seed):
    rng = np.random.RandomState(seed)
    if kind == "normal":
        return rng.standard_normal((N, T))
    if kind == "ar1":
        x = np.zeros((N, T))
        e = rng.standard_normal((N, T))
        for t in range(1, T):
            x[:, t] = .8 * x[:, t-1] + e[:, t]
        return x
    if kind == "ties":
        return rng.randint(0, 4, size=(N, T)).astype(float)
    if kind == "int":
        return rng.randint(-5, 6, size=(N, T))
    if kind == "float32":
        return rng.standard_normal((N, T)).astype(np.float32)
    if kind == "const":
        x = rng.standard_normal((N, T))
        x[0, :] = 3.5
        return x
    if kind == "nan":
        x = rng.standard_normal((N, T))
        x[-1, T // 2] = np.nan
        return x
    if kind == "periodic":
        t = np.arange(T)
        return np.array([np.round(np.sin(2*np.pi*t/8 + i), 6)
                         for i in range(N)])
    if kind == "fortran":
        return np.asfortranarray(rng.standard_normal((N, T)))
    raise ValueError(kind)


# ---------------------------------------------------------------------------
# 1. class level facts
# ---------------------------------------------------------------------------
put("prop:type", type(Surrogates.__dict__["embedding"]).__name__)
put("prop:doc", Surrogates.embedding.__doc__)
put("prop:has_set", Surrogates.embedding.fset is not None)
put("prop:has_del", Surrogates.embedding.fdel is None)

# ---------------------------------------------------------------------------
# 2. construction, state, embedding property, mutation counters
# ---------------------------------------------------------------------------
for kind, N, T in [("normal", 3, 40), ("int", 2, 16), ("float32", 2, 17),
                   ("const", 3, 25), ("fortran", 2, 12), ("normal", 0, 5),
                   ("normal", 1, 1)]:
    tag = f"ctor[{kind},{N},{T}]"
    data = make_data(kind, N, T, 11)
    s = attempt(tag + ":verbose", lambda: str(Surrogates(data.copy())))
    s = Surrogates(data.copy(), silence_level=2)
    state(tag + ":s0", s)
    put(tag + ":emb0", s.embedding)
    # setter: copies, converts, bumps the counter
    e = np.arange(24, dtype=np.int32).reshape(2, 4, 3)
    attempt(tag + ":set1", lambda: setattr(s, "embedding", e))
    state(tag + ":s1", s)
    put(tag + ":alias", s.embedding is e)
    attempt(tag + ":set2", lambda: setattr(s, "embedding", e[:, ::2, :]))
    state(tag + ":s2", s)
    # failing setter: complex cannot be cast 'same_kind' to float64
    attempt(tag + ":setbad",
            lambda: setattr(s, "embedding", np.ones((1, 2, 2), complex)))
    state(tag + ":s3", s)
    attempt(tag + ":setbad2", lambda: setattr(s, "embedding", [[1., 2.]]))
    state(tag + ":s4", s)
    attempt(tag + ":del", lambda: delattr(s, "embedding"))
    # normalisation (raises for integer data part-way, see state after)
    attempt(tag + ":fft_a", s.original_data_fft)
    attempt(tag + ":norm", s.normalize_original_data)
    state(tag + ":s5", s)
    attempt(tag + ":fft_b", s.original_data_fft)
    attempt(tag + ":norm2", s.normalize_original_data)
    state(tag + ":s6", s)
    attempt(tag + ":fft_c", s.original_data_fft)

# unwritable data: normalisation fails in the first row
d = make_data("normal", 3, 9, 5)
d.setflags(write=False)
s = Surrogates(d, silence_level=2)
attempt("ro:fft", s.original_data_fft)
attempt("ro:norm", s.normalize_original_data)
state("ro:state", s)
attempt("ro:cns", lambda: (reseed(1), s.correlated_noise_surrogates())[1])

# ---------------------------------------------------------------------------
# 3. shuffle / Fourier / AAFT / refined AAFT surrogates
# ---------------------------------------------------------------------------
for kind, N, T in [("normal", 4, 64), ("ar1", 3, 51), ("ties", 3, 30),
                   ("int", 2, 20), ("float32", 3, 33), ("const", 2, 16),
                   ("nan", 2, 18), ("fortran", 3, 21), ("normal", 1, 2),
                   ("normal", 2, 1), ("normal", 0, 8)]:
    tag = f"sur[{kind},{N},{T}]"
    data = make_data(kind, N, T, 23)
    for level in (2, 1):
        with contextlib.redirect_stdout(io.StringIO()):
            s = Surrogates(data.copy(), silence_level=level)
        reseed(101)
        attempt(f"{tag}:{level}:wn", s.white_noise_surrogates)
        attempt(f"{tag}:{level}:cn1", s.correlated_noise_surrogates)
        attempt(f"{tag}:{level}:cn2", s.correlated_noise_surrogates)
        put(f"{tag}:{level}:fft_intact",
            attempt(f"{tag}:{level}:fft", s.original_data_fft))
        attempt(f"{tag}:{level}:aaft1", s.AAFT_surrogates)
        attempt(f"{tag}:{level}:aaft2", s.AAFT_surrogates)
        for n_it in (0, 1, 3):
            for out in ("true_amplitudes", "true_spectrum", "both", "other",
                        None, 7):
                attempt(f"{tag}:{level}:raaft[{n_it},{out}]",
                        lambda: s.refined_AAFT_surrogates(n_it, output=out))
        attempt(f"{tag}:{level}:raaft_default",
                lambda: s.refined_AAFT_surrogates(2))
        attempt(f"{tag}:{level}:raaft_badn",
                lambda: s.refined_AAFT_surrogates(1.5))
        attempt(f"{tag}:{level}:raaft_neg",
                lambda: s.refined_AAFT_surrogates(-2, output="both"))
        put(f"{tag}:{level}:data_intact", s.original_data)
        attempt(f"{tag}:{level}:norm", s.normalize_original_data)
        attempt(f"{tag}:{level}:cn3", s.correlated_noise_surrogates)
        attempt(f"{tag}:{level}:aaft3", s.AAFT_surrogates)
        attempt(f"{tag}:{level}:raaft3",
                lambda: s.refined_AAFT_surrogates(2, "both"))
        state(f"{tag}:{level}:state", s)
        put(f"{tag}:{level}:rng_np", np.random.random())
        put(f"{tag}:{level}:rng_py", pyrandom.random())

# result of AAFT must not alias anything kept by the object
s = Surrogates(make_data("normal", 2, 10, 3), silence_level=2)
reseed(5)
a = s.AAFT_surrogates()
b = s.refined_AAFT_surrogates(2, "both")
put("alias:aaft", [np.shares_memory(a, s.original_data),
                   np.shares_memory(b[0], s.original_data),
                   np.shares_memory(b[1], s.original_data),
                   np.shares_memory(b[0], b[1]),
                   np.shares_memory(s.correlated_noise_surrogates(),
                                    s.original_data_fft())])

# ---------------------------------------------------------------------------
# 4. twins and twin surrogates (Surrogates)
# ---------------------------------------------------------------------------
for kind, N, T, dim, delay, thr, md in [
        ("periodic", 3, 80, 2, 2, .05, 7), ("periodic", 2, 60, 1, 1, .01, 3),
        ("periodic", 2, 50, 3, 1, .3, 0), ("ties", 3, 40, 1, 1, .5, 2),
        ("ties", 2, 35, 2, 1, 1.0, 5), ("normal", 2, 30, 2, 1, .7, 4),
        ("nan", 2, 24, 2, 1, .8, 2), ("const", 2, 20, 1, 1, .1, 1),
        ("normal", 2, 12, 2, 1, 100., 2), ("normal", 2, 12, 2, 1, 0., 20),
        ("int", 2, 20, 2, 2, 1.5, 3), ("normal", 1, 3, 2, 1, .5, 7),
        ("normal", 2, 6, 3, 3, .5, 1), ("normal", 0, 9, 2, 1, .5, 1),
        ("periodic", 2, 40, 2, 1, .05, -3)]:
    tag = f"tw[{kind},{N},{T},{dim},{delay},{thr},{md}]"
    data = make_data(kind, N, T, 31)
    for level in (2, 1):
        with contextlib.redirect_stdout(io.StringIO()):
            s = Surrogates(data.copy(), silence_level=level)
        reseed(77)
        attempt(f"{tag}:{level}:ts1",
                lambda: s.twin_surrogates(dim, delay, thr, md))
        state(f"{tag}:{level}:st1", s)
        attempt(f"{tag}:{level}:twins", lambda: s.twins(thr, md))
        attempt(f"{tag}:{level}:twins_kw",
                lambda: s.twins(threshold=thr, min_dist=md))
        attempt(f"{tag}:{level}:ts2",
                lambda: s.twin_surrogates(dim, delay, thr, md))
        attempt(f"{tag}:{level}:ts3",
                lambda: s.twin_surrogates(dim, delay, thr))
        attempt(f"{tag}:{level}:norm", s.normalize_original_data)
        attempt(f"{tag}:{level}:ts4",
                lambda: s.twin_surrogates(dim, delay, thr, md))
        state(f"{tag}:{level}:st2", s)
        put(f"{tag}:{level}:rng_py", pyrandom.random())
        put(f"{tag}:{level}:rng_np", np.random.random())

# twins() before any embedding was set / with odd embeddings
s = Surrogates(make_data("normal", 2, 10, 3), silence_level=2)
attempt("tw:noemb", lambda: s.twins(.5))
s.embedding = np.zeros((2, 5))
attempt("tw:2d", lambda: s.twins(.5))
s.embedding = np.zeros((2, 5, 2, 1))
attempt("tw:4d", lambda: s.twins(.5))
s.embedding = np.zeros((2, 0, 2))
attempt("tw:empty", lambda: s.twins(.5, 0))
attempt("tw:badarg", lambda: s.twins("x"))
attempt("tw:badmd", lambda: s.twins(.5, 1.5))

# ---------------------------------------------------------------------------
# 5. the compiled kernels directly
# ---------------------------------------------------------------------------
for seed, N, T, D, thr, md in [(1, 2, 30, 2, .6, 3), (2, 1, 25, 1, .2, 0),
                               (3, 3, 18, 3, 1.2, 5), (4, 2, 10, 2, 9., 1),
                               (5, 2, 1, 1, .5, 0), (6, 2, 0, 2, .5, 0),
                               (7, 0, 4, 2, .5, 0), (8, 2, 16, 2, -1., 2),
                               (9, 2, 14, 0, .5, 1)]:
    rng = np.random.RandomState(seed)
    emb = np.round(rng.standard_normal((N, T, D)), 1)
    tag = f"k:twins_s[{seed}]"
    R = np.full((T, T), 5, dtype=ADJ)
    nR = np.full(T, 9, dtype=DEGREE)
    tw = []
    attempt(tag, lambda: nx._twins_s(N, T, D, thr, md, emb, R, nR, tw))
    put(tag + ":R", R)
    put(tag + ":nR", nR)
    put(tag + ":tw", tw)
    # pre-populated output list and NaN entries
    tw2 = [["x"]] if N == 0 else []
    emb2 = emb.copy()
    if emb2.size:
        emb2.flat[emb2.size // 2] = np.nan
    attempt(tag + ":nan",
            lambda: nx._twins_s(N, T, D, thr, md, emb2, R, nR, tw2))
    put(tag + ":nan:R", R)
    put(tag + ":nan:nR", nR)
    put(tag + ":nan:tw", tw2)
    orig = rng.standard_normal((N, T + 3))
    for rs in (0, 1, 2):
        pyrandom.seed(rs)
        attempt(f"{tag}:walk[{rs}]",
                lambda: nx._twin_surrogates_s(N, T, tw, orig))
        put(f"{tag}:walk[{rs}]:rng", pyrandom.random())

# error paths of the kernels
R = np.ones((4, 4), dtype=ADJ)
nR = np.ones(4, dtype=DEGREE)
emb = np.zeros((2, 4, 2))
tw = []
attempt("k:err:short_R", lambda: nx._twins_s(
    2, 4, 2, .5, 0, emb, np.ones((3, 3), dtype=ADJ), nR, tw))
put("k:err:short_R:tw", tw)
tw = []
attempt("k:err:short_nR", lambda: nx._twins_s(
    2, 4, 2, .5, 0, emb, R, np.ones(2, dtype=DEGREE), tw))
put("k:err:short_nR:tw", tw)
tw = []
attempt("k:err:short_emb", lambda: nx._twins_s(
    2, 5, 2, .5, 0, emb, np.ones((5, 5), dtype=ADJ),
    np.ones(5, dtype=DEGREE), tw))
put("k:err:short_emb:tw", tw)
attempt("k:err:notlist", lambda: nx._twins_s(
    1, 4, 2, .5, 0, emb, R, nR, None))
attempt("k:err:tuple", lambda: nx._twins_s(
    1, 4, 2, .5, 0, emb, R, nR, ()))
attempt("k:err:dtype", lambda: nx._twins_s(
    1, 4, 2, .5, 0, emb.astype(np.float32), R, nR, []))
pyrandom.seed(3)
attempt("k:err:walk_short", lambda: nx._twin_surrogates_s(
    2, 4, [[[], [], [], []]], np.zeros((2, 4))))
attempt("k:err:walk_short2", lambda: nx._twin_surrogates_s(
    1, 4, [[[], []]], np.zeros((1, 4))))
attempt("k:err:walk_badtwin", lambda: nx._twin_surrogates_s(
    1, 3, [[["a"], ["a"], ["a"]]], np.zeros((1, 3))))
attempt("k:err:walk_none", lambda: nx._twin_surrogates_s(
    1, 3, [[None, None, None]], np.zeros((1, 3))))
attempt("k:err:walk_data", lambda: nx._twin_surrogates_s(
    1, 3, [[[], [], []]], np.zeros((1, 2))))
attempt("k:err:walk_float", lambda: nx._twin_surrogates_s(
    1, 3, [[[1.0], [0.5], [2]]], np.arange(3.)[None, :]))
attempt("k:err:walk_far", lambda: nx._twin_surrogates_s(
    1, 3, [[[7], [9], [8]]], np.arange(3.)[None, :]))
attempt("k:err:walk_neg", lambda: nx._twin_surrogates_s(
    1, 3, [[[-5], [-5], [-5]]], np.arange(3.)[None, :]))
put("k:err:rng", pyrandom.random())

# ---------------------------------------------------------------------------
# 6. recurrence-plot based twins and twin surrogates
# ---------------------------------------------------------------------------
for kind, T, dim, tau, kw, md, ns in [
        ("periodic", 60, 2, 1, dict(threshold=.05), 7, 2),
        ("periodic", 48, 1, 1, dict(threshold=.01), 0, 3),
        ("ties", 40, 1, 1, dict(threshold=.5), 2, 1),
        ("ties", 36, 2, 2, dict(recurrence_rate=.2), 3, 2),
        ("normal", 30, 2, 1, dict(threshold=.9, metric="euclidean"), 4, 2),
        ("nan", 24, 2, 1, dict(threshold=.8), 1, 1),
        ("normal", 12, 1, 1, dict(threshold=50.), 2, 0),
        ("normal", 9, 1, 1, dict(threshold=1e-9), 1, 2),
        ("periodic", 40, 2, 1, dict(threshold=.05), -2, 1)]:
    tag = f"rp[{kind},{T},{dim},{tau},{sorted(kw.items())},{md},{ns}]"
    x = make_data(kind, 2, T, 41)[-1]
    for level in (2, 1):
        rp = attempt(tag + f":{level}:ctor", lambda: str(RecurrencePlot(
            x, dim=dim, tau=tau, silence_level=level, **kw)))
        rp = RecurrencePlot(x, dim=dim, tau=tau, silence_level=2, **kw)
        rp.silence_level = level
        attempt(f"{tag}:{level}:twins", lambda: rp.twins(md))
        pyrandom.seed(9)
        np.random.seed(9)
        res = attempt(f"{tag}:{level}:ts",
                      lambda: rp.twin_surrogates(ns, md))
        attempt(f"{tag}:{level}:ts_again",
                lambda: rp.twin_surrogates(n_surrogates=ns, min_dist=md))
        attempt(f"{tag}:{level}:ts_default", rp.twin_surrogates)
        put(f"{tag}:{level}:emb", rp.embedding)
        put(f"{tag}:{level}:R", rp.recurrence_matrix())

for seed, T, md in [(1, 20, 2), (2, 12, 0), (3, 1, 0), (4, 0, 0),
                    (5, 15, 30)]:
    rng = np.random.RandomState(seed)
    A = (rng.random_sample((T, T)) < .5).astype(LAG)
    A = np.maximum(A, A.T)
    if T > 4:
        A[3] = A[T-1]
        A[:, 3] = A[:, T-1]
        A[3, 3] = A[T-1, T-1] = A[3, T-1] = A[T-1, 3] = 1
    nR = A.sum(axis=0).astype(NODE)
    tw = []
    attempt(f"k:twins_r[{seed}]", lambda: nx._twins_r(md, T, A, nR, tw))
    put(f"k:twins_r[{seed}]:tw", tw)
    emb = rng.standard_normal((T, 2))
    pyrandom.seed(seed)
    attempt(f"k:walk_r[{seed}]",
            lambda: nx._twin_surrogates_r(2, T, 2, tw, emb))
attempt("k:walk_r:short", lambda: nx._twin_surrogates_r(
    1, 3, 1, [[], []], np.zeros((3, 1))))
attempt("k:walk_r:bad", lambda: nx._twin_surrogates_r(
    1, 3, 1, [["a"], ["a"], ["a"]], np.zeros((3, 1))))
attempt("k:walk_r:dim", lambda: nx._twin_surrogates_r(
    1, 3, 2, [[], [], []], np.zeros((3, 1))))
attempt("k:twins_r:short", lambda: nx._twins_r(
    0, 4, np.ones((3, 3), dtype=LAG), np.full(4, 3, dtype=NODE), []))
attempt("k:twins_r:none", lambda: nx._twins_r(
    0, 2, np.ones((2, 2), dtype=LAG), np.full(2, 2, dtype=NODE), None))

put("seed_calls", SEED_CALLS)
print("entries", len(LOG))
print("digest", H.hexdigest())
if __import__("os").environ.get("EQUIV_VERBOSE"):
    for t, h in LOG:
        print(h, t)
