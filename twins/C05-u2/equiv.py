"""
Equivalence digest for property C05 (all representations of a network agree
and survive save/load).

Run as:  PYTHONPATH=<worktree>/src /venv/bin/python equiv.py

Builds networks from dense / sparse adjacency matrices, edge lists, igraph
objects, copies and save/load round trips (Network, SpatialNetwork,
GeoNetwork), records the complete observable state of every resulting object
(and the type of every raised exception, together with the object state left
behind by a failed call) and prints one sha256 digest.
"""
import contextlib
import hashlib
import io
import os
import shutil
import sys
import tempfile
import warnings

import numpy as np
import scipy.sparse as sp
import igraph

from pyunicorn.core.network import Network, NetworkError, nz_coords
from pyunicorn.core.grid import Grid
from pyunicorn.core.geo_grid import GeoGrid
from pyunicorn.core.spatial_network import SpatialNetwork
from pyunicorn.core.geo_network import GeoNetwork

warnings.simplefilter("ignore")

RECORDS = []


def rec(*items):
    RECORDS.append(repr(items))


def arr(a):
    if a is None:
        return None
    a = np.asarray(a)
    return (str(a.dtype), a.shape, hashlib.sha256(
        np.ascontiguousarray(a).tobytes()).hexdigest())


def fl(x):
    """full precision repr of a scalar together with its type"""
    return (type(x).__name__, repr(x), float(x).hex()
            if isinstance(x, (int, float, np.floating, np.integer))
            else None)


def graph_state(g):
    if g is None:
        return None
    return (g.vcount(), g.ecount(), g.is_directed(), g.get_edgelist(),
            sorted(g.vs.attribute_names()),
            [(k, repr(g.vs[k])) for k in sorted(g.vs.attribute_names())],
            sorted(g.es.attribute_names()),
            [(k, repr(g.es[k])) for k in sorted(g.es.attribute_names())])


def snapshot(net):
    """everything observable about the representations of a network"""
    A = net.sp_A
    if A is None:
        sa = None
    else:
        sa = (type(A).__name__, str(A.dtype), A.shape,
              arr(A.toarray()) if A.shape[0] < 5000 else None,
              arr(A.indices), arr(A.indptr), arr(A.data))
    out = [type(net).__name__, net.directed, net.silence_level,
           fl(net.N), fl(net.n_links), fl(net.link_density),
           repr(net.sp_dtype), sa, graph_state(net.graph),
           arr(net._node_weights), fl(net.mean_node_weight),
           fl(net.total_node_weight),
           net._mut_A, net._mut_nw, net._mut_la]
    if hasattr(net, "node_weight_type"):
        out.append(net.node_weight_type)
    if A is not None:
        if A.shape[0] < 5000:
            out.append(arr(net.adjacency))
        out.append(str(net))
        out.append(len(net))
        try:
            out.append(arr(net.degree()))
        except Exception as e:  # pylint: disable=broad-except
            out.append(type(e).__name__)
        for k in sorted(net.graph.es.attribute_names()):
            try:
                out.append((k, arr(net.link_attribute(k))))
            except Exception as e:  # pylint: disable=broad-except
                out.append((k, type(e).__name__))
    return out


def attempt(label, fn, holder=None):
    """run fn, record snapshot of result or exception type; on failure also
    record the state of `holder` (object a failed setter was applied to)"""
    buf = io.StringIO()
    try:
        with contextlib.redirect_stdout(buf):
            res = fn()
    except Exception as e:  # pylint: disable=broad-except
        cause = type(e.__cause__).__name__ if e.__cause__ is not None else None
        rec(label, "EXC", type(e).__name__, str(e), cause, buf.getvalue())
        if holder is not None:
            try:
                rec(label, "STATE", snapshot(holder))
            except Exception as e2:  # pylint: disable=broad-except
                rec(label, "STATE-EXC", type(e2).__name__)
        return None
    if isinstance(res, Network):
        rec(label, "OK", snapshot(res), buf.getvalue())
    else:
        rec(label, "OK", repr(res), buf.getvalue())
    return res


def rand_adj(rng, N, p, directed, loops=False, multi=False):
    A = (rng.random((N, N)) < p).astype(int)
    if not directed:
        A = np.triu(A, 1)
        A = A + A.T
    if not loops:
        np.fill_diagonal(A, 0)
    if multi:
        A = A * rng.integers(1, 4, size=(N, N))
        if not directed:
            A = np.triu(A, 1)
            A = A + A.T
    return A


# ---------------------------------------------------------------------------
#  1. adjacency matrices: dense / sparse, directed / undirected, corner cases
# ---------------------------------------------------------------------------

def section_adjacency():
    rng = np.random.default_rng(1)
    cases = []
    for N in (2, 3, 6, 17, 40):
        for p in (0.0, 0.15, 0.6, 1.0):
            for directed in (False, True):
                cases.append((N, p, directed, rand_adj(rng, N, p, directed)))
    for i, (N, p, directed, A) in enumerate(cases):
        lab = f"adj{i}-{N}-{p}-{directed}"
        w = rng.random(N) * 3
        attempt(lab + "-list",
                lambda: Network(adjacency=A.tolist(), directed=directed,
                                silence_level=2))
        attempt(lab + "-arr-w",
                lambda: Network(adjacency=A, directed=directed,
                                node_weights=w, silence_level=2))
        attempt(lab + "-bool",
                lambda: Network(adjacency=A.astype(bool), directed=directed))
        attempt(lab + "-float",
                lambda: Network(adjacency=A.astype(float) * 0.5,
                                directed=directed, node_weights=list(w)))
        for fmt in ("csc", "csr", "coo", "lil", "dok"):
            attempt(lab + "-" + fmt,
                    lambda: Network(adjacency=sp.csc_matrix(A).asformat(fmt),
                                    directed=directed, node_weights=w))
        attempt(lab + "-int8sparse",
                lambda: Network(adjacency=sp.csr_matrix(A.astype(np.int8)),
                                directed=directed))
    # single link, isolated nodes
    for directed in (False, True):
        A = np.zeros((5, 5), dtype=int)
        A[1, 3] = 1
        if not directed:
            A[3, 1] = 1
        attempt(f"single-{directed}",
                lambda: Network(adjacency=A, directed=directed))
        attempt(f"single-sp-{directed}",
                lambda: Network(adjacency=sp.coo_matrix(A),
                                directed=directed))
    # self loops, multi-valued entries, asymmetric given as undirected
    for directed in (False, True):
        A = rand_adj(rng, 9, 0.4, directed, loops=True, multi=True)
        attempt(f"loops-multi-{directed}",
                lambda: Network(adjacency=A, directed=directed))
        B = rand_adj(rng, 9, 0.4, True)
        attempt(f"asym-{directed}",
                lambda: Network(adjacency=B, directed=directed))
        attempt(f"asym-sp-{directed}",
                lambda: Network(adjacency=sp.csr_matrix(B),
                                directed=directed))
    # explicit zeros stored in sparse matrix
    S = sp.csc_matrix((np.array([1, 0, 1, 0]),
                       (np.array([0, 1, 2, 3]), np.array([2, 3, 0, 1]))),
                      shape=(4, 4))
    attempt("explicit-zeros", lambda: Network(adjacency=S))
    # invalid / degenerate inputs
    attempt("nonsquare", lambda: Network(adjacency=np.zeros((2, 3))))
    attempt("nonsquare-sp",
            lambda: Network(adjacency=sp.csr_matrix(np.ones((4, 2)))))
    attempt("N1", lambda: Network(adjacency=[[0]]))
    attempt("N1-dir", lambda: Network(adjacency=[[0]], directed=True))
    attempt("N1-sp", lambda: Network(adjacency=sp.csc_matrix((1, 1))))
    attempt("N0", lambda: Network(adjacency=np.zeros((0, 0))))
    attempt("N0-sp", lambda: Network(adjacency=sp.csc_matrix((0, 0))))
    attempt("1d", lambda: Network(adjacency=[0, 1, 0]))
    attempt("empty-list", lambda: Network(adjacency=[]))
    attempt("3d", lambda: Network(adjacency=np.zeros((2, 2, 2))))
    attempt("ragged", lambda: Network(adjacency=[[0, 1], [1]]))
    attempt("strings", lambda: Network(adjacency=[["a", "b"], ["c", "d"]]))
    attempt("none-none", Network)
    attempt("scalar", lambda: Network(adjacency=3))

    # setter on live objects, including failing ones (state must persist)
    for directed in (False, True):
        net = Network(adjacency=rand_adj(rng, 7, 0.5, directed),
                      directed=directed, node_weights=rng.random(7))
        net.set_link_attribute("lw", rng.random((7, 7)))
        rec("live0", snapshot(net))

        def set_adj(value, net=net):
            net.adjacency = value
            return net
        attempt("live-set-7", lambda: set_adj(rand_adj(rng, 7, 0.3,
                                                       directed)), net)
        attempt("live-set-nonsq", lambda: set_adj(np.ones((3, 4))), net)
        attempt("live-set-N1", lambda: set_adj([[0]]), net)
        attempt("live-set-1d", lambda: set_adj([1, 2]), net)
        attempt("live-set-sp4",
                lambda: set_adj(sp.lil_matrix(rand_adj(rng, 4, 0.7,
                                                       directed))), net)

        def set_w(value, net=net):
            net.node_weights = value
            return net
        attempt("live-w-ok", lambda: set_w([1, 2, 3, 4]), net)
        attempt("live-w-none", lambda: set_w(None), net)
        attempt("live-w-wrong", lambda: set_w([1, 2, 3]), net)
        attempt("live-w-scalar", lambda: set_w(3.0), net)
        attempt("live-w-2d", lambda: set_w(np.arange(8.).reshape(4, 2)), net)
        attempt("live-w-str", lambda: set_w(["a", "b", "c", "d"]), net)
        attempt("live-w-int", lambda: set_w(np.arange(4, dtype=np.int8)), net)
        attempt("live-w-tuple", lambda: set_w((0.1, 0.2, 0.3, 0.4)), net)
        attempt("live-w-f32",
                lambda: set_w(np.array([.1, .2, .3, .4], dtype=np.float32)),
                net)
        w = np.array([1., 2., 3., 4.])
        set_w(w)
        w[0] = 99.
        rec("live-w-alias", snapshot(net))

    # large network -> 32 bit sparse dtype
    for N in (32766, 32767, 40000):
        rows = np.array([0, 5, N - 1, 17])
        cols = np.array([5, 0, 17, N - 1])
        S = sp.coo_matrix((np.ones(4, dtype=int), (rows, cols)), shape=(N, N))
        attempt(f"large-{N}", lambda: Network(adjacency=S, silence_level=2))


# ---------------------------------------------------------------------------
#  2. edge lists
# ---------------------------------------------------------------------------

def section_edge_list():
    rng = np.random.default_rng(2)
    for i in range(24):
        N = int(rng.integers(2, 30))
        directed = bool(i % 2)
        A = rand_adj(rng, N, rng.random(), directed)
        coords = nz_coords(sp.csc_matrix(A))
        if not directed:
            coords = coords[coords[:, 0] < coords[:, 1]]
        w = rng.random(N)
        lab = f"el{i}-{N}-{directed}"
        attempt(lab + "-n", lambda: Network(edge_list=coords, n_nodes=N,
                                            directed=directed,
                                            node_weights=w))
        attempt(lab + "-auto", lambda: Network(edge_list=coords,
                                               directed=directed))
        attempt(lab + "-lists", lambda: Network(edge_list=coords.tolist(),
                                                n_nodes=N, directed=directed))
        attempt(lab + "-tuples",
                lambda: Network(edge_list=[tuple(c) for c in coords.tolist()],
                                directed=directed))
        # compare to the adjacency-based construction
        attempt(lab + "-adj", lambda: Network(adjacency=A, directed=directed,
                                              node_weights=w))
        # shuffled, duplicated, both directions present
        perm = rng.permutation(len(coords))
        dup = np.concatenate([coords[perm], coords[: len(coords) // 2],
                              coords[:3, ::-1]]) if len(coords) else coords
        attempt(lab + "-dup", lambda: Network(edge_list=dup, n_nodes=N,
                                              directed=directed))
        attempt(lab + "-i32",
                lambda: Network(edge_list=coords.astype(np.int32), n_nodes=N,
                                directed=directed))
        attempt(lab + "-float",
                lambda: Network(edge_list=coords.astype(float), n_nodes=N,
                                directed=directed))
    for directed in (False, True):
        d = directed
        attempt(f"el-single-{d}",
                lambda: Network(edge_list=[[0, 1]], directed=d))
        attempt(f"el-single-n-{d}",
                lambda: Network(edge_list=[[2, 4]], n_nodes=8, directed=d))
        attempt(f"el-selfloop-{d}",
                lambda: Network(edge_list=[[0, 0], [1, 2]], directed=d))
        attempt(f"el-empty-{d}", lambda: Network(edge_list=[], directed=d))
        attempt(f"el-empty-n-{d}",
                lambda: Network(edge_list=[], n_nodes=4, directed=d))
        attempt(f"el-empty2d-n-{d}",
                lambda: Network(edge_list=np.zeros((0, 2), dtype=int),
                                n_nodes=4, directed=d))
        attempt(f"el-empty2d-{d}",
                lambda: Network(edge_list=np.zeros((0, 2), dtype=int),
                                directed=d))
        attempt(f"el-1d-{d}",
                lambda: Network(edge_list=[0, 1], n_nodes=2, directed=d))
        attempt(f"el-1d-auto-{d}",
                lambda: Network(edge_list=[0, 1], directed=d))
        attempt(f"el-3col-{d}",
                lambda: Network(edge_list=[[0, 1, 2], [1, 2, 0]], n_nodes=3,
                                directed=d))
        attempt(f"el-1col-{d}",
                lambda: Network(edge_list=[[0], [1]], n_nodes=3, directed=d))
        attempt(f"el-toosmall-{d}",
                lambda: Network(edge_list=[[0, 5]], n_nodes=3, directed=d))
        attempt(f"el-neg-{d}",
                lambda: Network(edge_list=[[0, -1]], n_nodes=3, directed=d))
        attempt(f"el-n1-{d}",
                lambda: Network(edge_list=[[0, 0]], n_nodes=1, directed=d))
        attempt(f"el-ragged-{d}",
                lambda: Network(edge_list=[[0, 1], [2]], n_nodes=3,
                                directed=d))
        attempt(f"el-str-{d}",
                lambda: Network(edge_list=[["a", "b"]], n_nodes=3,
                                directed=d))
        attempt(f"el-nnodes-float-{d}",
                lambda: Network(edge_list=[[0, 1]], n_nodes=3.0, directed=d))
        # on a live object
        net = Network(adjacency=rand_adj(rng, 6, 0.5, d), directed=d,
                      node_weights=rng.random(6))
        net.set_link_attribute("lw", rng.random((6, 6)))

        def reset(el, n=None, net=net):
            net.set_edge_list(el, n)
            return net
        attempt(f"el-live-{d}", lambda: reset([[0, 1], [1, 5], [5, 2]]), net)
        attempt(f"el-live-n-{d}", lambda: reset([[0, 1], [1, 2]], 6), net)
        attempt(f"el-live-bad-{d}", lambda: reset([], None), net)
        attempt(f"el-live-bad2-{d}", lambda: reset([[0, 9]], 3), net)
        attempt(f"el-live-bad3-{d}", lambda: reset([0, 1], 2), net)


# ---------------------------------------------------------------------------
#  3. igraph objects
# ---------------------------------------------------------------------------

def section_igraph():
    rng = np.random.default_rng(3)
    for i in range(20):
        N = int(rng.integers(2, 25))
        directed = bool(i % 2)
        A = rand_adj(rng, N, 0.1 + 0.8 * rng.random(), directed)
        coords = nz_coords(sp.csc_matrix(A))
        if not directed:
            coords = coords[coords[:, 0] < coords[:, 1]]
        if len(coords) == 0:
            coords = np.array([[0, 1]])
        g = igraph.Graph(n=N, edges=coords.tolist(), directed=directed)
        lab = f"ig{i}-{N}-{directed}"
        attempt(lab + "-plain", lambda: Network.FromIGraph(g.copy()))
        g2 = g.copy()
        g2.vs["node_weight_nsi"] = list(rng.random(N))
        g2.vs["other"] = list(range(N))
        g2.es["weight"] = list(rng.random(g2.ecount()))
        g2.es["label"] = [f"e{k}" for k in range(g2.ecount())]
        net = attempt(lab + "-attrs",
                      lambda: Network.FromIGraph(g2, silence_level=1))
        if net is not None:
            rec(lab, "same-graph", net.graph is g2)
            attempt(lab + "-copy", net.copy)
            attempt(lab + "-ucopy", net.undirected_copy)
            perm = rng.permutation(N)
            attempt(lab + "-pcopy", lambda: net.permuted_copy(perm))
            attempt(lab + "-scopy",
                    lambda: net.splitted_copy(node=int(rng.integers(N)),
                                              proportion=0.3))
        g3 = g.copy()
        g3.vs["node_weight_nsi"] = [1] * N
        attempt(lab + "-intw", lambda: Network.FromIGraph(g3))
    for directed in (False, True):
        d = directed
        attempt(f"ig-empty-{d}",
                lambda: Network.FromIGraph(igraph.Graph(n=4, directed=d)))
        attempt(f"ig-zero-{d}",
                lambda: Network.FromIGraph(igraph.Graph(n=0, directed=d)))
        attempt(f"ig-single-{d}",
                lambda: Network.FromIGraph(
                    igraph.Graph(n=5, edges=[(1, 3)], directed=d)))
        attempt(f"ig-two-{d}",
                lambda: Network.FromIGraph(
                    igraph.Graph(n=2, edges=[(1, 0)], directed=d)))
        attempt(f"ig-multi-{d}",
                lambda: Network.FromIGraph(
                    igraph.Graph(n=4, edges=[(0, 1), (0, 1), (1, 0), (2, 2),
                                             (3, 2)], directed=d)))
        gw = igraph.Graph(n=3, edges=[(0, 1), (1, 2)], directed=d)
        gw.vs["node_weight_nsi"] = [1.0, 2.0, "x"]
        attempt(f"ig-badw-{d}", lambda: Network.FromIGraph(gw))
        gn = igraph.Graph(n=3, edges=[(0, 1), (1, 2)], directed=d)
        gn.vs["node_weight_nsi"] = [1.0, None, 2.0]
        attempt(f"ig-nonew-{d}", lambda: Network.FromIGraph(gn))
        gv = igraph.Graph(n=1, directed=d)
        attempt(f"ig-n1-{d}", lambda: Network.FromIGraph(gv))
    attempt("ig-notgraph", lambda: Network.FromIGraph(None))
    attempt("small", Network.SmallTestNetwork)
    attempt("small-dir", Network.SmallDirectedTestNetwork)
    attempt("small-copy", lambda: Network.SmallTestNetwork().copy())


# ---------------------------------------------------------------------------
#  4. save / Load round trips
# ---------------------------------------------------------------------------

FORMATS = ["graphml", "graphmlz", "gml", "pickle", "picklez", "edgelist",
           "ncol", "lgl", "net", "adjacency", "dot", "nonsense"]


def file_hash(path):
    if not os.path.exists(path):
        return None
    with open(path, "rb") as f:
        return hashlib.sha256(f.read()).hexdigest()


def section_save_load(tmp):
    rng = np.random.default_rng(4)
    nets = []
    for i, (N, p, directed) in enumerate(
            [(6, 0.5, False), (6, 0.5, True), (12, 0.2, False),
             (12, 0.2, True), (5, 0.0, False), (5, 0.0, True),
             (9, 1.0, False)]):
        A = rand_adj(rng, N, p, directed)
        net = Network(adjacency=A, directed=directed,
                      node_weights=rng.random(N) * 2, silence_level=2)
        if i % 3 != 2:
            W = rng.random((N, N))
            if not directed:
                W = W + W.T
            net.set_link_attribute("link_weights", W)
            net.set_link_attribute("second", np.round(W * 10))
        nets.append((f"sl{i}", net))
    single = Network(adjacency=[[0, 1, 0], [1, 0, 0], [0, 0, 0]],
                     node_weights=[.5, .25, 4.])
    nets.append(("sl-single", single))
    nets.append(("sl-small", Network.SmallTestNetwork()))
    nets.append(("sl-smalldir", Network.SmallDirectedTestNetwork()))

    for lab, net in nets:
        for fmt in FORMATS:
            path = os.path.join(tmp, f"{lab}.{fmt}")
            attempt(f"{lab}-save-{fmt}",
                    lambda: net.save(path, fileformat=fmt), net)
            if fmt == "graphml":
                rec(lab, "file", file_hash(path))
            rec(lab, fmt, "after-save", snapshot(net))
            if fmt in ("dot", "nonsense"):
                continue
            attempt(f"{lab}-load-{fmt}",
                    lambda: Network.Load(path, fileformat=fmt,
                                         silence_level=2))
        # auto-detected format from extension
        path = os.path.join(tmp, f"{lab}-auto.graphml")
        attempt(f"{lab}-save-auto", lambda: net.save(path), net)
        loaded = attempt(f"{lab}-load-auto", lambda: Network.Load(path))
        if loaded is not None:
            attempt(f"{lab}-load-copy", loaded.copy)
            path2 = os.path.join(tmp, f"{lab}-again.graphml")
            attempt(f"{lab}-resave", lambda: loaded.save(path2))
            attempt(f"{lab}-reload", lambda: Network.Load(path2))
        # node weights removed: nothing is stored
        net._node_weights = None
        path3 = os.path.join(tmp, f"{lab}-now.graphml")
        attempt(f"{lab}-save-now", lambda: net.save(path3), net)
        attempt(f"{lab}-load-now", lambda: Network.Load(path3))
    attempt("load-missing",
            lambda: Network.Load(os.path.join(tmp, "missing.graphml")))
    attempt("load-kw",
            lambda: Network.Load(os.path.join(tmp, "sl0.edgelist"),
                                 "edgelist", 2, directed=True))
    attempt("load-kw2",
            lambda: Network.Load(os.path.join(tmp, "sl0.edgelist"),
                                 fileformat="edgelist", directed=False))


def make_grids(rng, N):
    t = np.arange(4.)
    lat = np.sort(rng.uniform(-90, 90, N))
    lon = rng.uniform(-180, 180, N)
    return (Grid(time_seq=t, space_seq=np.array([lat, lon]),
                 silence_level=2),
            GeoGrid(time_seq=t, lat_seq=lat, lon_seq=lon, silence_level=2))


def section_spatial(tmp):
    rng = np.random.default_rng(5)
    k = 0
    for N, p, directed in [(6, 0.5, False), (6, 0.5, True), (10, 0.3, False),
                           (10, 0.3, True), (4, 0.0, False), (3, 1.0, True)]:
        k += 1
        grid, geogrid = make_grids(rng, N)
        A = rand_adj(rng, N, p, directed)
        W = rng.random((N, N))
        if not directed:
            W = W + W.T
        sn = attempt(f"sn{k}", lambda: SpatialNetwork(
            grid=grid, adjacency=A, directed=directed, silence_level=2))
        coords = nz_coords(sp.csc_matrix(A))
        if len(coords):
            attempt(f"sn{k}-el", lambda: SpatialNetwork(
                grid=grid, edge_list=coords, directed=True, silence_level=2))
        sn.node_weights = rng.random(N)
        sn.set_link_attribute("lw", W)
        for fmt in ("graphml", "graphmlz", "gml", "pickle", "edgelist",
                    "adjacency"):
            fn = os.path.join(tmp, f"sn{k}.{fmt}")
            fg = os.path.join(tmp, f"sn{k}-{fmt}.grid")
            attempt(f"sn{k}-save-{fmt}",
                    lambda: sn.save((fn, fg), fileformat=fmt), sn)
            rec(f"sn{k}", fmt, os.path.exists(fn), os.path.exists(fg))
            ld = attempt(f"sn{k}-load-{fmt}",
                         lambda: SpatialNetwork.Load([fn, fg], fmt, 2))
            if ld is not None:
                rec(f"sn{k}", fmt, "grid", type(ld.grid).__name__,
                    arr(ld.grid.sequence(0)), arr(ld.grid.sequence(1)))
        fn = os.path.join(tmp, f"sn{k}-nogrid.graphml")
        attempt(f"sn{k}-save-nogrid", lambda: sn.save((fn, None)), sn)
        rec(f"sn{k}", "nogrid", file_hash(fn))
        attempt(f"sn{k}-load-nogrid",
                lambda: SpatialNetwork.Load((fn, None)))
        attempt(f"sn{k}-save-str", lambda: sn.save(fn), sn)
        attempt(f"sn{k}-save-3", lambda: sn.save((fn, fn, fn)), sn)
        attempt(f"sn{k}-save-1", lambda: sn.save([fn]), sn)
        attempt(f"sn{k}-save-none", lambda: sn.save(None), sn)
        attempt(f"sn{k}-save-int", lambda: sn.save(5), sn)
        attempt(f"sn{k}-save-2chars", lambda: sn.save("ab"), sn)
        attempt(f"sn{k}-load-str", lambda: SpatialNetwork.Load(fn))
        attempt(f"sn{k}-load-3", lambda: SpatialNetwork.Load((fn, fn, fn)))
        attempt(f"sn{k}-load-none", lambda: SpatialNetwork.Load(None))
        attempt(f"sn{k}-load-missinggrid",
                lambda: SpatialNetwork.Load((fn, fn + ".nope")))
        fg = os.path.join(tmp, f"sn{k}-graphml.grid")
        attempt(f"sn{k}-load-missingnet",
                lambda: SpatialNetwork.Load((fn + ".nope", fg)))

        # GeoNetwork
        for nwt in ("surface", "irrigation", None, "bogus"):
            for sl in (0, 2):
                gn = attempt(f"gn{k}-{nwt}-{sl}", lambda: GeoNetwork(
                    grid=geogrid, adjacency=A, directed=directed,
                    node_weight_type=nwt, silence_level=sl))
        gn = GeoNetwork(grid=geogrid, adjacency=sp.csr_matrix(A),
                        directed=directed, silence_level=1)
        rec(f"gn{k}", "sparse", snapshot(gn))
        if len(coords):
            attempt(f"gn{k}-el", lambda: GeoNetwork(
                grid=geogrid, edge_list=coords, directed=True,
                node_weight_type="irrigation", silence_level=2))
        for nwt in ("irrigation", "surface", None, "irrigation", 7,
                    "surface"):
            def setter(nwt=nwt, gn=gn):
                gn.set_node_weight_type(nwt)
                return gn
            attempt(f"gn{k}-set-{nwt}", setter, gn)
        gn.set_link_attribute("lw", W)
        for fmt in ("graphml", "graphmlz", "gml", "pickle", "edgelist"):
            fn = os.path.join(tmp, f"gn{k}.{fmt}")
            fg = os.path.join(tmp, f"gn{k}-{fmt}.grid")
            attempt(f"gn{k}-save-{fmt}",
                    lambda: gn.save((fn, fg), fileformat=fmt), gn)
            for sl in (0, 2):
                ld = attempt(f"gn{k}-load-{fmt}-{sl}",
                             lambda: GeoNetwork.Load((fn, fg), fmt, sl))
            if ld is not None:
                rec(f"gn{k}", fmt, "grid", type(ld.grid).__name__,
                    arr(ld.grid.lat_sequence()), arr(ld.grid.lon_sequence()),
                    arr(ld.grid.cos_lat()))
        # GeoNetwork without stored weights: constructor default survives
        gn._node_weights = None
        fn = os.path.join(tmp, f"gn{k}-now.graphml")
        fg = os.path.join(tmp, f"gn{k}-now.grid")
        attempt(f"gn{k}-save-now", lambda: gn.save((fn, fg)), gn)
        attempt(f"gn{k}-load-now", lambda: GeoNetwork.Load((fn, fg)))
        attempt(f"gn{k}-load-str", lambda: GeoNetwork.Load(fn))
        attempt(f"gn{k}-load-3", lambda: GeoNetwork.Load((fn, fg, fg)))
        attempt(f"gn{k}-load-none", lambda: GeoNetwork.Load(None))
        attempt(f"gn{k}-load-missinggrid",
                lambda: GeoNetwork.Load((fn, fg + ".nope")))
        attempt(f"gn{k}-load-missingnet",
                lambda: GeoNetwork.Load((fn + ".nope", fg)))
        # cross loading
        attempt(f"gn{k}-as-network", lambda: Network.Load(fn))
        attempt(f"gn{k}-as-spatial", lambda: SpatialNetwork.Load((fn, fg)))
    attempt("sn-small", SpatialNetwork.SmallTestNetwork)
    attempt("gn-small", GeoNetwork.SmallTestNetwork)
    attempt("sn-badgrid", lambda: SpatialNetwork(grid=None,
                                                 adjacency=[[0, 1], [1, 0]]))
    attempt("gn-badgrid", lambda: GeoNetwork(grid=Grid.SmallTestGrid(),
                                             adjacency=[[0, 1], [1, 0]]))


def main():
    tmp = tempfile.mkdtemp(prefix="c05-equiv-")
    try:
        section_adjacency()
        section_edge_list()
        section_igraph()
        section_save_load(tmp)
        section_spatial(tmp)
    finally:
        shutil.rmtree(tmp, ignore_errors=True)
    blob = "\n".join(RECORDS).replace(tmp, "<TMP>")
    if "--dump" in sys.argv:
        sys.stdout.write(blob + "\n")
    print("records:", len(RECORDS))
    print("digest:", hashlib.sha256(blob.encode()).hexdigest())


if __name__ == "__main__":
    main()
