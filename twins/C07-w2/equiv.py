"""Equivalence digest for RecurrenceNetwork.__init__ and its setters."""
import hashlib
import io
import contextlib

import numpy as np

from pyunicorn.timeseries import RecurrenceNetwork

H = hashlib.sha256()


def put(tag, obj):
    H.update(tag.encode())
    if isinstance(obj, np.ndarray):
        H.update(str(obj.dtype).encode())
        H.update(str(obj.shape).encode())
        H.update(np.ascontiguousarray(obj).tobytes())
    else:
        H.update(repr(obj).encode())


def attempt(tag, fn):
    out = io.StringIO()
    try:
        with contextlib.redirect_stdout(out):
            res = fn()
    except BaseException as e:  # noqa
        put(tag + ".exc", type(e).__name__)
        res = None
    put(tag + ".out", out.getvalue())
    return res


def state(tag, rn):
    put(tag + ".R", rn.R)
    put(tag + ".mutR", rn._mut_R)
    put(tag + ".rpN", rn.embedding.shape[0])
    for name in ("N", "directed", "silence_level", "n_links",
                 "missing_values", "threshold", "local_recurrence_rate"):
        put(tag + "." + name, getattr(rn, name, "<missing>"))
    attempt(tag + ".adj", lambda: put(tag + ".A", rn.adjacency))
    attempt(tag + ".nw", lambda: put(tag + ".w", rn.node_weights))
    attempt(tag + ".deg", lambda: put(tag + ".k", rn.degree()))
    attempt(tag + ".ld", lambda: put(tag + ".ld", rn.link_density))
    attempt(tag + ".tr", lambda: put(tag + ".T", rn.transitivity()))
    attempt(tag + ".rr", lambda: put(tag + ".rr", rn.recurrence_rate()))
    attempt(tag + ".str", lambda: put(tag + ".s", str(rn)))


rng = np.random.RandomState(424242)
metrics = ("manhattan", "euclidean", "supremum")
modes = (dict(threshold=0.7), dict(threshold_std=0.5),
         dict(recurrence_rate=0.15), dict(local_recurrence_rate=0.2),
         dict(adaptive_neighborhood_size=3))
case = 0
for n in (2, 5, 12, 40):
    for d in (1, 3):
        for missing in (False, True):
            ts = rng.standard_normal((n, d))
            if d == 1:
                ts = ts[:, 0]
            if missing and n > 2:
                ts[rng.randint(0, n, size=max(1, n // 6))] = np.nan
            for mode in modes:
                case += 1
                tag = f"c{case}"
                kw = dict(metric=metrics[case % 3], normalize=bool(case % 2),
                          missing_values=missing, silence_level=case % 3)
                kw.update(mode)
                if d == 1 and n >= 12 and case % 2:
                    kw.update(dim=3, tau=2)
                if case % 3 == 0:
                    kw["node_weights"] = rng.uniform(0.5, 2.0, size=n)
                rn = attempt(tag, lambda: RecurrenceNetwork(ts, **kw))
                if rn is None:
                    continue
                state(tag, rn)
                #  every setter, in sequence, on the same object
                attempt(tag + "a", lambda: rn.set_fixed_threshold(1.1))
                state(tag + "a", rn)
                attempt(tag + "b", lambda: rn.set_fixed_threshold_std(0.3))
                state(tag + "b", rn)
                attempt(tag + "c", lambda: rn.set_fixed_recurrence_rate(0.3))
                state(tag + "c", rn)
                attempt(tag + "d",
                        lambda: rn.set_fixed_local_recurrence_rate(0.25))
                state(tag + "d", rn)
                attempt(tag + "e",
                        lambda: rn.set_adaptive_neighborhood_size(2))
                state(tag + "e", rn)
                order = rng.permutation(rn.embedding.shape[0])
                attempt(tag + "f", lambda: rn.set_adaptive_neighborhood_size(
                    1, order=order))
                state(tag + "f", rn)
                attempt(tag + "g", lambda: rn.set_fixed_threshold(0.2))
                state(tag + "g", rn)

#  error paths
ts = rng.standard_normal((15, 2))
attempt("nokw", lambda: RecurrenceNetwork(ts))
attempt("sparse", lambda: RecurrenceNetwork(ts, threshold=1., sparse_rqa=True))
attempt("skip", lambda: RecurrenceNetwork(ts, threshold=1.,
                                          skip_recurrence=True))
attempt("badw", lambda: RecurrenceNetwork(ts, threshold=1., node_weights=3))
attempt("shortw", lambda: RecurrenceNetwork(ts, threshold=1.,
                                            node_weights=np.ones(4)))
attempt("badwsparse", lambda: RecurrenceNetwork(
    ts, threshold=1., node_weights=3, sparse_rqa=True))
attempt("badmetric", lambda: RecurrenceNetwork(ts, threshold=1., metric="x"))
rn = RecurrenceNetwork(ts, threshold=1., silence_level=2)
for k, bad in enumerate((None, "a", np.nan, -1, 2.5, (0.1, 0.2))):
    for name in ("set_fixed_threshold", "set_fixed_threshold_std",
                 "set_fixed_recurrence_rate",
                 "set_fixed_local_recurrence_rate",
                 "set_adaptive_neighborhood_size"):
        tag = f"bad{k}{name}"
        attempt(tag, lambda: getattr(rn, name)(bad))
        state(tag, rn)
rn.R = None
attempt("noR", lambda: rn._mut_R)
rn2 = RecurrenceNetwork(ts, threshold=1., silence_level=1)
rn2.silence_level = 0
attempt("sil", lambda: rn2.set_fixed_recurrence_rate(0.2))
state("sil", rn2)

print(H.hexdigest())
