"""Equivalence digest for save / Load / FromIGraph of Network, SpatialNetwork
and GeoNetwork (property C05)."""
import contextlib
import hashlib
import io
import os
import shutil
import tempfile

import numpy as np
import scipy.sparse as sp
import igraph

from pyunicorn.core.network import Network
from pyunicorn.core.spatial_network import SpatialNetwork
from pyunicorn.core.geo_network import GeoNetwork
from pyunicorn.core.grid import Grid
from pyunicorn.core.geo_grid import GeoGrid

H = hashlib.sha256()
#  formats whose files are byte-for-byte deterministic
RAW = ("graphml", "edgelist", "ncol", "net", "dot", "lgl", "adjacency",
       "dimacs")
WRITE = ("graphml", "graphmlz", "gml", "pickle", "edgelist", "ncol", "net",
         "dot", "lgl", "adjacency", "dimacs", "svg", "nonsense", None)
READ = ("graphml", "graphmlz", "gml", "pickle", "edgelist", "ncol", "net",
        "lgl", "adjacency", None)


def put(*items):
    for it in items:
        if isinstance(it, np.ndarray):
            H.update(str(it.dtype).encode() + str(it.shape).encode())
            H.update(np.ascontiguousarray(it).tobytes())
        else:
            H.update(repr(it).encode())
        H.update(b"|")


def state(net):
    put(type(net).__name__, net.directed, net.silence_level, net.N,
        net.n_links, repr(net.link_density), str(net.sp_dtype),
        str(net.sp_A.dtype), net.adjacency, net.graph.is_directed(),
        net.graph.vcount(), net.graph.get_edgelist(),
        sorted(net.graph.vs.attributes()), sorted(net.graph.es.attributes()),
        net.node_weights, repr(net.total_node_weight),
        repr(net.mean_node_weight), net._mut_A, net._mut_nw, net._mut_la,
        str(net))
    for a in sorted(net.graph.vs.attributes()):
        put(a, repr(net.graph.vs[a]))
    for a in sorted(net.graph.es.attributes()):
        put(a, repr(net.graph.es[a]), net.link_attribute(a))
    if hasattr(net, "grid"):
        put(type(net.grid).__name__, net.grid.N)
    if hasattr(net, "node_weight_type"):
        put(net.node_weight_type)


def attempt(label, fn):
    out = io.StringIO()
    try:
        with contextlib.redirect_stdout(out), \
                contextlib.redirect_stderr(io.StringIO()):
            res = fn()
    except BaseException as e:  # pylint: disable=broad-except
        put(label, "EXC", type(e).__name__)
        return None
    put(label, "OK", out.getvalue())
    return res


def random_adj(rng, N, p, directed):
    A = (rng.random((N, N)) < p).astype(int)
    np.fill_diagonal(A, 0)
    if not directed:
        A = np.triu(A, 1)
        A = A + A.T
    return A


def networks(rng):
    nets = [Network.SmallTestNetwork(), Network.SmallDirectedTestNetwork()]
    for N, p in ((2, 1.0), (4, 0.0), (5, 0.3), (8, 0.5), (13, 0.2)):
        for directed in (False, True):
            A = random_adj(rng, N, p, directed)
            net = Network(adjacency=sp.csc_matrix(A) if N % 2 else A,
                          directed=directed,
                          node_weights=rng.random(N) * 2 if N > 4 else None,
                          silence_level=2)
            if N > 5:
                W = rng.random((N, N))
                net.set_link_attribute("lw", W if directed else W + W.T)
                net.set_node_attribute("label", [f"v{i}" for i in range(N)])
                net.set_node_attribute("deg", net.degree())
            nets.append(net)
    nets.append(Network(edge_list=[[0, 3]], n_nodes=6))
    nets.append(Network(edge_list=[[2, 1]], n_nodes=4, directed=True,
                        node_weights=[4, 3, 2, 1]))
    nets.append(Network(edge_list=[], n_nodes=3))
    #  a network whose weights were dropped behind the setter's back
    bare = Network.SmallTestNetwork()
    bare._node_weights = None
    nets.append(bare)
    #  a stale vertex attribute from an earlier save
    stale = Network.SmallTestNetwork()
    stale.graph.vs["node_weight_nsi"] = [9.0] * 6
    nets.append(stale)
    return nets


def spatial_networks(rng):
    res = []
    with contextlib.redirect_stdout(io.StringIO()):
        res.append((SpatialNetwork.SmallTestNetwork(), SpatialNetwork))
        res.append((GeoNetwork.SmallTestNetwork(), GeoNetwork))
        A = random_adj(rng, 6, 0.4, True)
        sn = SpatialNetwork(grid=Grid.SmallTestGrid(), adjacency=A,
                            directed=True, silence_level=2)
        sn.node_weights = rng.random(6)
        sn.set_link_attribute("lw", rng.random((6, 6)))
        res.append((sn, SpatialNetwork))
        for nwt in ("surface", "irrigation", None):
            gn = GeoNetwork(grid=GeoGrid.SmallTestGrid(),
                            adjacency=random_adj(rng, 6, 0.5, False),
                            node_weight_type=nwt, silence_level=2)
            gn.set_link_attribute("lw", gn.grid.angular_distance())
            res.append((gn, GeoNetwork))
        gd = GeoNetwork(grid=GeoGrid.SmallTestGrid(),
                        edge_list=[[0, 5]], directed=True, silence_level=0)
        res.append((gd, GeoNetwork))
    return res


def file_bytes(path, fmt):
    if fmt in RAW and os.path.exists(path):
        with open(path, "rb") as f:
            put("FILE", hashlib.sha256(f.read()).hexdigest())
    else:
        put("FILE?", os.path.exists(path))


def main():
    rng = np.random.default_rng(77)
    tmp = tempfile.mkdtemp(prefix="tw8c05_")

    # ---- FromIGraph -------------------------------------------------------
    graphs = []
    for N, m, directed in ((0, 0, False), (1, 0, True), (3, 0, False),
                           (4, 1, True), (6, 7, False), (9, 20, True)):
        edges = set()
        while len(edges) < m:
            i, j = (int(x) for x in rng.integers(0, N, 2))
            if i != j and ((i, j) not in edges) and \
                    (directed or (j, i) not in edges):
                edges.add((i, j))
        g = igraph.Graph(n=N, edges=sorted(edges), directed=directed)
        graphs.append(g)
        gw = g.copy()
        gw.vs["node_weight_nsi"] = list(rng.random(N))
        gw.vs["other"] = list(range(N))
        gw.es["lw"] = list(rng.random(m))
        graphs.append(gw)
    gbad = igraph.Graph(n=3, edges=[(0, 1)])
    gbad.vs["node_weight_nsi"] = ["a", "b", "c"]
    graphs.append(gbad)
    gnone = igraph.Graph(n=3, edges=[(0, 1)])
    gnone.vs["node_weight_nsi"] = [1.0, None, 2.0]
    graphs.append(gnone)
    gmulti = igraph.Graph(n=3, edges=[(0, 1), (0, 1), (2, 2)])
    graphs.append(gmulti)
    for k, g in enumerate(graphs):
        for sl in (0, 3):
            net = attempt(f"FromIGraph{k}",
                          lambda: Network.FromIGraph(g, silence_level=sl))
            if net is not None:
                state(net)
                put(net.graph is g)
    put(Network._mut_la if hasattr(Network, "_mut_la") else "no-class-attr")

    # ---- Network.save / Network.Load -------------------------------------
    for k, net in enumerate(networks(rng)):
        put("NET", k)
        state(net)
        for fmt in WRITE:
            ext = fmt if fmt is not None else "graphml"
            path = os.path.join(tmp, f"n{k}.{ext}")
            attempt(f"save-{fmt}", lambda: net.save(path, fileformat=fmt))
            file_bytes(path, fmt)
            state(net)
            if fmt in READ and os.path.exists(path):
                back = attempt(f"Load-{fmt}", lambda: Network.Load(
                    path, fileformat=fmt, silence_level=1))
                if back is not None:
                    state(back)
        #  saving twice and after changing the weights
        path = os.path.join(tmp, f"n{k}_again.graphml")
        if net.node_weights is not None:
            net.node_weights = np.arange(net.N) * 0.5 + 1
        attempt("save-again", lambda: net.save(path))
        file_bytes(path, "graphml")
        back = attempt("Load-again", lambda: Network.Load(path))
        if back is not None:
            state(back)
            #  second generation
            path2 = os.path.join(tmp, f"n{k}_gen2.graphmlz")
            attempt("save-gen2", lambda: back.save(path2))
            back2 = attempt("Load-gen2", lambda: Network.Load(path2))
            if back2 is not None:
                state(back2)
    attempt("Load-missing", lambda: Network.Load(os.path.join(tmp, "nope")))

    # ---- SpatialNetwork / GeoNetwork --------------------------------------
    for k, (net, cls) in enumerate(spatial_networks(rng)):
        put("SNET", k, cls.__name__)
        state(net)
        for fmt in ("graphml", "graphmlz", "gml", "pickle", "edgelist",
                    "adjacency", "nonsense", None):
            ext = fmt if fmt is not None else "graphml"
            pn = os.path.join(tmp, f"s{k}.{ext}")
            pg = os.path.join(tmp, f"s{k}_{ext}.grid")
            attempt(f"ssave-{fmt}",
                    lambda: net.save((pn, pg), fileformat=fmt))
            file_bytes(pn, fmt)
            state(net)
            if fmt == "nonsense":
                continue
            for loader in (cls, SpatialNetwork, GeoNetwork):
                back = attempt(
                    f"sLoad-{fmt}-{loader.__name__}",
                    lambda: loader.Load([pn, pg], fileformat=fmt,
                                        silence_level=2))
                if back is not None:
                    state(back)
        #  grid not stored
        pn = os.path.join(tmp, f"s{k}_nogrid.graphml")
        attempt("ssave-nogrid", lambda: net.save((pn, None)))
        file_bytes(pn, "graphml")
        attempt("sLoad-nogrid", lambda: cls.Load((pn, None)))
        #  malformed file name arguments
        attempt("ssave-1tuple", lambda: net.save((pn,)))
        attempt("ssave-3tuple", lambda: net.save((pn, pn, pn)))
        attempt("ssave-int", lambda: net.save(5))
        attempt("sLoad-1tuple", lambda: cls.Load((pn,)))
        attempt("sLoad-3tuple", lambda: cls.Load((pn, pn, pn)))
        #  inherited plain Network loader on the network file
        back = attempt("nLoad", lambda: Network.Load(pn))
        if back is not None:
            state(back)
        #  a file without node weights (weights come from the constructor)
        pe = os.path.join(tmp, f"s{k}_plain.edgelist")
        pg = os.path.join(tmp, f"s{k}_plain.grid")
        attempt("ssave-plain", lambda: net.save((pe, pg)))
        back = attempt("sLoad-plain", lambda: cls.Load((pe, pg)))
        if back is not None:
            state(back)

    shutil.rmtree(tmp, ignore_errors=True)
    print(H.hexdigest())


if __name__ == "__main__":
    main()
