"""Equivalence digest for AAFT / refined AAFT surrogates (rank remapping).

Run as:  PYTHONPATH=<worktree>/src /venv/bin/python equiv.py
Prints one sha256 digest; must be identical on pristine and refactored tree.
"""
import hashlib
import os
import sys
import random as pyrandom
import warnings

import numpy as np

from pyunicorn.timeseries.surrogates import Surrogates

warnings.simplefilter("ignore")
H = hashlib.sha256()


def feed(tag, obj):
    H.update(repr(tag).encode())
    if isinstance(obj, tuple):
        H.update(b"tuple%d" % len(obj))
        for k, o in enumerate(obj):
            feed((tag, k), o)
    elif isinstance(obj, np.ndarray):
        H.update(str(obj.dtype).encode())
        H.update(repr(obj.shape).encode())
        H.update(repr((obj.flags.c_contiguous, obj.flags.writeable,
                       obj.flags.owndata)).encode())
        H.update(np.ascontiguousarray(obj).tobytes())
    else:
        H.update(repr(obj).encode())


def rng_state(tag):
    """record how much randomness was consumed"""
    feed((tag, "np-next"), np.random.get_state()[1][:8].copy())
    feed((tag, "np-pos"), int(np.random.get_state()[2]))
    feed((tag, "py-next"), pyrandom.getstate()[1][:8])


def attempt(tag, fn):
    try:
        res = fn()
    except BaseException as exc:  # pylint: disable=broad-except
        feed((tag, "exc"), type(exc).__name__)
        if os.environ.get("EQUIV_VERBOSE"):
            print("EXC", tag, type(exc).__name__, exc, file=sys.stderr)
        return None
    feed((tag, "ok"), res)
    return res


def datasets():
    rs = np.random.RandomState(20240915)
    yield "small", Surrogates.SmallTestData().original_data
    yield "gauss-even", rs.randn(4, 64)
    yield "gauss-odd", rs.randn(3, 51)
    yield "single-row", rs.randn(1, 17)
    yield "ties", rs.randint(0, 4, size=(5, 40)).astype(float)
    yield "int-data", rs.randint(-50, 50, size=(3, 33))
    yield "float32", rs.randn(3, 20).astype(np.float32)
    const = rs.randn(3, 16)
    const[1, :] = 2.5
    yield "const-row", const
    yield "fortran", np.asfortranarray(rs.randn(4, 30))
    yield "strided", rs.randn(6, 60)[::2, ::3]
    yield "short2", rs.randn(2, 2)
    yield "short1", rs.randn(2, 1)
    yield "empty-rows", np.zeros((0, 8))
    yield "nan", np.where(rs.rand(2, 24) < .1, np.nan, rs.randn(2, 24))


for name, data in datasets():
    data = data.copy(order="K")
    before = data.copy()
    np.random.seed(4711)
    pyrandom.seed(4711)
    s = Surrogates(original_data=data, silence_level=2)

    attempt((name, "aaft"), s.AAFT_surrogates)
    rng_state((name, "aaft"))
    attempt((name, "aaft-again"), s.AAFT_surrogates)
    for out in ("true_amplitudes", "true_spectrum", "both", "bogus"):
        for n_it in (0, 1, 3):
            attempt((name, "refined", out, n_it),
                    lambda: s.refined_AAFT_surrogates(n_it, output=out))
            rng_state((name, "refined", out, n_it))
    attempt((name, "refined-kw"),
            lambda: s.refined_AAFT_surrogates(n_iterations=2))

    # independent results: a second call must not alias the first
    a = attempt((name, "alias-a"), s.AAFT_surrogates)
    b = attempt((name, "alias-b"), s.AAFT_surrogates)
    if a is not None and b is not None:
        feed((name, "shares"), bool(np.shares_memory(a, b)) and a.size > 0)
        feed((name, "shares-data"),
             bool(np.shares_memory(a, s.original_data)) and a.size > 0)

    # state after the calls: original data untouched, memoised FFT intact
    feed((name, "data-after"), s.original_data)
    feed((name, "data-unchanged"),
         bool(np.array_equal(before, s.original_data, equal_nan=True)))
    attempt((name, "fft-after"), s.original_data_fft)
    feed((name, "attrs"), sorted(k for k in vars(s)))
    feed((name, "mut"), (s._mut_data, s._mut_embedding, s._normalized))

    # after normalisation (cache invalidation path) and once more
    if data.dtype.kind == "f" and data.size:
        attempt((name, "normalize"), s.normalize_original_data)
        attempt((name, "refined-norm"),
                lambda: s.refined_AAFT_surrogates(2, output="both"))
        rng_state((name, "refined-norm"))

print(H.hexdigest())
