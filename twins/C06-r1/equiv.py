"""Equivalence digest for twin_1 (network.py: temporary edits of cached path
lengths in average_path_length / closeness / global_efficiency)."""
import hashlib
import io
import contextlib
import warnings

import numpy as np

from pyunicorn.core.network import Network

warnings.simplefilter("ignore")
H = hashlib.sha256()


def feed(tag, value):
    H.update(tag.encode())
    if isinstance(value, np.ndarray):
        H.update(str(value.dtype).encode())
        H.update(repr(value.shape).encode())
        H.update(np.ascontiguousarray(value).tobytes())
    else:
        H.update(repr(value).encode())


def attempt(tag, f, *args):
    try:
        res = f(*args)
    except Exception as e:  # pylint: disable=broad-except
        feed(tag, "EXC:" + type(e).__name__)
        return
    if isinstance(res, np.ndarray):
        feed(tag, res)
    else:
        feed(tag, float(res).hex())


def make(n, p, seed, directed=False):
    rng = np.random.RandomState(seed)
    A = (rng.rand(n, n) < p).astype(int)
    if not directed:
        A = np.triu(A, 1)
        A = A + A.T
    else:
        np.fill_diagonal(A, 0)
    net = Network(adjacency=A, directed=directed, silence_level=2)
    W = rng.rand(n, n) * 3
    if not directed:
        W = (W + W.T) / 2
    #  a few zero-length links (polar nodes)
    W[rng.rand(n, n) < 0.05] = 0
    if not directed:
        W = np.minimum(W, W.T)
    net.set_link_attribute("w", W)
    IW = np.rint(W * 3 + 1)
    net.set_link_attribute("iw", IW)
    return net


def state(net, la):
    pl = net.path_lengths(la)
    feed("state", pl)


out = io.StringIO()
with contextlib.redirect_stdout(out):
    cases = [(3, 0.5, 0), (2, 0.0, 1), (2, 1.0, 2), (5, 0.2, 3), (6, 0.5, 4),
             (9, 0.15, 5), (12, 0.3, 6), (20, 0.08, 7), (20, 0.5, 8),
             (33, 0.05, 9)]
    for directed in (False, True):
        for (n, p, seed) in cases:
            net = make(n, p, seed, directed)
            for la in (None, "w", "iw", "topological", "missing"):
                for name in ("average_path_length", "closeness",
                             "global_efficiency", "closeness",
                             "average_path_length", "global_efficiency"):
                    attempt(f"{n}/{seed}/{la}/{name}", getattr(net, name), la)
                    attempt("pl", net.path_lengths,
                            None if la == "topological" else la)
            #  other consumers of the shared cached matrix
            attempt("diam", net.diameter)
            attempt("nsi_apl", net.nsi_average_path_length)
            attempt("nsi_cc", net.nsi_closeness)
            attempt("nsi_ge", net.nsi_global_efficiency)
    #  exceptions raised between edit and restore (floating point traps)
    for (n, p, seed) in cases[3:8]:
        net = make(n, p, seed, False)
        for la in (None, "w", "iw"):
            for name in ("global_efficiency", "average_path_length",
                         "closeness"):
                with np.errstate(all="raise"):
                    attempt(f"trap/{n}/{la}/{name}", getattr(net, name), la)
                attempt("trap-pl", net.path_lengths, la)
    #  small test network with verbose output
    net = Network.SmallTestNetwork()
    net.silence_level = 0
    net.set_link_attribute("w", np.arange(36.).reshape(6, 6) % 5)
    for la in (None, "w"):
        attempt("s-apl", net.average_path_length, la)
        attempt("s-cc", net.closeness, la)
        attempt("s-ge", net.global_efficiency, la)
        attempt("s-pl", net.path_lengths, la)

feed("stdout", out.getvalue())
print(H.hexdigest())
