"""Equivalence digest for twin_2 (Network.arenas_betweenness split into a
driver and a per-component helper).  Run as
    PYTHONPATH=<worktree>/src /venv/bin/python equiv.py
"""
import hashlib
import io
import contextlib

import numpy as np

from pyunicorn.core.network import Network

H = hashlib.sha256()


def feed(tag, value):
    H.update(tag.encode())
    if isinstance(value, BaseException):
        H.update(("EXC:" + type(value).__name__).encode())
    else:
        a = np.asarray(value)
        H.update(repr((a.dtype.str, a.shape)).encode())
        H.update(np.ascontiguousarray(a).tobytes())


def attempt(tag, fun, *args, **kwargs):
    out = io.StringIO()
    try:
        with contextlib.redirect_stdout(out):
            res = fun(*args, **kwargs)
    except Exception as e:  # pylint: disable=broad-except
        res = e
    feed(tag, res)
    # printed progress messages are observable as well (timings stripped)
    lines = [ln for ln in out.getvalue().splitlines()
             if not ln.startswith("...took")]
    H.update("\n".join(lines).encode())


def random_adjacency(rng, N, p, directed=False):
    A = (rng.random((N, N)) < p).astype(np.int8)
    np.fill_diagonal(A, 0)
    if not directed:
        A = np.triu(A, 1)
        A = A + A.T
    return A


rng = np.random.default_rng(77003)
cases = []
for N, p in [(2, 0.0), (2, 1.0), (3, 1.0), (5, 0.5), (6, 0.3), (8, 0.25),
             (10, 0.15), (12, 0.5), (15, 0.1), (18, 0.3), (24, 0.08),
             (30, 0.2)]:
    cases.append(random_adjacency(rng, N, p))
# several components of different sizes + isolated nodes, shuffled labels
B = np.zeros((16, 16), dtype=np.int8)
B[:5, :5] = 1
B[5:9, 5:9] = random_adjacency(rng, 4, 0.9)
B[9, 10] = B[10, 9] = 1
B[11:14, 11:14] = 1
np.fill_diagonal(B, 0)
perm = rng.permutation(16)
cases.append(B[np.ix_(perm, perm)])
cases.append(B)
# path, star, ring
P = np.zeros((7, 7), dtype=np.int8)
for i in range(6):
    P[i, i + 1] = P[i + 1, i] = 1
cases.append(P)
S = np.zeros((7, 7), dtype=np.int8)
S[0, 1:] = S[1:, 0] = 1
cases.append(S)
R = P.copy()
R[0, 6] = R[6, 0] = 1
cases.append(R)

for idx, A in enumerate(cases):
    for sl in (3, 1, 0):
        net = Network(adjacency=A, directed=False, silence_level=sl)
        attempt(f"ab{idx}-{sl}", net.arenas_betweenness)
        # second call comes from the cache
        attempt(f"ab2{idx}-{sl}", net.arenas_betweenness)
    net = Network(adjacency=A, directed=False, silence_level=3)
    net.node_weights = rng.random(A.shape[0]) + 0.5
    attempt(f"abw{idx}", net.arenas_betweenness)

# directed input (symmetrised by igraph's component view or not: whatever
# the library does must stay the same)
for idx in range(4):
    A = random_adjacency(rng, 7 + 2 * idx, 0.3, directed=True)
    net = Network(adjacency=A, directed=True, silence_level=3)
    attempt(f"dab{idx}", net.arenas_betweenness)

# the class must not have gained/lost public names
H.update(repr(sorted(n for n in dir(Network)
                     if not n.startswith("_"))).encode())
print(H.hexdigest())
