"""Equivalence digest for twin_2: surrogate test matrices computed by the C
kernels in timeseries/_ext/src_numerics.c (via Surrogates and directly)."""
import hashlib
import io
import sys
import numpy as np

from pyunicorn.timeseries import Surrogates
from pyunicorn.timeseries._ext.numerics import (
    _test_pearson_correlation, _test_mutual_information)

h = hashlib.sha256()
_real_stdout = sys.stdout
_captured = io.StringIO()
sys.stdout = _captured      # library messages are hashed, not printed


def feed(obj):
    if isinstance(obj, tuple):
        for o in obj:
            feed(o)
        return
    a = np.ascontiguousarray(obj)
    h.update(str(a.dtype).encode())
    h.update(str(a.shape).encode())
    h.update(a.tobytes())


def attempt(fn):
    try:
        feed(fn())
    except BaseException as e:  # noqa
        h.update(("EXC:" + type(e).__name__).encode())


def normalise(x):
    x = x - x.mean(axis=1, keepdims=True)
    sd = x.std(axis=1, keepdims=True)
    sd[sd == 0] = 1
    return x / sd


rng = np.random.RandomState(424242)
cases = []
for N, T in ((1, 10), (2, 7), (3, 50), (5, 200), (8, 33), (4, 1)):
    a = rng.randn(N, T)
    b = rng.randn(N, T)
    cases.append((a, b))
    cases.append((normalise(a), normalise(b[:, ::-1])))
# coupled, heavy tailed, discrete-valued, constant rows
a = np.cumsum(rng.randn(6, 120), axis=1)
b = a[::-1] * 0.5 + rng.standard_cauchy((6, 120)) * 0.01
cases.append((a, b))
a = rng.randint(0, 4, size=(5, 64)).astype(float)
b = a.copy()
b[2] = 3.0
cases.append((a, b))
cases.append((a.astype(np.float32), b.astype(int)))
cases.append((np.asfortranarray(rng.randn(4, 30)), rng.randn(4, 30)))
cases.append((np.zeros((3, 12)), np.zeros((3, 12))))

with np.errstate(all="ignore"):
    for a, b in cases:
        a0, b0 = a.copy(), b.copy()
        attempt(lambda: Surrogates.test_pearson_correlation(a, b))
        attempt(lambda: Surrogates.test_pearson_correlation(b, a))
        attempt(lambda: Surrogates.test_pearson_correlation(a, a))
        for n_bins in (1, 2, 5, 32, 100):
            attempt(lambda: Surrogates.test_mutual_information(
                a, b, n_bins=n_bins))
            attempt(lambda: Surrogates.test_mutual_information(
                b, a, n_bins=n_bins))
        attempt(lambda: Surrogates.test_mutual_information(a, a))
        # inputs must not be modified
        feed((a, b))
        h.update(str((np.array_equal(a, a0), np.array_equal(b, b0))).encode())

    # repeated calls (scratch histograms are re-created each call)
    a, b = cases[6]
    for _ in range(3):
        feed(Surrogates.test_mutual_information(a, b, n_bins=8))

    # error behaviour
    attempt(lambda: Surrogates.test_pearson_correlation(
        rng.randn(3, 5), rng.randn(3, 6)))
    attempt(lambda: Surrogates.test_mutual_information(
        rng.randn(3, 5), rng.randn(2, 5)))
    attempt(lambda: Surrogates.test_mutual_information(
        rng.randn(3, 5), rng.randn(3, 5), n_bins=0))
    attempt(lambda: Surrogates.test_mutual_information(
        rng.randn(3, 5), rng.randn(3, 5), n_bins=-3))
    attempt(lambda: _test_pearson_correlation(None, np.zeros((2, 2)), 2, 2))
    attempt(lambda: _test_mutual_information(
        np.zeros((2, 2), dtype=np.float32), np.zeros((2, 2)), 2, 2, 4))

    # direct kernel calls with N / n_time smaller than the buffers
    a = np.ascontiguousarray(rng.randn(6, 40))
    b = np.ascontiguousarray(rng.randn(6, 40))
    feed(_test_pearson_correlation(a, b, 4, 40))
    feed(_test_pearson_correlation(a, b, 6, 25))
    feed(_test_mutual_information(a, b, 4, 40, 6))
    feed(_test_mutual_information(a, b, 6, 25, 6))
    feed(_test_pearson_correlation(a, b, 0, 40))
    feed(_test_mutual_information(a, b, 0, 40, 6))

    # through the significance-test front end (uses both kernels)
    np.random.seed(99)
    ts = normalise(np.cumsum(np.random.randn(4, 80), axis=1))
    s = Surrogates(original_data=ts, silence_level=2)
    attempt(lambda: s.test_threshold_significance(
        Surrogates.white_noise_surrogates, Surrogates.test_pearson_correlation,
        realizations=3, interval=[-1, 1]))
    attempt(lambda: s.test_threshold_significance(
        Surrogates.white_noise_surrogates, Surrogates.test_mutual_information,
        realizations=3, interval=[0, 2]))

sys.stdout = _real_stdout
h.update(_captured.getvalue().encode())
print(h.hexdigest())
