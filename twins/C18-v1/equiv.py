"""Equivalence digest for ResNetwork (property C18).

Run as:  PYTHONPATH=<worktree>/src /venv/bin/python equiv.py
Prints a sha256 digest over all results, captured stdout, object state and
exception types.  Must be identical on the pristine and refactored tree.
"""
import contextlib
import hashlib
import io
import warnings

import numpy as np

from pyunicorn.core.resistive_network import ResNetwork

warnings.simplefilter("ignore")
H = hashlib.sha256()


def feed(tag, obj):
    H.update(tag.encode())
    if isinstance(obj, np.ndarray):
        H.update(str(obj.dtype).encode())
        H.update(str(obj.shape).encode())
        H.update(np.ascontiguousarray(obj).tobytes())
    elif isinstance(obj, (np.generic,)):
        H.update(type(obj).__name__.encode())
        H.update(np.asarray(obj).tobytes())
    elif isinstance(obj, ResNetwork):
        H.update(type(obj).__name__.encode())
    else:
        H.update(type(obj).__name__.encode())
        H.update(repr(obj).encode())


def attempt(tag, fn, *args, **kw):
    buf = io.StringIO()
    try:
        with contextlib.redirect_stdout(buf):
            res = fn(*args, **kw)
        feed(tag, res)
    except Exception as exc:  # pylint: disable=broad-except
        feed(tag + ":EXC", type(exc).__name__)
        res = None
    feed(tag + ":out", buf.getvalue())
    return res


def state(tag, net):
    feed(tag + ":flag", net.flagComplex)
    feed(tag + ":res", np.asarray(net.resistances))
    feed(tag + ":adm", net.sparse_Adm.toarray())
    feed(tag + ":admfmt", net.sparse_Adm.format + str(net.sparse_Adm.dtype))
    feed(tag + ":R", net.sparse_R.toarray())
    feed(tag + ":Rfmt", net.sparse_R.format + str(net.sparse_R.dtype))
    feed(tag + ":admgraph", (net.adm_graph.vcount(), net.adm_graph.is_directed(),
                             net.adm_graph.get_edgelist()))
    feed(tag + ":graph", (net.graph.vcount(), net.graph.get_edgelist()))
    er = net._effective_resistances
    feed(tag + ":er", er if er is not None else "None")


def random_resistances(rng, n, p, cplx=False, ints=False):
    """symmetric, connected (spanning path + random extra links)"""
    res = np.zeros((n, n), dtype=complex if cplx else float)
    perm = rng.permutation(n)
    pairs = [(perm[k], perm[k + 1]) for k in range(n - 1)]
    for a in range(n):
        for b in range(a):
            if rng.random() < p:
                pairs.append((a, b))
    for a, b in pairs:
        val = rng.integers(1, 9) if ints else rng.uniform(0.2, 7.0)
        if cplx:
            val = val + 1j * rng.uniform(0.1, 5.0)
        res[a, b] = res[b, a] = val
    if ints and not cplx:
        res = res.astype(int)
    return res


def measures(tag, net):
    n = net.N
    attempt(tag + ":str", str, net)
    attempt(tag + ":getadm", net.get_admittance)
    attempt(tag + ":getR", net.get_R)
    attempt(tag + ":lap", net.admittance_lapacian)
    attempt(tag + ":ad", net.admittive_degree)
    attempt(tag + ":anad", net.average_neighbors_admittive_degree)
    attempt(tag + ":lac", net.local_admittive_clustering)
    attempt(tag + ":gac", net.global_admittive_clustering)
    for a in range(n):
        for b in range(n):
            attempt(f"{tag}:er{a},{b}", net.effective_resistance, a, b)
    attempt(tag + ":er-neg", net.effective_resistance, -1, 0)
    attempt(tag + ":er-oob", net.effective_resistance, 0, n)
    attempt(tag + ":er-oob2", net.effective_resistance, n + 3, n + 3)
    attempt(tag + ":er-np", net.effective_resistance, np.int64(0), np.int32(n - 1))
    attempt(tag + ":er-arr", net.effective_resistance,
            np.array([0, 1]), np.array([0, 1]))
    attempt(tag + ":er-str", net.effective_resistance, "a", 0)
    # the diameter without a memo prints and fills the memo
    attempt(tag + ":diam0", net.diameter_effective_resistance)
    state(tag + ":s0", net)
    attempt(tag + ":avg", net.average_effective_resistance)
    state(tag + ":s1", net)
    attempt(tag + ":diam1", net.diameter_effective_resistance)
    for a in list(range(n)) + [-1, n, n + 2]:
        attempt(f"{tag}:ercc{a}", net.effective_resistance_closeness_centrality, a)
        attempt(f"{tag}:vcfb{a}", net.vertex_current_flow_betweenness, a)
    attempt(tag + ":ecfb", net.edge_current_flow_betweenness)
    state(tag + ":s2", net)


def main():
    # fixed small networks
    for name, factory in (("small", ResNetwork.SmallTestNetwork),
                          ("cplx", ResNetwork.SmallComplexNetwork)):
        net = attempt(name + ":make", factory)
        state(name + ":init", net)
        measures(name, net)
        attempt(name + ":upd", net.update_resistances, net.adjacency)
        state(name + ":upd-s", net)
        measures(name + ":u", net)
        # list input
        attempt(name + ":updl", net.update_resistances,
                (net.adjacency * 3).tolist())
        state(name + ":updl-s", net)
        measures(name + ":ul", net)

    # random networks, real / complex / integer
    rng = np.random.default_rng(20240518)
    case = 0
    for n in (2, 3, 4, 6, 9, 13):
        for p in (0.0, 0.3, 0.8):
            for kind in ("real", "cplx", "int"):
                case += 1
                tag = f"r{case}"
                res = random_resistances(rng, n, p, cplx=(kind == "cplx"),
                                         ints=(kind == "int"))
                net = attempt(tag + ":make", ResNetwork, res, silence_level=2)
                if net is None:
                    continue
                state(tag + ":init", net)
                measures(tag, net)
                # scale all resistances
                attempt(tag + ":scale", net.update_resistances, res * 2.5)
                state(tag + ":scale-s", net)
                measures(tag + ":sc", net)
                # memo handling across updates
                attempt(tag + ":avg2", net.average_effective_resistance)
                attempt(tag + ":back", net.update_resistances, res)
                state(tag + ":back-s", net)
                attempt(tag + ":diam2", net.diameter_effective_resistance)
                state(tag + ":diam2-s", net)
                # switch real <-> complex
                attempt(tag + ":tocplx", net.update_resistances,
                        res * (1 + 0.5j))
                state(tag + ":tocplx-s", net)
                measures(tag + ":tc", net)
                attempt(tag + ":update_adm", net.update_admittance)
                attempt(tag + ":update_R", net.update_R)
                state(tag + ":manual-s", net)

    # directed / asymmetric resistances
    for seed in (1, 2, 3):
        rng = np.random.default_rng(seed)
        n = 5 + seed
        res = random_resistances(rng, n, 0.4)
        res = np.triu(res) * 2.0 + np.tril(res)
        tag = f"asym{seed}"
        net = attempt(tag + ":make", ResNetwork, res, directed=True,
                      silence_level=2)
        if net is not None:
            state(tag + ":init", net)
            measures(tag, net)

    # zero resistances on existing links, wrong shapes, stale state
    rng = np.random.default_rng(77)
    res = random_resistances(rng, 6, 0.5)
    net = attempt("bad:make", ResNetwork, res, silence_level=2)
    zero = res.copy()
    zero[res != 0] = 0.0
    attempt("bad:zero", net.update_resistances, zero)
    state("bad:zero-s", net)
    measures("bad:z", net)
    attempt("bad:restore", net.update_resistances, res)
    attempt("bad:avg", net.average_effective_resistance)
    attempt("bad:small", net.update_resistances, res[:3, :3])
    state("bad:small-s", net)
    measures("bad:sm", net)
    attempt("bad:1d", net.update_resistances, [1.0, 2.0, 3.0])
    state("bad:1d-s", net)
    attempt("bad:str", net.update_resistances, "abc")
    state("bad:str-s", net)
    attempt("bad:restore2", net.update_resistances, res)
    state("bad:restore2-s", net)

    # adjacency changed without update_resistances(): stale R / admittance
    big = random_resistances(rng, 8, 0.5)

    def set_adj(network, adj):
        network.adjacency = adj

    attempt("stale:setadj", set_adj, net, (big != 0).astype(int))
    measures("stale", net)
    state("stale:s", net)
    attempt("stale:upd", net.update_resistances, big)
    state("stale:upd-s", net)
    measures("stale:u", net)
    smalladj = (res[:4, :4] != 0).astype(int)
    attempt("stale2:setadj", set_adj, net, smalladj)
    measures("stale2", net)
    state("stale2:s", net)

    print("DIGEST", H.hexdigest())


if __name__ == "__main__":
    main()
