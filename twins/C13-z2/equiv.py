"""Digest of the windowing / anomaly behaviour of Data and ClimateData."""
import contextlib
import hashlib
import io
import warnings

import numpy as np

from pyunicorn.core import Data, GeoGrid
from pyunicorn.climate import ClimateData

warnings.simplefilter("ignore")
H = hashlib.sha256()


def put(*items):
    for x in items:
        if isinstance(x, np.ndarray):
            H.update(repr((x.dtype.str, x.shape)).encode())
            H.update(np.ascontiguousarray(x).tobytes())
        elif isinstance(x, dict):
            for k in sorted(x):
                H.update(repr(k).encode())
                put(x[k])
        elif isinstance(x, (np.generic,)):
            H.update(repr((x.dtype.str, x.item())).encode())
        elif isinstance(x, (tuple, list)):
            H.update(type(x).__name__.encode())
            put(*x)
        elif x is None or isinstance(x, (str, bool, int, float, complex)):
            H.update(repr(x).encode())
        else:
            H.update(("obj:" + type(x).__name__).encode())
        H.update(b"|")


def state(d):
    put("state", d._observable, d._full_observable)
    if d.grid is None:
        put(None)
    else:
        put(d.grid.grid(), d.grid.grid_size(), d.grid.boundaries(),
            d.grid.N, d.grid.n_grid_points, d.grid.silence_level,
            type(d.grid).__name__)
    put(d._full_grid.grid(), d._full_grid.grid_size())
    put(getattr(d, "_mut_window", "n/a"))


def attempt(label, fn):
    buf = io.StringIO()
    try:
        with contextlib.redirect_stdout(buf):
            res = fn()
        put(label, "ok", res)
    except Exception as e:  # pylint: disable=broad-except
        put(label, "exc", type(e).__name__, str(e))
        res = None
    put(buf.getvalue())
    return res


def make_grid(rng, T, N, regular):
    if regular:
        time = np.arange(T, dtype=float)
    else:
        time = np.sort(rng.uniform(0, 50, T))
    lat = rng.uniform(-90, 90, N)
    lon = rng.uniform(0, 360, N)
    return GeoGrid(time, lat, lon, silence_level=2)


def windows(rng, grid):
    b = grid.boundaries()
    yield {"time_min": 0., "time_max": 0., "lat_min": 0., "lat_max": 0.,
           "lon_min": 0., "lon_max": 0.}
    for _ in range(6):
        t = np.sort(rng.uniform(b["time_min"] - 2, b["time_max"] + 2, 2))
        la = np.sort(rng.uniform(-95, 95, 2))
        lo = np.sort(rng.uniform(-5, 365, 2))
        yield {"time_min": t[0], "time_max": t[1], "lat_min": la[0],
               "lat_max": la[1], "lon_min": lo[0], "lon_max": lo[1]}
    # equal bounds along single axes
    yield {"time_min": 3., "time_max": 3., "lat_min": -40., "lat_max": 60.,
           "lon_min": 20., "lon_max": 300.}
    yield {"time_min": 1., "time_max": 30., "lat_min": 7., "lat_max": 7.,
           "lon_min": 20., "lon_max": 300.}
    yield {"time_min": 1., "time_max": 30., "lat_min": -40., "lat_max": 60.,
           "lon_min": 11., "lon_max": 11.}
    # exact grid values as closed bounds
    g = grid.grid()
    yield {"time_min": float(g["time"][1]), "time_max": float(g["time"][-2]),
           "lat_min": float(np.sort(g["lat"])[1]),
           "lat_max": float(np.sort(g["lat"])[-2]),
           "lon_min": float(np.sort(g["lon"])[1]),
           "lon_max": float(np.sort(g["lon"])[-2])}
    # reversed (empty) and far-away windows -> errors
    yield {"time_min": 5., "time_max": 1., "lat_min": -40., "lat_max": 60.,
           "lon_min": 20., "lon_max": 300.}
    yield {"time_min": 1., "time_max": 30., "lat_min": 60., "lat_max": -40.,
           "lon_min": 20., "lon_max": 300.}
    yield {"time_min": 1000., "time_max": 2000., "lat_min": 0., "lat_max": 0.,
           "lon_min": 0., "lon_max": 0.}
    # malformed windows
    yield {"time_min": 0., "time_max": 4.}
    yield {"time_min": 0., "lat_min": 0., "lat_max": 1., "lon_min": 0.,
           "lon_max": 1.}
    yield {"time_min": 0., "time_max": 4., "lat_min": 1., "lat_max": 1.}
    yield {"time_min": 0., "time_max": 4., "lat_min": 1., "lat_max": 2.,
           "lon_min": 3.}
    yield {"time_min": "a", "time_max": "b", "lat_min": 0., "lat_max": 0.,
           "lon_min": 0., "lon_max": 0.}
    yield {"time_min": 0., "time_max": 4., "lat_min": None, "lat_max": 3.,
           "lon_min": 0., "lon_max": 50.}
    yield None


def derived(cd):
    a1 = attempt("anomaly", cd.anomaly)
    a2 = attempt("anomaly2", cd.anomaly)
    put("cached", a1 is a2, a1 is cd._observable if a1 is not None else None)
    p1 = attempt("phase_mean", cd.phase_mean)
    p2 = attempt("phase_mean2", cd.phase_mean)
    put("cachedp", p1 is p2)
    attempt("phase_indices", cd.phase_indices)
    if a1 is not None and p1 is not None and cd.time_cycle:
        tc = cd.time_cycle
        if isinstance(tc, int) and tc > 0 and not cd.anomalies:
            rec = np.array(a1)
            for i in range(tc):
                rec[i::tc] += p1[i]
            put("rec", rec)
    put(cd._observable.shape, None if a1 is None else a1.shape)


def run_data(seed):
    rng = np.random.default_rng(seed)
    T, N = int(rng.integers(6, 40)), int(rng.integers(3, 25))
    grid = make_grid(rng, T, N, regular=bool(seed % 2))
    dt = [np.float64, np.float32, np.int64][seed % 3]
    obs = (rng.normal(size=(T, N)) * 100).astype(dt)
    d = attempt("ctor", lambda: Data(obs, grid, silence_level=seed % 3))
    state(d)
    for w in windows(rng, grid):
        attempt("set_window", lambda w=w: d.set_window(w))
        state(d)
        put(d.observable() is d._observable)
        attempt("window", d.window)
        if rng.random() < 0.3:
            attempt("global", d.set_global_window)
            state(d)
    # constructor with windows
    for w in list(windows(rng, grid))[:12]:
        d2 = attempt("ctor_w", lambda w=w: Data(obs, grid, window=w,
                                                silence_level=2))
        if d2 is not None:
            state(d2)


def run_climate(seed):
    rng = np.random.default_rng(1000 + seed)
    T, N = int(rng.integers(6, 40)), int(rng.integers(3, 25))
    grid = make_grid(rng, T, N, regular=bool(seed % 2))
    dt = [np.float64, np.float32, np.int64, np.complex128][seed % 4]
    obs = (rng.normal(size=(T, N)) * 100).astype(dt)
    cycles = [1, 2, 3, 5, 12, T, T + 3, 0, -2, 4.0, None]
    tc = cycles[seed % len(cycles)]
    anomalies = (seed % 5 == 0)
    cd = attempt("cctor", lambda: ClimateData(
        obs, grid, tc, anomalies=anomalies, silence_level=seed % 3))
    state(cd)
    put(cd.__cache_state__())
    derived(cd)
    for w in windows(rng, grid):
        attempt("cset_window", lambda w=w: cd.set_window(w))
        state(cd)
        put(cd.__cache_state__())
        derived(cd)
        if rng.random() < 0.4:
            attempt("cglobal", cd.set_global_window)
            state(cd)
            derived(cd)
    for w in list(windows(rng, grid))[:10]:
        c2 = attempt("cctor_w", lambda w=w: ClimateData(
            obs, grid, tc, anomalies=anomalies, window=w, silence_level=2))
        if c2 is not None:
            state(c2)
            derived(c2)
    # odd observables
    for bad in (obs[:, 0], obs.reshape(T, N, 1), np.ma.masked_less(
            obs.real, 0.)):
        def mk(bad=bad):
            c = ClimateData.SmallTestData()
            c._observable = bad
            c.time_cycle = 2
            c._mut_window += 1
            return c
        c3 = mk()
        attempt("odd_anom", c3.anomaly)
        attempt("odd_pm", c3.phase_mean)


def small():
    cd = ClimateData.SmallTestData()
    derived(cd)
    state(cd)
    cd.set_window({"time_min": 0., "time_max": 0., "lat_min": 10.,
                   "lat_max": 20., "lon_min": 5., "lon_max": 10.})
    state(cd)
    derived(cd)
    cd.set_global_window()
    state(cd)
    derived(cd)
    attempt("sel", lambda: cd.indices_selected_phases([0, 1, 4]))
    np.random.seed(5)
    attempt("shuf", cd.shuffled_anomaly)
    d = Data.SmallTestData()
    state(d)
    attempt("str", lambda: str(d))


for s in range(24):
    run_data(s)
for s in range(33):
    run_climate(s)
small()
print(H.hexdigest())
