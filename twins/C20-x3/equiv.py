"""Digest of the climate Cython wrappers (mutual_information, spearman_corr)
including the sizes and argument types they reject."""
import hashlib

import numpy as np

from pyunicorn.climate._ext.numerics import spearman_corr, mutual_information
from pyunicorn.climate import ClimateData, MutualInfoClimateNetwork

h = hashlib.sha256()


def feed(tag, value):
    if isinstance(value, np.ndarray):
        h.update(f"{tag}:{value.dtype}:{value.shape}:{value.flags.c_contiguous}"
                 f":{value.flags.owndata}:".encode())
        h.update(np.ascontiguousarray(value).tobytes())
    else:
        h.update(f"{tag}:{value!r}".encode())


def run(tag, fun, *args):
    try:
        feed(tag, fun(*args))
    except Exception as e:  # pylint: disable=broad-except
        feed(tag, type(e).__name__ + ":" + str(e))


rng = np.random.RandomState(320)

for N, n_samples in [(0, 0), (0, 6), (1, 1), (1, 9), (2, 1), (3, 10), (6, 50),
                     (10, 7), (4, 300), (17, 33)]:
    a = rng.standard_normal((N, n_samples)).astype(np.float32)
    if a.size > 1:
        rmin, rmax = float(a.min()), float(a.max())
        scaling = 1. / (rmax - rmin)
    else:
        rmin, scaling = -1.0, 0.25
    for n_bins in (1, 2, 5, 32):
        run(f"mi{N},{n_samples},{n_bins}", mutual_information,
            a, n_samples, N, n_bins, scaling, rmin)
    # rejected sizes / arguments, in every combination with a bad n_bins
    for n_bins in (0, -1, -2**31, 4):
        run(f"miB{N},{n_samples},{n_bins}", mutual_information,
            a, n_samples, N, n_bins, scaling, rmin)
        run(f"miN{N},{n_samples},{n_bins}", mutual_information,
            a, n_samples, -1, n_bins, scaling, rmin)
        run(f"miS{N},{n_samples},{n_bins}", mutual_information,
            a, -2, N, n_bins, scaling, rmin)
        run(f"miNS{N},{n_samples},{n_bins}", mutual_information,
            a, -2, -3, n_bins, scaling, rmin)
        run(f"miD{N},{n_samples},{n_bins}", mutual_information,
            a.astype(np.float64), n_samples, N, n_bins, scaling, rmin)
        run(f"miF{N},{n_samples},{n_bins}", mutual_information,
            np.asfortranarray(a), n_samples, N, n_bins, scaling, rmin)
        run(f"miNone{n_bins}", mutual_information,
            None, n_samples, N, n_bins, scaling, rmin)
        run(f"miT{n_bins}", mutual_information,
            a, n_samples, N, float(n_bins) + 0.5, scaling, rmin)
        run(f"miO{n_bins}", mutual_information,
            a, n_samples, N, 2**40 + n_bins, scaling, rmin)
    run("miHuge", mutual_information, a, n_samples, N, 2**30, scaling, rmin)

for m, tmax in [(0, 0), (0, 5), (3, 0), (1, 1), (2, 2), (5, 3), (7, 11),
                (12, 40)]:
    data = rng.standard_normal((m, tmax))
    ranked = (data.argsort(axis=1).argsort(axis=1) + 1.0).astype(np.float32)
    mask = (rng.random_sample((m, tmax)) < 0.6).astype(np.int8)
    run(f"sp{m},{tmax}", spearman_corr, m, tmax, mask, ranked)
    run(f"spD{m},{tmax}", spearman_corr, m, tmax, mask.astype(bool), ranked)
    run(f"spN{m},{tmax}", spearman_corr, -1, tmax, mask, ranked)

# public API
data = ClimateData.SmallTestData()
for kw in ({"threshold": 0.5}, {"link_density": 0.3}):
    for winter_only in (False, True):
        try:
            net = MutualInfoClimateNetwork(data, winter_only=winter_only,
                                           silence_level=2, **kw)
            feed("net", np.asarray(net.mutual_information()))
            feed("adj", np.asarray(net.adjacency))
            feed("bins", np.asarray(
                net._cython_calculate_mutual_information(
                    data.anomaly(), n_bins=7)))
            run("bins0", net._cython_calculate_mutual_information,
                data.anomaly(), 0)
        except Exception as e:  # pylint: disable=broad-except
            feed("net", type(e).__name__ + ":" + str(e))

print(h.hexdigest())
