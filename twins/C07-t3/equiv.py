"""Equivalence digest for twin_3 (composition of recurrence matrices: lagged
joint recurrence plots in timeseries/joint_recurrence_plot.py and the block
assembly in timeseries/inter_system_recurrence_network.py).  Run as

    PYTHONPATH=<worktree>/src /venv/bin/python equiv.py
"""
import hashlib
import io
import contextlib

import numpy as np

from pyunicorn.timeseries import RecurrencePlot, CrossRecurrencePlot, \
    JointRecurrencePlot, JointRecurrenceNetwork, \
    InterSystemRecurrenceNetwork

H = hashlib.sha256()


def feed(tag, obj):
    H.update(repr(tag).encode())
    if isinstance(obj, np.ndarray):
        H.update(str(obj.dtype).encode())
        H.update(repr(obj.shape).encode())
        H.update(repr((obj.flags.c_contiguous, obj.flags.owndata,
                       obj.flags.writeable)).encode())
        H.update(np.ascontiguousarray(obj).tobytes())
    elif isinstance(obj, (list, tuple)):
        for k, o in enumerate(obj):
            feed((tag, k), o)
    else:
        H.update(repr(obj).encode())


def attempt(tag, fun, *args, **kwargs):
    out = io.StringIO()
    try:
        with contextlib.redirect_stdout(out):
            res = fun(*args, **kwargs)
        feed(tag, res)
    except BaseException as exc:  # pylint: disable=broad-except
        feed(tag, (type(exc).__name__, str(exc)))
    feed((tag, "stdout"), out.getvalue())


def guarded(res, fun, *args):
    try:
        res.append(fun(*args))
    except BaseException as exc:  # pylint: disable=broad-except
        res.append((type(exc).__name__, str(exc)))


METRICS = ("manhattan", "euclidean", "supremum")


def jrp_state(jrp):
    return [jrp.JR, jrp.N, type(jrp.N).__name__, jrp.R, jrp._mut_R,
            jrp._mut_embedding, jrp.embedding, jrp.lag,
            jrp.recurrence_matrix() is jrp.JR,
            jrp.recurrence_rate(), jrp.determinism(), jrp.laminarity(),
            jrp.diagline_dist(), jrp.vertline_dist()]


# --- 1. joint recurrence plots: constructor ---------------------------------
rng = np.random.default_rng(70721)
for n in (1, 2, 9, 30):
    x = rng.standard_normal(n)
    y = rng.standard_normal(n)
    x2 = rng.standard_normal((n, 2))
    y3 = rng.standard_normal((n, 3))
    lags = sorted({0, 1, -1, 4, -4, n - 1, 1 - n, n, -n, n + 1, -n - 1})
    for lag in lags:
        for kw in (dict(threshold=(0.5, 0.9)), dict(threshold_std=(0.4, 0.8)),
                   dict(recurrence_rate=(0.3, 0.15)), dict()):
            for mx, my in (("supremum", "supremum"), ("manhattan", "euclidean"),
                           ("euclidean", "manhattan")):
                attempt(("JRP", n, lag, sorted(kw.items()), mx, my),
                        lambda x=x, y=y, lag=lag, kw=kw, m=(mx, my):
                        jrp_state(JointRecurrencePlot(
                            x, y, metric=m, lag=lag, silence_level=1, **kw)))
            attempt(("JRP-multi", n, lag, sorted(kw.items())),
                    lambda lag=lag, kw=kw, x2=x2, y3=y3:
                    jrp_state(JointRecurrencePlot(
                        x2, y3, lag=lag, silence_level=2, normalize=True,
                        **kw)))
            attempt(("JRP-embed", n, lag, sorted(kw.items())),
                    lambda x=x, y=y, lag=lag, kw=kw:
                    jrp_state(JointRecurrencePlot(
                        x, y, lag=lag, dim=(2, 3), tau=(2, 1),
                        silence_level=2, **kw)))

#  unusual lag types
x = rng.standard_normal(20)
y = rng.standard_normal(20)
for lag in (np.int64(3), np.int32(-3), np.int8(-5), True, 2.0, -2.5,
            np.float64(1.0), None, "1", np.nan):
    for kw in (dict(threshold=(0.5, 0.9)), dict(recurrence_rate=(0.3, 0.15))):
        attempt(("JRP-lagtype", repr(lag), sorted(kw.items())),
                lambda lag=lag, kw=kw:
                jrp_state(JointRecurrencePlot(x, y, lag=lag,
                                              silence_level=2, **kw)))
attempt("JRP-lenmismatch",
        lambda: JointRecurrencePlot(x, y[:-1], threshold=(0.1, 0.1)))
for kw in (dict(threshold=(0.5,)), dict(threshold=0.5),
           dict(recurrence_rate=(0.5,)), dict(recurrence_rate=(0.5, 1.5)),
           dict(threshold_std=(0.5,)), dict(threshold=("a", 0.5))):
    attempt(("JRP-badkw", repr(kw)),
            lambda kw=kw: jrp_state(JointRecurrencePlot(
                x, y, lag=2, silence_level=2, **kw)))

# --- 2. joint recurrence plots: call sequences ------------------------------
rng = np.random.default_rng(70722)


def joint_sequence(cls, metric):
    x = rng.standard_normal(26)
    y = rng.standard_normal(26)
    obj = cls(x, y, metric=(metric, "supremum"), lag=3,
              threshold=(0.7, 0.6), silence_level=0)
    net = isinstance(obj, JointRecurrenceNetwork)

    def snap():
        res = jrp_state(obj)
        if net:
            res += [obj.adjacency, obj.n_links, obj.degree()]
        return res
    res = [snap()]
    first = obj.JR
    obj.set_fixed_recurrence_rate((0.2, 0.25))
    res += [snap(), first is obj.JR, first.copy()]
    obj.set_fixed_threshold_std((0.5, 0.5))
    res.append(snap())
    for lag in (-4, 0, 25, -25, 26, -26, 30, -30, np.int16(-2), 1.5, None):
        obj.lag = lag
        for fun, arg in ((obj.set_fixed_threshold, (0.9, 0.8)),
                         (obj.set_fixed_recurrence_rate, (0.1, 0.3)),
                         (obj.set_fixed_threshold_std, (0.7, 0.2))):
            out = io.StringIO()
            try:
                with contextlib.redirect_stdout(out):
                    fun(arg)
                res.append("ok")
            except BaseException as exc:  # pylint: disable=broad-except
                res.append((type(exc).__name__, str(exc)))
            res.append(out.getvalue())
            res.append([obj.JR, obj.N, obj.embedding, obj._mut_embedding,
                        obj._mut_R])
            if net:
                res.append(obj.adjacency)
    obj.lag = 2
    #  error half-way: x done, y fails -> state after failure
    for fun, arg in ((obj.set_fixed_threshold, (0.5,)),
                     (obj.set_fixed_recurrence_rate, (0.5, 7)),
                     (obj.set_fixed_threshold, (0.5, "b"))):
        guarded(res, fun, arg)
        res.append([obj.JR, obj.N, obj.embedding, obj._mut_embedding])
    #  pruned / replaced embeddings
    obj.x_embedded = obj.x_embedded[:20]
    obj.y_embedded = obj.y_embedded[:20]
    obj.set_fixed_threshold((0.8, 0.8))
    res.append(snap())
    obj.metric = ("euclidean", "manhattan")
    obj.set_fixed_recurrence_rate((0.3, 0.3))
    res.append(snap())
    return res


for metric in METRICS:
    for cls in (JointRecurrencePlot, JointRecurrenceNetwork):
        attempt(("joint-sequence", metric, cls.__name__),
                joint_sequence, cls, metric)

# --- 3. inter system recurrence networks ------------------------------------
rng = np.random.default_rng(70723)


def isrn_state(net):
    return [net.adjacency, net.N, net.N_x, net.N_y, net.n_links,
            net.rp_x.R, net.rp_y.R, net.crp_xy.CR,
            net.inter_system_recurrence_matrix(),
            net.internal_recurrence_rates(), net.cross_recurrence_rate(),
            net.cross_global_clustering_xy(), net.cross_transitivity_yx()]


for metric in METRICS:
    for nx, ny, d in ((1, 1, 1), (12, 12, 1), (20, 9, 1), (7, 25, 3),
                      (15, 15, 2)):
        x = rng.standard_normal((nx, d))
        y = rng.standard_normal((ny, d))
        for kw in (dict(threshold=(0.5, 0.6, 0.7)),
                   dict(recurrence_rate=(0.2, 0.1, 0.15)),
                   dict(threshold=(0.0, np.inf, 0.5)),
                   dict(recurrence_rate=(0.0, 1.0, 0.5)),
                   dict(), dict(threshold=(0.5, 0.6)),
                   dict(recurrence_rate=(0.5, 0.6, 1.6))):
            for silence in (0, 2):
                attempt(("ISRN", metric, nx, ny, d, repr(kw), silence),
                        lambda x=x, y=y, kw=kw, m=metric, s=silence:
                        isrn_state(InterSystemRecurrenceNetwork(
                            x, y, metric=m, silence_level=s, **kw)))
    xs = rng.standard_normal(30)
    ys = rng.standard_normal(22)
    for dim, tau in ((2, (1, 1)), (3, (2, 1)), (4, (3, 5))):
        attempt(("ISRN-embed", metric, dim, tau),
                lambda m=metric, dim=dim, tau=tau, xs=xs, ys=ys:
                isrn_state(InterSystemRecurrenceNetwork(
                    xs, ys, metric=m, dim=dim, tau=tau, normalize=True,
                    recurrence_rate=(0.1, 0.1, 0.1), silence_level=2)))
attempt("ISRN-dim-mismatch",
        lambda: InterSystemRecurrenceNetwork(
            rng.standard_normal((5, 2)), rng.standard_normal((5, 3)),
            threshold=(1, 1, 1)))


def isrn_sequence(metric):
    x = rng.standard_normal((14, 2))
    y = rng.standard_normal((10, 2))
    net = InterSystemRecurrenceNetwork(x, y, metric=metric,
                                       threshold=(0.8, 0.8, 0.8),
                                       silence_level=1)
    res = [isrn_state(net)]
    old = (net.rp_x, net.rp_y, net.crp_xy)
    m1 = net.set_fixed_recurrence_rate((0.3, 0.2, 0.1))
    res += [m1, net.rp_x is old[0], net.rp_y is old[1], net.crp_xy is old[2],
            net.rp_x.R, net.rp_y.R, net.crp_xy.CR, net.adjacency,
            net.inter_system_recurrence_matrix()]
    m2 = net.set_fixed_threshold((0.4, 1.2, 0.9))
    res += [m2, net.inter_system_recurrence_matrix(),
            net.inter_system_recurrence_matrix()
            is net.inter_system_recurrence_matrix()]
    #  the sub-plots are live objects: changes show up in the next assembly
    net.rp_x.set_fixed_recurrence_rate(0.5)
    net.crp_xy.set_fixed_threshold(0.2)
    res.append(net.inter_system_recurrence_matrix())
    #  half-failed updates keep the already replaced sub-plots
    for fun, arg in ((net.set_fixed_threshold, (0.1, 0.2)),
                     (net.set_fixed_recurrence_rate, (0.1, 3.0, 0.1)),
                     (net.set_fixed_threshold, (0.3, 0.3, "c")),
                     (net.set_fixed_threshold, 0.3)):
        guarded(res, fun, arg)
        res += [net.rp_x.R, net.rp_y.R, net.crp_xy.CR]
        guarded(res, net.inter_system_recurrence_matrix)
    #  inconsistent bookkeeping must fail in the same way
    net.set_fixed_threshold((0.5, 0.5, 0.5))
    for n_x, n_tot in ((13, 24), (14, 25), (15, 24), (0, 24), (14, 14),
                       (-10, 24), (14, 24)):
        net.N_x, net.N = n_x, n_tot
        guarded(res, net.inter_system_recurrence_matrix)
        guarded(res, net.set_fixed_threshold, (0.5, 0.5, 0.5))
    return res


for metric in METRICS:
    attempt(("ISRN-sequence", metric), isrn_sequence, metric)

print(H.hexdigest())
