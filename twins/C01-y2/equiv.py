"""Equivalence digest for ClimateNetwork threshold / similarity handling."""
import contextlib
import hashlib
import io
import warnings

import numpy as np

from pyunicorn.core.geo_grid import GeoGrid
from pyunicorn.climate.climate_data import ClimateData
from pyunicorn.climate.climate_network import ClimateNetwork
from pyunicorn.climate.tsonis import TsonisClimateNetwork
from pyunicorn.climate.havlin import HavlinClimateNetwork

warnings.simplefilter("ignore")
H = hashlib.sha256()


def feed(tag, value):
    if isinstance(value, np.ndarray):
        H.update(f"{tag}:{type(value).__name__}:{value.dtype}:"
                 f"{value.shape}:".encode())
        H.update(np.ascontiguousarray(value).tobytes())
    elif isinstance(value, tuple):
        for i, v in enumerate(value):
            feed(f"{tag}[{i}]", v)
    else:
        H.update(f"{tag}:{type(value).__name__}:{value!r};".encode())


def call(tag, fn, *args, **kwds):
    out = io.StringIO()
    try:
        with contextlib.redirect_stdout(out):
            res = fn(*args, **kwds)
        feed(tag, res)
    except Exception as e:  # pylint: disable=broad-except
        feed(tag + "!exc", f"{type(e).__name__}:{e}")
    feed(tag + ":stdout", out.getvalue())


def state(tag, net):
    feed(tag + "/A", net.adjacency)
    feed(tag + "/mut", net._mut_clim)
    feed(tag + "/cs", repr(tuple(
        x if isinstance(x, (bool, int, str)) else type(x).__name__
        for x in net.__cache_state__())))
    feed(tag + "/thr", net._threshold)
    feed(tag + "/nl", net._non_local)
    feed(tag + "/ld", net.link_density)
    feed(tag + "/nlinks", net.n_links)
    feed(tag + "/sim", net._similarity_measure)
    call(tag + "/deg", net.degree)
    call(tag + "/clust", net.local_clustering)
    call(tag + "/cd", net.correlation_distance)
    call(tag + "/lcw", net.local_correlation_weighted_degree
         if hasattr(net, "local_correlation_weighted_degree")
         else net.degree)
    call(tag + "/str", net.__str__)


def random_net(rng, n_lat, n_lon, directed, non_local, silence, **kw):
    with contextlib.redirect_stdout(io.StringIO()):
        grid = GeoGrid.RegularGrid(
            np.arange(5), (np.linspace(-60, 60, n_lat),
                           np.linspace(-150, 150, n_lon)), silence_level=2)
    N = grid.N
    S = rng.uniform(-1, 1, size=(N, N))
    if not directed:
        S = 0.5 * (S + S.T)
    np.fill_diagonal(S, 1.0)
    return ClimateNetwork(grid=grid, similarity_measure=S, directed=directed,
                          non_local=non_local, silence_level=silence, **kw)


def exercise(tag, net, rng):
    state(tag + "/0", net)
    for step, thr in enumerate(rng.uniform(0.05, 0.9, size=3)):
        call(tag + f"/set_thr{step}", net.set_threshold, float(thr))
        state(tag + f"/thr{step}", net)
    for step, ld in enumerate((0.0, 0.13, 0.5, 0.77, 1.0)):
        call(tag + f"/tfl{step}", net.threshold_from_link_density, ld)
        call(tag + f"/set_ld{step}", net.set_link_density, ld)
        state(tag + f"/ld{step}", net)
    for step, nl in enumerate((True, True, False, 1, 0, False, True)):
        call(tag + f"/set_nl{step}", net.set_non_local, nl)
        state(tag + f"/nl{step}", net)
    call(tag + "/regen", net._regenerate_network)
    state(tag + "/regen", net)
    call(tag + "/ldf", net.link_density_function, 4)
    # bad arguments
    call(tag + "/tfl_bad1", net.threshold_from_link_density, -0.5)
    call(tag + "/tfl_bad2", net.threshold_from_link_density, None)
    call(tag + "/tfl_bad3", net.threshold_from_link_density, float("nan"))
    call(tag + "/set_ld_bad", net.set_link_density, 7.0)
    state(tag + "/bad", net)
    call(tag + "/set_nl_arr", net.set_non_local, np.array([True, False]))
    call(tag + "/set_nl_nan", net.set_non_local, float("nan"))
    state(tag + "/nan", net)
    call(tag + "/set_thr_bad", net.set_threshold, "x")
    feed(tag + "/thr_after_bad", net._threshold)
    call(tag + "/set_thr_ok", net.set_threshold, 0.4)
    # deleted similarity matrix
    del net._similarity_measure
    call(tag + "/del/sim", net.similarity_measure)
    call(tag + "/del/set_thr", net.set_threshold, 0.3)
    feed(tag + "/del/thr", net._threshold)
    call(tag + "/del/set_nl", net.set_non_local, not net._non_local)
    feed(tag + "/del/nl", net._non_local)
    call(tag + "/del/set_ld", net.set_link_density, 0.3)
    feed(tag + "/del/A", net.adjacency)
    feed(tag + "/del/mut", net._mut_clim)


def main():
    rng = np.random.default_rng(987654321)
    with contextlib.redirect_stdout(io.StringIO()):
        nets = [("small", ClimateNetwork.SmallTestNetwork())]
    k = 0
    for (n_lat, n_lon) in ((2, 2), (3, 4), (5, 5)):
        for directed in (False, True):
            for non_local in (False, True):
                kw = ({"threshold": 0.35} if k % 2
                      else {"link_density": 0.3})
                out = io.StringIO()
                with contextlib.redirect_stdout(out):
                    net = random_net(rng, n_lat, n_lon, directed, non_local,
                                     k % 3, **kw)
                tag = f"rnd{k}"
                feed(tag + ":ctor-stdout", out.getvalue())
                nets.append((tag, net))
                k += 1
    for tag, net in nets:
        exercise(tag, net, rng)

    # subclasses re-running the constructor on a live object
    with contextlib.redirect_stdout(io.StringIO()):
        ts = TsonisClimateNetwork.SmallTestNetwork()
    state("tsonis/0", ts)
    for step, w in enumerate((False, True, False)):
        call(f"tsonis/wo{step}", ts.set_winter_only, w)
        state(f"tsonis/wo{step}", ts)
        call(f"tsonis/nl{step}", ts.set_non_local, bool(step % 2 == 0))
        state(f"tsonis/nl{step}", ts)
        call(f"tsonis/ld{step}", ts.set_link_density, 0.2 + 0.2 * step)
        state(f"tsonis/ld{step}", ts)
    with contextlib.redirect_stdout(io.StringIO()):
        hv = HavlinClimateNetwork(ClimateData.SmallTestData(), max_delay=2,
                                  threshold=0.5, silence_level=2)
    state("havlin/0", hv)
    for step, d in enumerate((1, 3)):
        call(f"havlin/md{step}", hv.set_max_delay, d)
        state(f"havlin/md{step}", hv)
        call(f"havlin/nl{step}", hv.set_non_local, step == 0)
        state(f"havlin/nl{step}", hv)
    print(len(nets), H.hexdigest())


main()
