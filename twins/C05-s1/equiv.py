"""Equivalence digest for the copy family of Network (property C05)."""
import hashlib
import io
import contextlib

import numpy as np
import scipy.sparse as sp
import igraph

from pyunicorn.core.network import Network
from pyunicorn.core.spatial_network import SpatialNetwork
from pyunicorn.core.geo_network import GeoNetwork
from pyunicorn.core.grid import Grid
from pyunicorn.core.geo_grid import GeoGrid

H = hashlib.sha256()


def put(*items):
    for it in items:
        if isinstance(it, np.ndarray):
            H.update(str(it.dtype).encode() + str(it.shape).encode())
            H.update(np.ascontiguousarray(it).tobytes())
        else:
            H.update(repr(it).encode())
        H.update(b"|")


def state(net):
    put(type(net).__name__, net.directed, net.silence_level, net.N,
        net.n_links, repr(net.link_density), str(net.sp_dtype),
        type(net.sp_A).__name__, str(net.sp_A.dtype), net.adjacency,
        net.graph.is_directed(), net.graph.vcount(),
        sorted(net.graph.get_edgelist()), sorted(net.graph.vs.attributes()),
        sorted(net.graph.es.attributes()), net.node_weights,
        repr(net.total_node_weight), repr(net.mean_node_weight),
        net._mut_A, net._mut_nw, net._mut_la, str(net))
    for a in sorted(net.graph.es.attributes()):
        put(a, net.link_attribute(a))
    put(net.degree())


def attempt(label, fn):
    out = io.StringIO()
    try:
        with contextlib.redirect_stdout(out):
            res = fn()
    except Exception as e:  # pylint: disable=broad-except
        put(label, "EXC", type(e).__name__, str(e))
        return None
    put(label, "OK", out.getvalue())
    return res


def random_net(rng, N, p, directed, weights=True, sparse=False, attr=False):
    A = (rng.random((N, N)) < p).astype(int)
    np.fill_diagonal(A, 0)
    if not directed:
        A = np.triu(A, 1)
        A = A + A.T
    adj = sp.csr_matrix(A) if sparse else A
    w = rng.random(N) * 3 if weights else None
    net = Network(adjacency=adj, directed=directed, node_weights=w,
                  silence_level=int(rng.integers(0, 4)))
    if attr:
        W = rng.random((N, N))
        if not directed:
            W = W + W.T
        net.set_link_attribute("lw", W)
        net.set_link_attribute("other", np.round(W * 10))
    return net


def main():
    rng = np.random.default_rng(20240508)
    nets = [Network.SmallTestNetwork(), Network.SmallDirectedTestNetwork()]
    for N in (2, 3, 5, 9, 17):
        for p in (0.0, 0.15, 0.5, 1.0):
            for directed in (False, True):
                nets.append(random_net(
                    rng, N, p, directed, weights=bool(rng.integers(0, 2)),
                    sparse=bool(rng.integers(0, 2)),
                    attr=bool(rng.integers(0, 2))))
    # single link, isolated nodes, edge list, igraph
    nets.append(Network(edge_list=[[0, 3]], n_nodes=6, directed=False))
    nets.append(Network(edge_list=[[4, 1]], n_nodes=5, directed=True,
                        node_weights=[1, 2, 3, 4, 5]))
    nets.append(Network(edge_list=[], n_nodes=4))
    g = igraph.Graph(n=7, edges=[(0, 1), (1, 2), (5, 6)], directed=False)
    g.vs["node_weight_nsi"] = [0.5, 1.5, 2.5, 3.5, 4.5, 5.5, 6.5]
    g.es["lw"] = [1.25, 2.5, 3.75]
    nets.append(Network.FromIGraph(g, silence_level=2))
    with contextlib.redirect_stdout(io.StringIO()):
        nets.append(SpatialNetwork.SmallTestNetwork())
        nets.append(GeoNetwork.SmallTestNetwork())
        nets.append(GeoNetwork(grid=GeoGrid.SmallTestGrid(),
                               adjacency=Network.SmallDirectedTestNetwork()
                               .adjacency, directed=True,
                               node_weight_type="irrigation",
                               silence_level=2))

    for k, net in enumerate(nets):
        put("NET", k)
        state(net)
        c = attempt("copy", net.copy)
        if c is not None:
            state(c)
            # no aliasing between original and copy
            put(c.sp_A is net.sp_A, c.node_weights is net.node_weights,
                c.graph is net.graph)
        u = attempt("undirected_copy", net.undirected_copy)
        if u is not None:
            state(u)
        perm = rng.permutation(net.N)
        pc = attempt("permuted_copy", lambda: net.permuted_copy(perm))
        if pc is not None:
            state(pc)
        pl = attempt("permuted_copy_list",
                     lambda: net.permuted_copy(list(perm[::-1])))
        if pl is not None:
            state(pl)
        attempt("perm_bad_dup", lambda: net.permuted_copy([0] * net.N))
        attempt("perm_bad_short", lambda: net.permuted_copy(perm[:-1]))
        attempt("perm_bad_float",
                lambda: net.permuted_copy(perm.astype(float)))
        for node, prop in ((-1, 0.5), (0, 0.2), (net.N - 1, 0.0),
                           (-net.N, 1.0), (net.N, 0.3), (-net.N - 1, 0.3)):
            s = attempt(f"splitted_copy{node},{prop}",
                        lambda: net.splitted_copy(node=node, proportion=prop))
            if s is not None:
                state(s)
        # original untouched by all of the above
        state(net)
        # copy of a copy after mutation of the original
        if c is not None:
            net.node_weights = np.arange(net.N) + 0.25
            state(c)
            c2 = attempt("copy2", net.copy)
            if c2 is not None:
                state(c2)

    # keyword helper must not leak state between calls
    base = Network.SmallTestNetwork()
    first = base.undirected_copy()
    second = base.copy()
    put(first.directed, second.directed, base.directed)
    d = Network.SmallDirectedTestNetwork()
    put(d.undirected_copy().directed, d.copy().directed,
        d.permuted_copy([5, 4, 3, 2, 1, 0]).directed,
        d.splitted_copy().directed, d.directed)
    print(H.hexdigest())


if __name__ == "__main__":
    main()
