"""Equivalence digest for cos-lat node weights and area weighted
connectivity of GeoNetwork."""
import contextlib
import hashlib
import io
import warnings
import numpy as np

from pyunicorn.core.geo_grid import GeoGrid
from pyunicorn.core.geo_network import GeoNetwork

warnings.simplefilter("ignore")
H = hashlib.sha256()
DEBUG = False


def feed(tag, obj):
    H.update(tag.encode())
    if isinstance(obj, np.ndarray):
        H.update(str(obj.dtype).encode() + str(obj.shape).encode())
        H.update(np.ascontiguousarray(obj).tobytes())
    elif isinstance(obj, np.generic):
        H.update(str(obj.dtype).encode() + repr(obj.item()).encode())
    elif isinstance(obj, (tuple, list)):
        H.update(type(obj).__name__.encode())
        for k, o in enumerate(obj):
            feed(f"{tag}[{k}]", o)
    else:
        H.update(type(obj).__name__.encode() + repr(obj).encode())


def attempt(tag, fun, *args, **kwargs):
    out = io.StringIO()
    try:
        with contextlib.redirect_stdout(out):
            res = fun(*args, **kwargs)
        feed(tag, res)
    except Exception as e:  # pylint: disable=broad-except
        feed(tag + ":exc", type(e).__name__ + ":" + str(e))
        if DEBUG:
            print(tag, type(e).__name__, e)
    feed(tag + ":stdout", out.getvalue())


class Traced(GeoNetwork):
    """Records in which order grid / adjacency are consulted."""
    log = []

    @property
    def adjacency(self):
        Traced.log.append("adjacency")
        return GeoNetwork.adjacency.fget(self)

    @adjacency.setter
    def adjacency(self, adjacency):
        GeoNetwork.adjacency.fset(self, adjacency)


class TracedGrid(GeoGrid):
    def cos_lat(self):
        Traced.log.append("cos_lat")
        return GeoGrid.cos_lat(self)


rng = np.random.default_rng(4711)
MEASURES = ("area_weighted_connectivity", "inarea_weighted_connectivity",
            "outarea_weighted_connectivity",
            "average_neighbor_area_weighted_connectivity",
            "max_neighbor_area_weighted_connectivity",
            "total_link_distance", "intotal_link_distance",
            "outtotal_link_distance")

for n in (2, 6, 23, 90):
    for directed in (False, True):
        for dens in (0.0, 0.15, 0.6):
            lat = rng.uniform(-90, 90, n)
            lon = rng.uniform(-180, 180, n)
            if n >= 6:
                lat[0], lat[1] = 90., -90.         # zero weight nodes
            A = (rng.random((n, n)) < dens).astype(np.int8)
            np.fill_diagonal(A, 0)
            if not directed:
                A = np.triu(A, 1)
                A = A + A.T
            tag = f"n{n}d{int(directed)}p{dens}"
            for sl in (0, 2):
                grid = GeoGrid(np.arange(3.), lat, lon, silence_level=2)
                nets = []

                def make(sl=sl, grid=grid, A=A, directed=directed, nets=nets):
                    nets.append(GeoNetwork(grid, adjacency=A,
                                           directed=directed,
                                           silence_level=sl))
                attempt(tag + f"s{sl}:init", make)
                net = nets[0]
                feed(tag + f"s{sl}:w0", net.node_weights)
                feed(tag + f"s{sl}:wt0", net.node_weight_type)
                for m in MEASURES:
                    attempt(tag + f"s{sl}:{m}", getattr(net, m))
                attempt(tag + f"s{sl}:dist", getattr(
                    net, "area_weighted_connectivity_distribution"), 5)
                attempt(tag + f"s{sl}:cdist", getattr(
                    net, "inarea_weighted_connectivity_cumulative_"
                         "distribution"), 4)
                state0 = sorted(net.__dict__)
                for wt in ("surface", "irrigation", None, "bogus", 3,
                           "Surface", "surface"):
                    attempt(tag + f"s{sl}:set{wt}",
                            net.set_node_weight_type, wt)
                    feed(tag + f"s{sl}:w{wt}", net.node_weights)
                    feed(tag + f"s{sl}:wt{wt}", net.node_weight_type)
                    feed(tag + f"s{sl}:mean{wt}", net.mean_node_weight)
                    feed(tag + f"s{sl}:tot{wt}", net.total_node_weight)
                    attempt(tag + f"s{sl}:nsi{wt}", net.nsi_degree)
                    attempt(tag + f"s{sl}:awc{wt}",
                            net.area_weighted_connectivity)
                feed(tag + f"s{sl}:state", sorted(net.__dict__) == state0)
                # results are fresh arrays, not aliases of object state
                r1 = net.inarea_weighted_connectivity() if sl else None
                if r1 is not None:
                    r1 += 1.0
                    feed(tag + ":fresh", net.inarea_weighted_connectivity())
                    feed(tag + ":freshw", net.node_weights)

# weights really are the cosine of each node's own latitude
lat = np.array([-90., -60., -30., 0., 45., 90.])
g = GeoGrid(np.arange(2.), lat, np.arange(6.) * 10, 2)
for wt in ("surface", "irrigation", None):
    net = GeoNetwork(g, adjacency=np.zeros((6, 6), dtype=np.int8),
                     node_weight_type=wt, silence_level=2)
    feed(f"coslat{wt}", net.node_weights)

# order of evaluation seen from subclasses
tg = TracedGrid(np.arange(2.), rng.uniform(-80, 80, 8),
                rng.uniform(0, 360, 8), 2)
A = (rng.random((8, 8)) < 0.4).astype(np.int8)
np.fill_diagonal(A, 0)
for directed in (True, False):
    Ad = A if directed else np.triu(A, 1) + np.triu(A, 1).T
    with contextlib.redirect_stdout(io.StringIO()):
        t = Traced(tg, adjacency=Ad, directed=directed, silence_level=1)
    Traced.log.append("--")
    for m in MEASURES[:3]:
        attempt(f"traced{directed}:{m}", getattr(t, m))
        Traced.log.append("-")
    for wt in ("irrigation", None, "surface"):
        attempt(f"traced{directed}:set{wt}", t.set_node_weight_type, wt)
        Traced.log.append("-")
feed("traced_log", Traced.log)

# wrong number of nodes in the grid -> error from the weights setter
g5 = GeoGrid(np.arange(2.), np.arange(5.), np.arange(5.), 2)
attempt("mismatch", GeoNetwork, g5, adjacency=np.zeros((6, 6), np.int8),
        silence_level=2)

with contextlib.redirect_stdout(io.StringIO()):
    s = GeoNetwork.SmallTestNetwork()
for m in MEASURES:
    attempt("small:" + m, getattr(s, m))

print(H.hexdigest())
