"""Equivalence digest for C15 twin_1: FFT based surrogates
(correlated noise, AAFT, refined AAFT, white noise) of Surrogates."""
import hashlib
import numpy as np
from pyunicorn.timeseries.surrogates import Surrogates

H = hashlib.sha256()


def put(tag, obj):
    H.update(tag.encode())
    if isinstance(obj, tuple):
        for k, o in enumerate(obj):
            put(f"{tag}[{k}]", o)
        return
    if isinstance(obj, np.ndarray):
        H.update(str(obj.dtype).encode())
        H.update(str(obj.shape).encode())
        H.update(str(obj.flags['C_CONTIGUOUS']).encode())
        H.update(np.ascontiguousarray(obj).tobytes())
    else:
        H.update(repr(obj).encode())


def attempt(tag, fn):
    try:
        put(tag, fn())
    except Exception as e:  # noqa
        put(tag, "EXC:" + type(e).__name__)


def datasets():
    rng = np.random.RandomState(12345)
    yield "small", Surrogates.SmallTestData().original_data
    yield "gauss_even", rng.randn(4, 64)
    yield "gauss_odd", rng.randn(3, 51)
    yield "ties", rng.randint(0, 4, size=(5, 40)).astype(float)
    yield "float32", rng.randn(3, 33).astype(np.float32)
    yield "ints", rng.randint(-9, 9, size=(4, 30))
    yield "fortran", np.asfortranarray(rng.randn(4, 37))
    yield "one_row", rng.rand(1, 17)
    yield "short", rng.rand(2, 2)
    yield "len1", rng.rand(3, 1)
    yield "const", np.ones((2, 20))
    yield "nan", np.where(rng.rand(3, 25) < .1, np.nan, rng.randn(3, 25))
    yield "view", rng.randn(8, 60)[::2, ::3]


for name, data in datasets():
    for seed in (0, 7):
        s = Surrogates(original_data=data.copy(), silence_level=2)
        np.random.seed(seed)
        attempt(f"{name}/{seed}/white", s.white_noise_surrogates)
        attempt(f"{name}/{seed}/corr1", s.correlated_noise_surrogates)
        # second call re-uses the memoised spectrum
        attempt(f"{name}/{seed}/corr2", s.correlated_noise_surrogates)
        attempt(f"{name}/{seed}/fft", s.original_data_fft)
        attempt(f"{name}/{seed}/aaft", s.AAFT_surrogates)
        for n_it in (0, 1, 3):
            for out in ("true_amplitudes", "true_spectrum", "both", "other",
                        None, 3):
                attempt(f"{name}/{seed}/raaft/{n_it}/{out}",
                        lambda: s.refined_AAFT_surrogates(n_it, output=out))
        attempt(f"{name}/{seed}/raaft/default",
                lambda: s.refined_AAFT_surrogates(2))
        # state must be untouched
        put(f"{name}/{seed}/data", s.original_data)
        put(f"{name}/{seed}/state", (s.N, s.n_time, s._mut_data,
                                     s._mut_embedding, s._normalized))
        if data.dtype.kind == 'f':
            s.normalize_original_data()
            attempt(f"{name}/{seed}/norm/corr", s.correlated_noise_surrogates)
            attempt(f"{name}/{seed}/norm/raaft",
                    lambda: s.refined_AAFT_surrogates(2, "both"))
            put(f"{name}/{seed}/norm/data", s.original_data)
        # RNG stream position after everything
        put(f"{name}/{seed}/rng", float(np.random.rand()))

# argument errors
s = Surrogates.SmallTestData()
np.random.seed(1)
attempt("err/neg_iter", lambda: s.refined_AAFT_surrogates(-1, "true_spectrum"))
attempt("err/float_iter", lambda: s.refined_AAFT_surrogates(1.5))
attempt("err/arr_out",
        lambda: s.refined_AAFT_surrogates(1, np.array(["a", "b"])))
attempt("err/1d", lambda: Surrogates(np.arange(5.), silence_level=2))
attempt("err/3d", lambda: Surrogates(np.zeros((2, 3, 4)), silence_level=2))
put("final_rng", float(np.random.rand()))

print(H.hexdigest())
