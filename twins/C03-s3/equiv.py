"""
Equivalence digest for twin_3 (Newman random walk betweenness kernel
`_mpi_newman_betweenness` and the measures built on it).

Run as:  PYTHONPATH=<worktree>/src /venv/bin/python equiv.py
"""
import hashlib
import io
from contextlib import redirect_stdout

import numpy as np

from pyunicorn.core.network import Network
from pyunicorn.core._ext.types import to_cy, ADJ, DFIELD, DWEIGHT, MASK
from pyunicorn.core._ext.numerics import (
    _mpi_newman_betweenness, _mpi_nsi_newman_betweenness)

H = hashlib.sha256()
np.seterr(all="ignore")


def feed(tag, obj):
    H.update(tag.encode())
    if isinstance(obj, tuple):
        for k, item in enumerate(obj):
            feed(f"{tag}[{k}]", item)
    elif isinstance(obj, np.ndarray):
        H.update(str(obj.dtype).encode())
        H.update(str(obj.shape).encode())
        H.update(np.ascontiguousarray(obj).tobytes())
    else:
        H.update(repr(obj).encode())


def attempt(tag, func, *args, **kwargs):
    try:
        feed(tag, func(*args, **kwargs))
    except Exception as exc:  # pylint: disable=broad-except
        feed(tag, "EXC:" + type(exc).__name__ + ":" + str(exc))


def sym_adjacency(rng, n, p):
    upper = np.triu((rng.random((n, n)) < p).astype(ADJ), k=1)
    return upper + upper.T


rng = np.random.default_rng(1357911)
out = io.StringIO()
with redirect_stdout(out):
    # -- the kernel itself on arbitrary (also non-symmetric) input -----------
    for n in (1, 2, 3, 4, 7, 12, 25, 41):
        for p in (0.0, 0.3, 0.7, 1.0):
            A = (rng.random((n, n)) < p).astype(ADJ)
            # widely spread magnitudes, so that any change in the order of
            # the floating point additions would show up in the last bits
            V = to_cy(rng.standard_normal((n, n))
                      * 10.0 ** rng.integers(-8, 8, (n, n)), DFIELD)
            V[rng.random((n, n)) < 0.1] = 0.0
            tag = f"kernel/{n}/{p}"
            attempt(tag + "/full", _mpi_newman_betweenness, A, V, n, 0, n)
            # row blocks as submitted to MPI slaves
            for start in range(0, n, 3):
                end = min(start + 3, n)
                attempt(f"{tag}/block{start}", _mpi_newman_betweenness,
                        to_cy(A[start:end, :], ADJ), V, n, start, end)
            # single rows at the border
            attempt(tag + "/last", _mpi_newman_betweenness,
                    to_cy(A[n-1:n, :], ADJ), V, n, n - 1, n)
            attempt(tag + "/first", _mpi_newman_betweenness,
                    to_cy(A[0:1, :], ADJ), V, n, 0, 1)
            # empty and reversed ranges
            attempt(tag + "/empty", _mpi_newman_betweenness, A, V, n, 2, 2)
            attempt(tag + "/reversed", _mpi_newman_betweenness, A, V, n, n, 0)
            # fewer columns than the matrices hold
            attempt(tag + "/fewer", _mpi_newman_betweenness, A, V, n - 1, 0,
                    n - 1)
            # row offsets pointing outside V, negative offsets, wrong types
            attempt(tag + "/beyond", _mpi_newman_betweenness, A, V, n, 1,
                    n + 1)
            attempt(tag + "/negative", _mpi_newman_betweenness, A, V, n, -1,
                    n - 1)
            attempt(tag + "/toolong", _mpi_newman_betweenness, A, V, n + 2, 0,
                    n)
            attempt(tag + "/dtype", _mpi_newman_betweenness, A,
                    V.astype(np.float32), n, 0, n)
            attempt(tag + "/none", _mpi_newman_betweenness, A, None, n, 0, n)
            # special values
            W = V.copy()
            W[rng.random((n, n)) < 0.2] = np.inf
            W[rng.random((n, n)) < 0.1] = np.nan
            W[rng.random((n, n)) < 0.1] = -0.0
            attempt(tag + "/special", _mpi_newman_betweenness, A, W, n, 0, n)
            # the n.s.i. sibling (shares the calling convention)
            w = to_cy(rng.random(n) + 0.2, DWEIGHT)
            mask = (rng.random((n, n)) < 0.6).astype(MASK)
            attempt(tag + "/nsi", _mpi_nsi_newman_betweenness, A, V, n, w,
                    mask, 0, n)

    # -- the measures -------------------------------------------------------
    for n, p in [(2, 1.0), (3, 0.7), (5, 0.5), (8, 0.4), (13, 0.25),
                 (13, 0.08), (20, 0.3), (33, 0.12), (10, 1.0), (9, 0.0)]:
        A = sym_adjacency(rng, n, p)
        for level in (0, 1, 2):
            net = Network(adjacency=A, directed=False,
                          node_weights=rng.random(n) + 0.5,
                          silence_level=level)
            attempt(f"measure/{n}/{p}/{level}/newman", net.newman_betweenness)
            attempt(f"measure/{n}/{p}/{level}/again", net.newman_betweenness)
            attempt(f"measure/{n}/{p}/{level}/nsi",
                    net.nsi_newman_betweenness)
            attempt(f"measure/{n}/{p}/{level}/nsi-ends",
                    net.nsi_newman_betweenness, add_local_ends=True)
    # directed input (the measure symmetrises via igraph)
    A = (rng.random((9, 9)) < 0.3).astype(ADJ)
    np.fill_diagonal(A, 0)
    net = Network(adjacency=A, directed=True, silence_level=2)
    attempt("measure/directed", net.newman_betweenness)
    for make in (Network.SmallTestNetwork, Network.SmallDirectedTestNetwork):
        net = make()
        attempt(make.__name__, net.newman_betweenness)
        attempt(make.__name__ + "/split",
                net.splitted_copy().newman_betweenness)

# timing lines ("...took x seconds") are not deterministic
text = "\n".join(line for line in out.getvalue().splitlines()
                 if not line.startswith("...took"))
feed("stdout", text)
print(H.hexdigest())
