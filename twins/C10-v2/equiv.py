"""Equivalence digest for twin_2 (funcnet/_ext/numerics.pyx: lagged
cross-correlation kernels and absmax symmetrisation)."""
import contextlib
import hashlib
import io
import warnings
from collections import Counter

import numpy as np

from pyunicorn.funcnet import CouplingAnalysis
from pyunicorn.funcnet._ext.numerics import (
    _cross_correlation_max, _cross_correlation_all, _symmetrize_by_absmax)

warnings.simplefilter("ignore")
h = hashlib.sha256()
exc_types = Counter()


def feed(obj):
    if obj is None:
        h.update(b"None")
    elif isinstance(obj, tuple):
        for o in obj:
            feed(o)
    else:
        a = np.ascontiguousarray(obj)
        h.update(str(a.dtype).encode())
        h.update(str(a.shape).encode())
        h.update(a.tobytes())


def run(label, fn):
    h.update(label.encode())
    out = io.StringIO()
    try:
        with contextlib.redirect_stdout(out):
            res = fn()
        feed(res)
    except BaseException as e:  # pylint: disable=broad-except
        h.update(("EXC:" + type(e).__name__ + ":" + str(e)).encode())
        exc_types[type(e).__name__] += 1
    h.update(out.getvalue().encode())


def datasets():
    rng = np.random.RandomState(11)
    yield "test_data", CouplingAnalysis.test_data()[:200]
    yield "gauss_60x5", rng.randn(60, 5)
    a = rng.randn(90, 4)
    a[1:, 1] += 0.8 * a[:-1, 0]
    a[3:, 2] -= 0.9 * a[:-3, 1]
    yield "coupled_90x4", a
    yield "ints_40x3", rng.randint(0, 3, size=(40, 3)).astype(float)
    c = rng.randn(30, 4)
    c[:, 2] = -1.0
    yield "const_col", c
    yield "wide_4x6", rng.randn(4, 6)
    yield "f32_33x3", rng.randn(33, 3).astype(np.float32)
    yield "single_20x1", rng.randn(20, 1)
    t = np.arange(24.)
    yield "ties_24x3", np.c_[np.sin(t), np.sin(t), -np.sin(t)]


for name, data in datasets():
    ca = CouplingAnalysis(data)
    T = data.shape[0]
    for tau_max in (0, 1, 2, 5, T - 2, T - 1, T, T + 1, -1):
        for lag_mode in ("max", "all", "zzz"):
            run(f"CC/{name}/{tau_max}/{lag_mode}",
                lambda: ca.cross_correlation(tau_max=tau_max,
                                             lag_mode=lag_mode))
    sim, lag = ca.cross_correlation(tau_max=min(3, T - 2))
    h.update(sim.tobytes() + lag.tobytes())
    run(f"SYM/{name}", lambda: ca.symmetrize_by_absmax(sim, lag))
    run(f"SYM2/{name}", lambda: ca.symmetrize_by_absmax(-sim.T, lag.T))
    # in-place effects on the inputs
    h.update(sim.tobytes() + lag.tobytes())

# direct kernel calls, including inconsistent shape arguments
rng = np.random.RandomState(5)
for shape in ((1, 1, 1), (3, 4, 7), (4, 2, 10), (2, 3, 0), (6, 5, 3)):
    arr = rng.randn(*shape).astype(np.float32)
    L, N, R = shape
    for kern in (_cross_correlation_max, _cross_correlation_all):
        for (n, tm, cr) in ((N, L - 1, R), (N, L - 1, R - 1), (N - 1, L - 1, R),
                            (N + 1, L - 1, R), (N, L, R), (N, L - 1, R + 1),
                            (N, L - 2, R), (0, L - 1, R), (N, L - 1, 0),
                            (N, -1, R), (-2, L - 1, R)):
            run(f"K/{kern.__name__}/{shape}/{n}/{tm}/{cr}",
                lambda: kern(arr.copy(), n, tm, cr))
    run(f"K/none/{shape}", lambda: _cross_correlation_max(None, N, L - 1, R))
    run(f"K/f64/{shape}", lambda: _cross_correlation_all(
        arr.astype(np.float64), N, L - 1, R))

for n in (1, 2, 5, 8):
    s = rng.randn(n, n).astype(np.float32)
    s[rng.rand(n, n) < 0.2] = 0.5
    s = np.where(rng.rand(n, n) < 0.2, -s.T, s).astype(np.float32)
    lg = rng.randint(-5, 6, size=(n, n)).astype(np.int8)
    for nn in (n, n - 1, n + 1, 0):
        run(f"S/{n}/{nn}", lambda: _symmetrize_by_absmax(s.copy(), lg.copy(),
                                                          nn))

print("exceptions:", sorted(exc_types.items()))
print(h.hexdigest())
