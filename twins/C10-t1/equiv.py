"""Equivalence digest for twin_1: cross-correlation / absmax kernels in
funcnet/_ext/numerics.pyx (exercised directly and via CouplingAnalysis)."""
import hashlib
import io
import sys
import numpy as np

from pyunicorn.funcnet import CouplingAnalysis
from pyunicorn.funcnet._ext.numerics import (
    _symmetrize_by_absmax, _cross_correlation_max, _cross_correlation_all)

h = hashlib.sha256()
_real_stdout = sys.stdout
_captured = io.StringIO()
sys.stdout = _captured      # library warnings are hashed, not printed


def feed(obj):
    if isinstance(obj, tuple):
        for o in obj:
            feed(o)
        return
    if obj is None:
        h.update(b"None")
        return
    a = np.ascontiguousarray(obj)
    h.update(str(a.dtype).encode())
    h.update(str(a.shape).encode())
    h.update(a.tobytes())


def attempt(fn):
    try:
        feed(fn())
    except BaseException as e:  # noqa
        h.update(("EXC:" + type(e).__name__).encode())


def datasets():
    rng = np.random.RandomState(20240610)
    yield CouplingAnalysis.test_data()
    yield rng.randn(60, 5)
    # autoregressive, coupled with lags
    x = rng.randn(200, 4)
    for t in range(3, 200):
        x[t, 1] += 0.7 * x[t-2, 0]
        x[t, 2] -= 0.6 * x[t-3, 1]
        x[t, 3] += 0.5 * x[t-1, 3]
    yield x
    # ties / identical and anti-identical columns, constant column
    y = rng.randint(0, 3, size=(40, 6)).astype(float)
    y[:, 1] = y[:, 0]
    y[:, 2] = -y[:, 0]
    y[:, 5] = 2.0
    yield y
    # single variable, N > T
    yield rng.randn(30, 1)
    yield rng.randn(6, 9)
    # float32 and integer input
    yield rng.randn(50, 3).astype(np.float32)
    yield rng.randint(-5, 5, size=(50, 3))


for data in datasets():
    with np.errstate(all="ignore"):
        ca = CouplingAnalysis(data)
        T = data.shape[0]
        for tau_max in (0, 1, 2, 5):
            if tau_max >= T - 1:
                continue
            for mode in ("max", "all", "bogus"):
                attempt(lambda: ca.cross_correlation(tau_max=tau_max,
                                                     lag_mode=mode))
            try:
                sim, lag = ca.cross_correlation(tau_max=tau_max,
                                                lag_mode="max")
            except BaseException as e:  # noqa
                h.update(type(e).__name__.encode())
                continue
            s_in, l_in = sim.copy(), lag.copy()
            out = ca.symmetrize_by_absmax(s_in, l_in)
            feed(out)
            # in-place semantics / identity of returned objects
            feed((s_in, l_in))
            h.update(str((out[0] is s_in, out[1] is l_in)).encode())
        attempt(lambda: ca.cross_correlation(tau_max=-1))

# direct kernel calls, incl. ties in |value|, negative values, nans
rng = np.random.RandomState(7)
for N in (1, 2, 3, 7):
    for trial in range(4):
        sim = rng.randn(N, N).astype(np.float32)
        lag = rng.randint(-128, 128, size=(N, N)).astype(np.int8)
        if trial == 1:
            sim = np.round(sim)            # many |ties|
        if trial == 2:
            sim = np.abs(sim) * np.sign(rng.randn(N, N)).astype(np.float32)
            sim = (sim + sim.T * 0).astype(np.float32)
            sim[np.triu_indices(N, 1)] = -sim.T[np.triu_indices(N, 1)]
        if trial == 3 and N > 1:
            sim[0, 1] = np.nan
            sim[-1, 0] = np.inf
        with np.errstate(all="ignore"):
            feed(_symmetrize_by_absmax(sim.copy(), lag.copy(), N))
        # N smaller than the matrix: only the leading block is touched
        if N > 2:
            feed(_symmetrize_by_absmax(sim.copy(), lag.copy(), N - 1))
        for tau_max in (0, 1, 3):
            cr = 11
            arr = rng.randn(tau_max + 1, N, cr).astype(np.float32)
            if trial == 1:
                arr = np.round(arr)
            if trial == 3:
                arr[0, 0, 0] = np.nan
            feed(_cross_correlation_max(arr.copy(), N, tau_max, cr))
            feed(_cross_correlation_all(arr.copy(), N, tau_max, cr))
            # lags with equal |cc| (first one must win) and opposite sign
            arr2 = np.repeat(arr[:1], tau_max + 1, axis=0).copy()
            arr2[::2] *= -1
            feed(_cross_correlation_max(arr2, N, tau_max, cr))
            feed(_cross_correlation_all(arr2, N, tau_max, cr))
attempt(lambda: _cross_correlation_max(None, 1, 0, 1))
attempt(lambda: _symmetrize_by_absmax(np.zeros((2, 2)), None, 2))
attempt(lambda: _cross_correlation_all(np.zeros((1, 2, 3)), 2, 0, 3))

sys.stdout = _real_stdout
h.update(_captured.getvalue().encode())
print(h.hexdigest())
