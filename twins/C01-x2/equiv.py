"""Equivalence digest for mutation counters / construction dispatch."""
import contextlib
import hashlib
import io
import warnings

import numpy as np

warnings.filterwarnings("ignore")

from pyunicorn.core.cache import Cached
from pyunicorn.core.network import Network
from pyunicorn.climate.climate_network import ClimateNetwork
from pyunicorn.climate.tsonis import TsonisClimateNetwork
from pyunicorn.timeseries.recurrence_network import RecurrenceNetwork
from pyunicorn.timeseries.recurrence_plot import RecurrencePlot

OUT = []


def rec(tag, val):
    if isinstance(val, np.ndarray):
        val = (str(val.dtype), val.shape, val.tobytes().hex())
    OUT.append(f"{tag}={val!r}")


def attempt(tag, fn):
    buf = io.StringIO()
    try:
        with contextlib.redirect_stdout(buf):
            res = fn()
        rec(tag, res)
    except Exception as e:  # pylint: disable=broad-except
        rec(tag, ("EXC", type(e).__name__, str(e)))
    rec(tag + ".out", buf.getvalue())


# --- synthetic subclasses ---------------------------------------------------

class Foo(Cached):
    silence_level = 1

    def __init__(self):
        self.calls = 0
        self.k = 0
        self.u = "a"

    def __cache_state__(self):
        return (self.k,)

    @Cached.method()
    def plain(self, a, b=2):
        """Plain doc"""
        self.calls += 1
        return (a, b, self.k)

    @Cached.method(name="named thing")
    def named(self, *args, **kw):
        """Named doc"""
        self.calls += 1
        return (args, tuple(sorted(kw.items())))

    @Cached.method(attrs=("u",))
    def dep(self, x=0):
        """Dep doc"""
        self.calls += 1
        return (self.u, x)

    @Cached.method(name="both", attrs=("u", "v"))
    def dep2(self, x, *rest, y=None):
        """Dep2 doc"""
        self.calls += 1
        return (self.u, self.v, x, rest, y)

    @Cached.method()
    def boom(self, a):
        self.calls += 1
        raise ValueError(f"boom {a}")

    def not_cached(self):
        return 1


class Loud(Foo):
    silence_level = 2


class Owner(Cached):
    def __init__(self, foo):
        self.foo = foo
        self.c = 0

    def __cache_state__(self):
        return (self.c, self.foo)

    @Cached.method()
    def m(self, a):
        return self.foo.plain(a)


def info(m):
    if not hasattr(m, "cache_info"):
        return None
    i = m.cache_info()
    return (i.hits, i.misses, i.maxsize, i.currsize)


def synthetic():
    X, Y = Foo(), Foo()
    for meth in ("plain", "named", "dep", "dep2", "boom"):
        f = getattr(Foo, meth)
        rec(f"meta.{meth}", (f.__name__, f.__qualname__, f.__doc__,
                             f.__module__, f.__wrapped__.__name__,
                             hasattr(f, "cache_info"),
                             hasattr(f, "cache_clear")))
    rec("eq", (X == X, X == Y, X != Y, X == 3, hash(X) == hash(X),
               hash(X) == hash((id(X),) + X.__cache_state__()),
               hash(X) == hash(Y)))
    attempt("plain1", lambda: [X.plain(1), X.plain(1), X.plain(1.0),
                               X.plain(1, 2), X.plain(1, b=2), X.plain(a=1),
                               Y.plain(1)])
    rec("plain.info", (info(Foo.plain), X.calls, Y.calls))
    X.k = 5
    attempt("plain2", lambda: [X.plain(1), X.plain(1)])
    X.k = 0
    attempt("plain3", lambda: [X.plain(1)])
    rec("plain.info2", (info(Foo.plain), X.calls))
    attempt("named", lambda: [X.named(), X.named(1, 2), X.named(1, 2),
                              X.named(z=1, y=2), X.named(y=2, z=1)])
    attempt("named.loud", lambda: [Loud().named(3), Loud().named(3)])
    rec("named.info", info(Foo.named))
    attempt("dep", lambda: [X.dep(), X.dep(), X.dep(0), X.dep(x=0)])
    X.u = "b"
    attempt("dep.b", lambda: [X.dep(), X.dep()])
    X.u = "a"
    attempt("dep.a", lambda: [X.dep()])
    rec("dep.info", (info(Foo.dep), X.calls))
    X.u = [1]
    attempt("dep.unhashable", X.dep)
    X.u = "a"
    attempt("dep2.missing", lambda: X.dep2(1))
    X.v = 7
    attempt("dep2", lambda: [X.dep2(1), X.dep2(1), X.dep2(1, 2, 3, y=4),
                             X.dep2(1, 2, 3, y=4), X.dep2(x=1)])
    X.v = 7.0
    attempt("dep2.typed", lambda: [X.dep2(1)])
    attempt("dep2.noarg", X.dep2)
    rec("dep2.info", (info(Foo.dep2), X.calls))
    attempt("boom", lambda: X.boom(1))
    attempt("boom", lambda: X.boom(1))
    rec("boom.info", (info(Foo.boom), X.calls))
    attempt("unhashable.arg", lambda: X.plain([1]))
    attempt("unhashable.arg2", lambda: X.dep([1]))

    O = Owner(X)
    attempt("owner", lambda: [O.m(1), O.m(1), O.m(2)])
    X.k = 9
    attempt("owner.k", lambda: [O.m(1), O.m(1)])
    rec("owner.info", (info(Owner.m), info(Foo.plain)))
    O.cache_clear(prefix="pl")
    rec("clear.prefix", (info(Owner.m), info(Foo.plain), info(Foo.dep)))
    O.cache_clear(prefix="m")
    rec("clear.prefix2", (info(Owner.m), info(Foo.plain), info(Foo.dep)))
    O.cache_clear()
    rec("clear.all", [info(getattr(Foo, m)) for m in
                      ("plain", "named", "dep", "dep2", "boom")])

    # class-level switches are read when the decorator is applied
    Cached.cache_enable = False
    try:
        class Off(Foo):
            @Cached.method(name="off", attrs=("u",))
            def off(self, a):
                self.calls += 1
                return a
    finally:
        Cached.cache_enable = True
    Z = Off()
    attempt("off", lambda: [Z.off(1), Z.off(1), Z.calls,
                            hasattr(Off.off, "cache_info")])
    old = Cached.lru_params
    Cached.lru_params = {"maxsize": 2, "typed": False}
    try:
        class Small(Foo):
            @Cached.method()
            def s1(self, a):
                self.calls += 1
                return a

            @Cached.method(attrs=("u",))
            def s2(self, a):
                self.calls += 1
                return a
    finally:
        Cached.lru_params = old
    S = Small()
    attempt("small", lambda: [S.s1(1), S.s1(1.0), S.s1(2), S.s1(3), S.s1(1),
                              S.s2(1), S.s2(1.0), S.s2(2), S.s2(3), S.s2(1),
                              S.calls, info(Small.s1), info(Small.s2)])
    for bad in (dict(attrs=()), dict(attrs=["u"]), dict(attrs=(1,)),
                dict(name=3), dict(attrs="u")):
        attempt(f"bad{sorted(bad)}{list(bad.values())}",
                lambda bad=bad: Cached.method(**bad))
    attempt("abstract", Cached)


# --- library classes --------------------------------------------------------

MEASURES = ("degree", "nsi_degree", "local_clustering", "nsi_local_clustering",
            "closeness", "betweenness", "transitivity",
            "average_path_length", "nsi_average_path_length")


def snapshot(net):
    res = []
    for m in MEASURES:
        try:
            v = getattr(net, m)()
            v = np.asarray(v, dtype=float).round(12).tolist()
        except Exception as e:  # pylint: disable=broad-except
            v = ("EXC", type(e).__name__)
        res.append((m, v))
    res.append(("N", int(net.N), int(net.n_links),
                round(float(net.link_density), 12)))
    res.append(("state", Network.__cache_state__(net), net._mut_A,
                net._mut_nw, net._mut_la))
    return res


def library():
    rng = np.random.RandomState(7)
    with contextlib.redirect_stdout(io.StringIO()):
        net = Network.SmallTestNetwork()
        rec("net0", snapshot(net))
        for step in range(4):
            n = 5 + step
            A = (rng.rand(n, n) < 0.5).astype(int)
            A = np.triu(A, 1)
            A = A + A.T
            net.adjacency = A
            rec(f"net.adj{step}", snapshot(net))
            fresh = Network(adjacency=A)
            rec(f"net.fresh{step}", snapshot(fresh)[:-1])
            w = rng.rand(n) + 0.5
            net.node_weights = w
            rec(f"net.nw{step}", snapshot(net))
            W = rng.rand(n, n)
            W = W + W.T
            net.set_link_attribute("w", W)
            rec(f"net.la{step}", (net.degree("w").round(12).tolist(),
                                  net.nsi_degree("w").round(12).tolist()
                                  if hasattr(net, "nsi_degree") else None,
                                  net._mut_la))
            net.set_link_attribute("w", 2 * W)
            rec(f"net.la2{step}", (net.degree("w").round(12).tolist(),
                                   net._mut_la))
            net.del_link_attribute("w")
            net.del_link_attribute("w")
            rec(f"net.ladel{step}", net._mut_la)
        net.set_edge_list([[0, 1], [1, 2], [2, 3]], 5)
        rec("net.el", snapshot(net))
        rec("net.info", [info(getattr(Network, m)) for m in MEASURES])
        net.cache_clear()
        rec("net.info.cleared", [info(getattr(Network, m)) for m in MEASURES])

        ts = rng.rand(60)
        rn = RecurrenceNetwork(ts, dim=2, tau=1, threshold=0.2,
                               silence_level=2)
        rec("rn0", (snapshot(rn), rn.__cache_state__(), rn._mut_R,
                    rn._mut_embedding))
        for i, thr in enumerate((0.1, 0.3)):
            rn.set_fixed_threshold(thr)
            rec(f"rn.thr{i}", (snapshot(rn), rn.__cache_state__(),
                               rn._mut_R, round(rn.recurrence_rate(), 12),
                               rn.max_diaglength()))
        rn.set_fixed_recurrence_rate(0.1)
        rec("rn.rr", (snapshot(rn), rn.__cache_state__(), rn._mut_R,
                      rn.max_diaglength()))
        rn.set_fixed_local_recurrence_rate(0.1)
        rec("rn.lrr", (snapshot(rn), rn.__cache_state__(), rn._mut_R))
        rn.set_fixed_threshold_std(0.4)
        rec("rn.std", (snapshot(rn), rn.__cache_state__(), rn._mut_R))
        rn.embedding = rn.embed_time_series(rng.rand(50), 3, 2)
        rec("rn.emb", (rn.__cache_state__(), rn.N, rn._mut_embedding))
        rn.set_fixed_threshold(0.3)
        rec("rn.emb.thr", (snapshot(rn), rn.max_diaglength(),
                           rn.max_vertlength()))

        rp = RecurrencePlot(ts, threshold=0.2, silence_level=2)
        a = rp.max_diaglength()
        rp.set_fixed_threshold(0.05)
        rec("rp", (a, rp.max_diaglength(), rp._mut_R, rp.__cache_state__()))

        cn = ClimateNetwork.SmallTestNetwork()
        rec("cn0", (snapshot(cn), cn._mut_clim, len(cn.__cache_state__())))
        cn.set_threshold(0.7)
        rec("cn.thr", (snapshot(cn), cn._mut_clim,
                       cn.correlation_distance().round(12).tolist()))
        cn.set_link_density(0.7)
        rec("cn.ld", (snapshot(cn), cn._mut_clim))
        cn._regenerate_network()
        rec("cn.regen", (snapshot(cn), cn._mut_clim))

        tn = TsonisClimateNetwork.SmallTestNetwork()
        rec("tn0", (snapshot(tn), tn._mut_clim))
        tn.set_winter_only(False)
        rec("tn.winter", (snapshot(tn), tn._mut_clim))
        tn.data.set_window({"time_min": 0., "time_max": 6.,
                            "lat_min": 0., "lon_min": 0.,
                            "lat_max": 25., "lon_max": 15.})
        rec("tn.window", (tn.data.__cache_state__(),
                          tn.data.anomaly().round(12).tolist()))
        tn.data.set_global_window()
        rec("tn.global", (tn.data.__cache_state__(),
                          tn.data.anomaly().round(12).tolist()))


synthetic()
library()

def counters():
    from pyunicorn.core.network import NetworkError
    from pyunicorn.climate.havlin import HavlinClimateNetwork
    from pyunicorn.climate.climate_data import ClimateData
    rng = np.random.RandomState(11)
    with contextlib.redirect_stdout(io.StringIO()):
        net = Network.SmallTestNetwork()
        rec("c.vars", list(vars(net)))
        rec("c.cls", [k for k in vars(Network) if k.startswith("_mut")
                      and not k.startswith("_mutation")])
        rec("c.init", (net._mut_A, net._mut_nw, net._mut_la))
        net.set_link_attribute("x", np.ones((6, 6)))
        Network.__init__(net, adjacency=[[0, 1, 1], [1, 0, 0], [1, 0, 0]])
        rec("c.reinit", (net._mut_A, net._mut_nw, net._mut_la,
                         list(vars(net)), snapshot(net)))
        try:
            Network.__init__(net)
        except NetworkError as e:
            rec("c.fail", (str(e), net._mut_A, net._mut_nw, net._mut_la,
                           net.N, net.sp_A is None))
        try:
            Network(adjacency=np.ones((2, 3)))
        except NetworkError as e:
            rec("c.fail2", str(e))

        class Pre(Network):
            def __init__(self, **kw):
                self._mut_nw = 40
                self._mut_zz = 1
                Network.__init__(self, **kw)
        pre = Pre(edge_list=[[0, 1], [1, 2]], node_weights=[1, 2, 3])
        rec("c.pre", (pre._mut_A, pre._mut_nw, pre._mut_la, pre._mut_zz,
                      list(vars(pre)), snapshot(pre)))

        # RecurrencePlot / RecurrenceNetwork construction modes
        ts = rng.rand(40)
        modes = [dict(threshold=0.2), dict(threshold_std=0.5),
                 dict(recurrence_rate=0.1), dict(local_recurrence_rate=0.1),
                 dict(adaptive_neighborhood_size=0.1),
                 dict(threshold=0.2, recurrence_rate=0.3),
                 dict(threshold_std=0.5, local_recurrence_rate=0.3,
                      adaptive_neighborhood_size=0.2),
                 dict(recurrence_rate=0.2, adaptive_neighborhood_size=0.2),
                 dict(threshold=0, threshold_std=0.5),
                 dict(threshold=0.2, dim=2, tau=2, metric="euclidean"),
                 dict(recurrence_rate=0.2, metric="manhattan",
                      normalize=True),
                 dict(), dict(dim=2, tau=1),
                 dict(skip_recurrence=True), dict(sparse_rqa=True),
                 dict(sparse_rqa=True, threshold=0.1),
                 dict(threshold="a")]
        for i, kw in enumerate(modes):
            for cls in (RecurrencePlot, RecurrenceNetwork):
                tag = f"c.{cls.__name__}{i}"
                try:
                    o = cls(ts.copy(), silence_level=2, **kw)
                    R = o.R
                    val = [None if R is None else
                           (str(R.dtype), R.shape, R.tobytes().hex()),
                           o._mut_R, o._mut_embedding, o.threshold,
                           o.threshold_std, o.local_recurrence_rate,
                           o.adaptive_neighborhood_size, list(vars(o))]
                    if isinstance(o, Network):
                        val.append(snapshot(o))
                    rec(tag, val)
                except Exception as e:  # pylint: disable=broad-except
                    rec(tag, ("EXC", type(e).__name__, str(e)))

        # climate networks: counters over repeated regeneration
        cn = ClimateNetwork.SmallTestNetwork()
        seq = [cn._mut_clim]
        for thr in (0.3, 0.6, 0.9):
            cn.set_threshold(thr)
            seq.append((cn._mut_clim, cn._mut_A, cn._mut_nw, cn._mut_la))
        for _ in range(3):
            cn._regenerate_network()
            seq.append((cn._mut_clim, cn._mut_A, cn._mut_nw, cn._mut_la,
                        cn.__cache_state__()[:2], cn.__cache_state__()[-1]))
        rec("c.cn", (seq, list(vars(cn)), snapshot(cn)))
        data = ClimateData.SmallTestData()
        hn = HavlinClimateNetwork(data, 2, threshold=0.5, silence_level=2)
        a = (hn._mut_clim, snapshot(hn))
        hn.set_max_delay(3)
        rec("c.hn", (a, hn._mut_clim, snapshot(hn), list(vars(hn))))


counters()
blob = "\n".join(OUT).encode()
print(len(OUT), hashlib.sha256(blob).hexdigest())
