"""Equivalence digest for twin 2 (construction dispatch and thresholding code
of pyunicorn.timeseries.recurrence_plot.RecurrencePlot)."""
import hashlib
import io
import contextlib

import numpy as np

from pyunicorn.timeseries import RecurrencePlot, RecurrenceNetwork, \
    JointRecurrencePlot, CrossRecurrencePlot

H = hashlib.sha256()


def feed(tag, obj):
    H.update(repr(tag).encode())
    if isinstance(obj, np.ndarray):
        H.update(str(obj.dtype).encode())
        H.update(repr(obj.shape).encode())
        H.update(repr((obj.flags.c_contiguous, obj.flags.f_contiguous,
                       obj.flags.owndata, obj.flags.writeable)).encode())
        H.update(np.ascontiguousarray(obj).tobytes())
    else:
        H.update(repr(obj).encode())


def state(tag, rp):
    """Digest the complete attribute state of a recurrence plot object."""
    names = sorted(vars(rp))
    feed(tag + ("attrs",), names)
    for name in names:
        value = vars(rp)[name]
        if isinstance(value, np.ndarray) or value is None or \
                isinstance(value, (int, float, str, bool, tuple)):
            feed(tag + (name,), value)
        elif isinstance(value, np.generic):
            feed(tag + (name,), (type(value).__name__, repr(value)))
        else:
            feed(tag + (name,), type(value).__name__)
    feed(tag + ("N",), rp.N)
    if getattr(rp, "_R", None) is not None:
        feed(tag + ("R",), rp._R)


def attempt(tag, fun, *args, **kw):
    out = io.StringIO()
    try:
        with contextlib.redirect_stdout(out):
            res = fun(*args, **kw)
    except Exception as exc:  # pylint: disable=broad-except
        feed(tag, ("EXC", type(exc).__name__, str(exc), out.getvalue()))
        return None
    feed(tag + ("stdout",), out.getvalue())
    return res


METRICS = ("manhattan", "euclidean", "supremum")
KEYS = ("threshold", "threshold_std", "recurrence_rate",
        "local_recurrence_rate", "adaptive_neighborhood_size")
VALUES = {"threshold": 0.9, "threshold_std": 0.6, "recurrence_rate": 0.2,
          "local_recurrence_rate": 0.15, "adaptive_neighborhood_size": 4}

for seed in range(3):
    rng = np.random.RandomState(100 + seed)
    n = 35 + 6 * seed
    ts = rng.randn(n, 1 + seed)
    ts_nan = ts.copy()
    ts_nan[rng.randint(n, size=4), rng.randint(ts.shape[1], size=4)] = np.nan

    for metric in METRICS:
        # every subset of at most two construction keywords -> priorities
        subsets = [()] + [(k,) for k in KEYS] + \
            [(a, b) for i, a in enumerate(KEYS) for b in KEYS[i + 1:]]
        for subset in subsets:
            kw = {k: VALUES[k] for k in subset}
            for mv, series in ((False, ts), (True, ts_nan)):
                for silence in (0, 2):
                    tag = ("init", seed, metric, subset, mv, silence)
                    rp = attempt(tag, RecurrencePlot, series.copy(),
                                 metric=metric, missing_values=mv,
                                 silence_level=silence, **kw)
                    if rp is not None:
                        state(tag, rp)
        # explicit None / zero / falsy values of the keywords
        for kw in ({"threshold": 0}, {"threshold": 0.0, "recurrence_rate": 1},
                   {"threshold": None, "recurrence_rate": 0.0},
                   {"threshold_std": 0, "local_recurrence_rate": 0.3},
                   {"adaptive_neighborhood_size": 0},
                   {"recurrence_rate": 1.5}, {"recurrence_rate": -0.1},
                   {"local_recurrence_rate": 2},
                   {"threshold": "a"}, {"threshold": np.inf},
                   {"threshold": np.nan}, {"threshold": -1.0},
                   {"adaptive_neighborhood_size": n},
                   {"adaptive_neighborhood_size": n - 1},
                   {"sparse_rqa": True}, {"sparse_rqa": True,
                                          "threshold": 0.5},
                   {"skip_recurrence": True},
                   {"skip_recurrence": True, "threshold": 0.5},
                   {"threshold": np.full((n, n), 0.7)},
                   {"threshold": np.linspace(0, 2, n)},
                   {"threshold": np.full((2, n, n), 0.7)},
                   {"threshold": 0.5, "dim": 2}, {"threshold": 0.5, "tau": 2},
                   ):
            tag = ("init2", seed, metric, sorted(
                (k, repr(v) if not isinstance(v, np.ndarray) else v.shape)
                for k, v in kw.items()))
            rp = attempt(tag, RecurrencePlot, ts_nan.copy(), metric=metric,
                         missing_values=True, silence_level=1, **kw)
            if rp is not None:
                state(tag, rp)

        # call sequences on one object
        for mv, series in ((False, ts), (True, ts_nan)):
            rp = RecurrencePlot(series.copy(), metric=metric,
                                missing_values=mv, threshold=0.4,
                                silence_level=2)
            tag = ("seq", seed, metric, mv)
            steps = [
                ("set_fixed_threshold", (1.2,)),
                ("set_fixed_threshold", ("x",)),
                ("set_fixed_threshold", (None,)),
                ("set_fixed_recurrence_rate", (0.3,)),
                ("set_fixed_recurrence_rate", (1.3,)),
                ("set_fixed_recurrence_rate", (None,)),
                ("set_fixed_local_recurrence_rate", (0.2,)),
                ("set_fixed_local_recurrence_rate", (-2,)),
                ("set_fixed_threshold_std", (0.7,)),
                ("set_fixed_threshold_std", (None,)),
                ("set_adaptive_neighborhood_size", (3,)),
                ("set_adaptive_neighborhood_size",
                 (2, np.arange(n)[::-1].copy())),
                ("set_adaptive_neighborhood_size", (2, [0, 1, n + 3])),
                ("set_adaptive_neighborhood_size", (n + 1,)),
                ("set_adaptive_neighborhood_size", (2, np.arange(n) + 0.5)),
                ("set_fixed_threshold", (np.full((2, n, n), 0.3),)),
                ("set_fixed_recurrence_rate", (0.05,)),
            ]
            for i, (name, args) in enumerate(steps):
                before = rp._R
                attempt(tag + (i, name), getattr(rp, name), *args)
                state(tag + (i, name), rp)
                feed(tag + (i, name, "sameR"), rp._R is before)
                feed(tag + (i, name, "rr"), rp.recurrence_rate())
                feed(tag + (i, name, "det"),
                     attempt(tag + (i, name, "d"), rp.determinism, 2))
            # mutate the embedding -> cached distances must be recomputed
            rp.embedding = rp.embedding[: n - 5] * 1.5
            if mv:
                rp.missing_value_indices = \
                    np.isnan(rp.embedding).sum(axis=1) != 0
            for name, arg in (("set_fixed_threshold", 1.0),
                              ("set_fixed_recurrence_rate", 0.25),
                              ("set_fixed_local_recurrence_rate", 0.1),
                              ("set_adaptive_neighborhood_size", 3)):
                attempt(tag + ("mut", name), getattr(rp, name), arg)
                state(tag + ("mut", name), rp)

        # subclasses that go through the base constructor
        for kw in ({"threshold": 0.8}, {"recurrence_rate": 0.1},
                   {"local_recurrence_rate": 0.1}, {"threshold_std": 0.4},
                   {"adaptive_neighborhood_size": 3}, {}):
            tag = ("RN", seed, metric, sorted(kw))
            rn = attempt(tag, RecurrenceNetwork, ts_nan.copy(), metric=metric,
                         missing_values=True, silence_level=2, **kw)
            if rn is not None:
                feed(tag + ("A",), rn.adjacency)
                feed(tag + ("R",), rn.R)
                feed(tag + ("dir",), rn.directed)
                feed(tag + ("mutR",), rn._mut_R)
        other = rng.randn(n, ts.shape[1])
        for kw in ({"threshold": (0.8, 0.9)}, {"recurrence_rate": (0.2, 0.1)},
                   {"threshold_std": (0.5, 0.5)}, {}):
            tag = ("JRP", seed, metric, sorted(kw))
            jrp = attempt(tag, JointRecurrencePlot, ts, other,
                          metric=(metric, "supremum"), lag=seed,
                          silence_level=2, **kw)
            if jrp is not None:
                state(tag, jrp)
                feed(tag + ("JR",), jrp.JR)
        crp = attempt(("CRP", seed, metric), CrossRecurrencePlot, ts, other,
                      metric=metric, threshold=1.0, silence_level=2)
        state(("CRP", seed, metric), crp)

# embedded scalar series
rng = np.random.RandomState(7)
x = rng.randn(80)
for metric in METRICS:
    for kw in ({"threshold": 0.5}, {"recurrence_rate": 0.1},
               {"local_recurrence_rate": 0.1},
               {"adaptive_neighborhood_size": 6}):
        rp = attempt(("emb", metric, sorted(kw)), RecurrencePlot, x,
                     metric=metric, dim=3, tau=4, normalize=True,
                     silence_level=2, **kw)
        state(("emb", metric, sorted(kw)), rp)

print(H.hexdigest())
