"""Digest of the surrogate test kernels (Pearson / mutual information)."""
import hashlib
import numpy as np
from pyunicorn.timeseries._ext.numerics import \
    _test_pearson_correlation, _test_mutual_information
from pyunicorn.timeseries.surrogates import Surrogates

h = hashlib.sha256()


def feed(tag, fn):
    try:
        res = np.asarray(fn())
        h.update(f"{tag}|{res.dtype}|{res.shape}|".encode())
        h.update(np.ascontiguousarray(res).tobytes())
    except BaseException as e:  # noqa
        h.update(f"{tag}|EXC|{type(e).__name__}|{e}".encode())


rng = np.random.RandomState(2020)
shapes = [(0, 0), (0, 4), (1, 1), (1, 9), (2, 1), (3, 2), (4, 17), (6, 50),
          (11, 7), (15, 200), (25, 33)]
for N, T in shapes:
    orig = rng.randn(N, T)
    surr = rng.randn(N, T)
    if N and T:
        # normalised copies, some constant rows, an exact maximum
        orig2 = (orig - orig.mean(axis=1, keepdims=True))
        surr2 = np.round(surr, 1)
    else:
        orig2, surr2 = orig, surr
    for tag, (a, b) in (("raw", (orig, surr)), ("alt", (orig2, surr2)),
                        ("same", (orig, orig.copy()))):
        feed(f"pc{N},{T},{tag}",
             lambda: _test_pearson_correlation(a, b, N, T))
        feed(f"PC{N},{T},{tag}",
             lambda: Surrogates.test_pearson_correlation(a, b))
        for n_bins in (1, 2, 5, 32):
            feed(f"mi{N},{T},{tag},{n_bins}",
                 lambda: _test_mutual_information(a, b, N, T, n_bins))
            feed(f"MI{N},{T},{tag},{n_bins}",
                 lambda: Surrogates.test_mutual_information(
                     a, b, n_bins=n_bins))
        h.update(a.tobytes())
        h.update(b.tobytes())
    if N > 1 and T > 1:
        # declared sizes smaller than the arrays
        feed(f"sub{N},{T}", lambda: _test_mutual_information(
            orig, surr, N - 1, T, 4))
        feed(f"subp{N},{T}", lambda: _test_pearson_correlation(
            orig, surr, N - 1, T))

a = rng.rand(3, 6)
b = rng.rand(3, 6)
feed("const", lambda: _test_mutual_information(
    np.ones((3, 6)), np.ones((3, 6)), 3, 6, 4))
feed("bins0", lambda: _test_mutual_information(a, b, 3, 6, 0))
feed("binsneg", lambda: _test_mutual_information(a, b, 3, 6, -3))
feed("Nneg", lambda: _test_mutual_information(a, b, -3, 6, 4))
feed("Tneg", lambda: _test_mutual_information(a, b, 3, -6, 4))
feed("N0", lambda: _test_mutual_information(a, b, 0, 6, 4))
feed("T0", lambda: _test_mutual_information(a, b, 3, 0, 4))
feed("pNneg", lambda: _test_pearson_correlation(a, b, -3, 6))
feed("pT0", lambda: _test_pearson_correlation(a, b, 3, 0))
feed("pTneg", lambda: _test_pearson_correlation(a, b, 3, -1))
feed("none", lambda: _test_mutual_information(None, b, 3, 6, 4))
feed("pnone", lambda: _test_pearson_correlation(a, None, 3, 6))
feed("f32", lambda: _test_mutual_information(
    a.astype(np.float32), b, 3, 6, 4))
feed("fort", lambda: _test_pearson_correlation(
    np.asfortranarray(a), b, 3, 6))
feed("shape", lambda: Surrogates.test_mutual_information(a, b[:, :5]))
feed("pshape", lambda: Surrogates.test_pearson_correlation(a, b[:2]))
feed("ints", lambda: Surrogates.test_mutual_information(
    (a * 10).astype(int), (b * 10).astype(int), n_bins=3))
print(h.hexdigest())
