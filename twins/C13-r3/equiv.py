"""Digest of Data / ClimateData windowing and anomaly behaviour (C13)."""
import hashlib
import io
import contextlib

import warnings

import numpy as np

warnings.simplefilter("ignore")

from pyunicorn.core import Data, GeoGrid
from pyunicorn.climate.climate_data import ClimateData

H = hashlib.sha256()


def feed(tag, obj):
    H.update(tag.encode())
    if isinstance(obj, np.ndarray):
        H.update(str(obj.dtype).encode())
        H.update(repr(obj.shape).encode())
        H.update(repr(obj.flags["C_CONTIGUOUS"]).encode())
        H.update(np.ascontiguousarray(obj).tobytes())
    else:
        H.update(repr(obj).encode())


def snapshot(tag, d):
    obs = d.observable()
    feed(tag + ":obs", obs if obs is not None else "None")
    g = d.grid
    if g is None:
        feed(tag + ":grid", "None")
        return
    gg = g.grid()
    for k in ("time", "lat", "lon"):
        feed(tag + ":" + k, gg[k])
    feed(tag + ":size", sorted(g.grid_size().items()))
    feed(tag + ":N", (g.N, g.n_grid_points, g.silence_level))
    feed(tag + ":win", [(k, repr(v)) for k, v in d.window().items()])
    feed(tag + ":sil", d.silence_level)
    if isinstance(d, ClimateData):
        feed(tag + ":mut", (d._mut_window, d.__cache_state__()))


def attempt(tag, fn):
    buf = io.StringIO()
    try:
        with contextlib.redirect_stdout(buf):
            res = fn()
        feed(tag + ":ok", res if isinstance(res, np.ndarray) else repr(res))
    except BaseException as e:  # pylint: disable=broad-except
        feed(tag + ":exc", (type(e).__name__, str(e)))
    feed(tag + ":out", buf.getvalue())


def make(rng, n_time, n_space, dtype, cls, time_cycle=None, anomalies=False,
         window=None, fortran=False, silence=2):
    time = np.arange(n_time, dtype=float) * rng.choice([1., 0.5, 3.])
    lat = rng.uniform(-90, 90, n_space).round(1)
    lon = rng.uniform(-180, 180, n_space).round(1)
    obs = rng.normal(size=(n_time, n_space)) * 10
    obs = obs.astype(dtype)
    if fortran:
        obs = np.asfortranarray(obs)
    grid = GeoGrid(time, lat, lon, silence)
    if cls is Data:
        return Data(obs, grid, window=window, silence_level=silence)
    return ClimateData(obs, grid, time_cycle, anomalies=anomalies,
                       window=window, silence_level=silence)


def windows(rng, d):
    g = d._full_grid.grid()
    t, la, lo = g["time"], g["lat"], g["lon"]
    q = lambda a, p: float(np.quantile(a, p))
    yield {"time_min": 0., "time_max": 0., "lat_min": 0., "lat_max": 0.,
           "lon_min": 0., "lon_max": 0.}
    yield {"time_min": q(t, .2), "time_max": q(t, .8),
           "lat_min": q(la, .1), "lat_max": q(la, .9),
           "lon_min": q(lo, .1), "lon_max": q(lo, .9)}
    # exact sample values as closed bounds
    yield {"time_min": float(t[1]), "time_max": float(t[-2]),
           "lat_min": float(np.sort(la)[1]), "lat_max": float(np.sort(la)[-2]),
           "lon_min": float(lo.min()), "lon_max": float(lo.max())}
    # degenerate lat only (lon keys different)
    yield {"time_min": q(t, .3), "time_max": q(t, .9),
           "lat_min": 5., "lat_max": 5.,
           "lon_min": q(lo, .4), "lon_max": q(lo, .6)}
    # degenerate lon only
    yield {"time_min": 2., "time_max": 2.,
           "lat_min": q(la, .3), "lat_max": q(la, .7),
           "lon_min": -7., "lon_max": -7.}
    # degenerate lat, lon keys missing altogether
    yield {"time_min": q(t, .1), "time_max": q(t, .7),
           "lat_min": 1., "lat_max": 1.}
    # integer / numpy scalar bounds
    yield {"time_min": 1, "time_max": np.float32(t[-1]),
           "lat_min": np.int64(-50), "lat_max": 60,
           "lon_min": -100, "lon_max": np.float64(120)}
    # reversed bounds -> empty selection -> error in GeoGrid
    yield {"time_min": q(t, .8), "time_max": q(t, .2),
           "lat_min": q(la, .1), "lat_max": q(la, .9),
           "lon_min": q(lo, .1), "lon_max": q(lo, .9)}
    # empty space selection
    yield {"time_min": q(t, .2), "time_max": q(t, .8),
           "lat_min": 95., "lat_max": 99.,
           "lon_min": q(lo, .1), "lon_max": q(lo, .9)}
    # missing keys in different places
    yield {"time_min": 0.}
    yield {"time_min": 0., "time_max": 1., "lat_min": 3.}
    yield {"time_min": 0., "time_max": 1., "lat_min": 3., "lat_max": 4.}
    yield {"time_min": 0., "time_max": 1., "lat_min": 3., "lat_max": 4.,
           "lon_min": 1.}
    # badly typed bounds
    yield {"time_min": "a", "time_max": "b", "lat_min": 0., "lat_max": 1.,
           "lon_min": 0., "lon_max": 1.}
    yield {"time_min": 0., "time_max": 0., "lat_min": 0., "lat_max": 1.,
           "lon_min": None, "lon_max": 1.}
    yield {"time_min": 0., "time_max": 0., "lat_min": 0., "lat_max": "x",
           "lon_min": 0., "lon_max": 1.}
    # array valued bounds
    yield {"time_min": np.array([0., 1.]), "time_max": np.array([0., 1.]),
           "lat_min": 0., "lat_max": 1., "lon_min": 0., "lon_max": 1.}
    yield None


def derived(tag, d):
    if not isinstance(d, ClimateData):
        return
    attempt(tag + ":pm", d.phase_mean)
    attempt(tag + ":an", d.anomaly)
    attempt(tag + ":pm2", d.phase_mean)
    attempt(tag + ":an2", d.anomaly)
    attempt(tag + ":an_is_obs", lambda: d.anomaly() is d.observable())
    attempt(tag + ":pi", d.phase_indices)

    def recon():
        a, m, o = d.anomaly(), d.phase_mean(), d.observable()
        tc = d.time_cycle
        return np.array([np.abs(a[i::tc] + m[i] - o[i::tc]).max()
                         if len(o[i::tc]) else 0. for i in range(tc)])
    attempt(tag + ":recon", recon)


def main():
    rng = np.random.default_rng(20241013)
    cases = [
        (Data, 12, 7, "float64", None, False, False),
        (Data, 9, 5, "float32", None, False, True),
        (ClimateData, 24, 6, "float64", 12, False, False),
        (ClimateData, 23, 5, "float32", 5, False, False),
        (ClimateData, 20, 4, "int64", 4, False, False),
        (ClimateData, 17, 6, "float64", 3, True, False),
        (ClimateData, 16, 5, "float64", 7, False, True),
        (ClimateData, 10, 4, "float64", 1, False, False),
        (ClimateData, 10, 4, "float64", 0, False, False),
        (ClimateData, 10, 4, "float64", -2, False, False),
        (ClimateData, 10, 4, "float64", 2.0, False, False),
        (ClimateData, 10, 4, "float64", 25, False, False),
    ]
    for c, (cls, nt, ns, dt, tc, anom, fortran) in enumerate(cases):
        for silence in (2, 0):
            d = make(rng, nt, ns, dt, cls, tc, anom, fortran=fortran,
                     silence=silence)
            tag = f"c{c}s{silence}"
            snapshot(tag + ":init", d)
            derived(tag + ":init", d)
            for w, win in enumerate(windows(rng, d)):
                wt = f"{tag}w{w}"
                attempt(wt + ":set", lambda: d.set_window(win))
                snapshot(wt, d)
                derived(wt, d)
                if w % 3 == 0:
                    attempt(wt + ":glob", d.set_global_window)
                    snapshot(wt + ":g", d)
                    derived(wt + ":g", d)
            attempt(tag + ":sil", lambda: d.set_silence_level(1))
            attempt(tag + ":glob", d.set_global_window)
            snapshot(tag + ":final", d)
            feed(tag + ":fullsame", d.observable().shape ==
                 d._full_observable.shape and
                 bool(np.array_equal(d.observable(), d._full_observable)))

    # construction with an initial window
    for cls, tc in ((Data, None), (ClimateData, 4)):
        win = {"time_min": 2., "time_max": 9., "lat_min": -60.,
               "lat_max": 60., "lon_min": -150., "lon_max": 150.}
        attempt("ctor:" + cls.__name__, lambda: snapshot(
            "ctor:" + cls.__name__,
            make(rng, 14, 8, "float64", cls, tc, window=win)))
        bad = {"time_min": 50., "time_max": 90., "lat_min": -60.,
               "lat_max": 60., "lon_min": -150., "lon_max": 150.}
        attempt("ctorbad:" + cls.__name__,
                lambda: make(rng, 14, 8, "float64", cls, tc, window=bad))

    # small test data, doc examples
    for cls in (Data, ClimateData):
        d = cls.SmallTestData()
        snapshot("small:" + cls.__name__, d)
        d.set_window({"time_min": 0., "time_max": 4., "lat_min": 10.,
                      "lat_max": 20., "lon_min": 5., "lon_max": 10.})
        snapshot("smallw:" + cls.__name__, d)
        derived("smallw:" + cls.__name__, d)
        d.set_global_window()
        snapshot("smallg:" + cls.__name__, d)
        derived("smallg:" + cls.__name__, d)
        feed("hash-eq", (d == d, isinstance(hash(d), int))
             if cls is ClimateData else None)

    # subclass overriding set_window sees what set_global_window passes
    class Spy(ClimateData):
        seen = []

        def set_window(self, window):
            Spy.seen.append((type(window).__name__, list(window.items())))
            ClimateData.set_window(self, window)

    s = Spy(np.arange(40.).reshape(10, 4), GeoGrid.SmallTestGrid().__class__(
        np.arange(10.), np.arange(4.), np.arange(4.) * 2, 2), 5,
        silence_level=2)
    s.set_global_window()
    s.set_window({"time_min": 1., "time_max": 5., "lat_min": 0.,
                  "lat_max": 2., "lon_min": 0., "lon_max": 9.})
    feed("spy", (Spy.seen, s._mut_window))
    snapshot("spy", s)
    derived("spy", s)

    print(H.hexdigest())


main()
