"""
Property C14: visibility graphs realise the geometric visibility criterion,
are mirrored by time reversal (which exchanges retarded and advanced
measures), and retarded plus advanced degree equals the degree.

Everything is checked against an independent reference: visibility decided in
rational arithmetic, time-directed measures computed directly from that
reference graph (degrees by counting, closeness by breadth-first search).
"""
import sys
import warnings
from collections import deque
from fractions import Fraction

import numpy as np

from pyunicorn.timeseries import VisibilityGraph

warnings.filterwarnings("ignore")
np.seterr(all="ignore")


def reference_graph(x, t, horizontal=False):
    """Exact visibility graph; NaN samples block visibility, stay isolated."""
    N = len(x)
    ok = [not np.isnan(v) for v in x]
    X = [Fraction(float(v)) if o else None for v, o in zip(x, ok)]
    T = [Fraction(float(v)) for v in t]
    A = np.zeros((N, N), dtype=int)
    for i in range(N):
        for j in range(i + 1, N):
            if not (ok[i] and ok[j]):
                continue
            vis = True
            for k in range(i + 1, j):
                if not ok[k]:
                    vis = False
                elif horizontal:
                    vis = X[k] < min(X[i], X[j])
                else:
                    line = X[i] + (X[j] - X[i]) * (T[k] - T[i]) / (T[j] - T[i])
                    vis = X[k] < line
                if not vis:
                    break
            if vis:
                A[i, j] = A[j, i] = 1
    return A


def bfs_lengths(A):
    N = len(A)
    D = np.full((N, N), np.inf)
    for s in range(N):
        D[s, s] = 0
        queue = deque([s])
        while queue:
            u = queue.popleft()
            for v in np.flatnonzero(A[u]):
                if np.isinf(D[s, v]):
                    D[s, v] = D[s, u] + 1
                    queue.append(v)
    return D


def directed_reference(A):
    N = len(A)
    D = bfs_lengths(A)
    ret_deg = np.array([A[i, :i].sum() for i in range(N)], dtype=float)
    adv_deg = np.array([A[i, i + 1:].sum() for i in range(N)], dtype=float)
    ret_clo = np.array([1. / D[i, :i].mean() if i > 0 else np.nan
                        for i in range(N)])
    adv_clo = np.array([1. / D[i, i + 1:].mean() if i < N - 1 else np.nan
                        for i in range(N)])
    return ret_deg, adv_deg, ret_clo, adv_clo


def same(a, b):
    return np.allclose(a, b, rtol=1e-9, atol=1e-12, equal_nan=True)


def check(x, t, missing, horizontal, label, errors):
    vg = VisibilityGraph(x, timings=t, missing_values=missing,
                         horizontal=horizontal, silence_level=3)
    A = np.asarray(vg.adjacency)
    A_ref = reference_graph(x, t, horizontal)
    if not np.array_equal(A, A_ref):
        errors.append(f"{label}: adjacency differs from exact visibility "
                      f"criterion at {np.argwhere(A != A_ref)[:4].tolist()}")
        return
    N = len(x)
    for i, j in ((0, N - 1), (1, N // 2), (N // 3, N - 2)):
        if bool(vg.visibility(i, j)) != bool(A_ref[i, j]):
            errors.append(f"{label}: visibility({i},{j}) wrong")

    ret_deg, adv_deg, ret_clo, adv_clo = directed_reference(A_ref)
    rd, ad = vg.retarded_degree(), vg.advanced_degree()
    if not same(rd, ret_deg):
        errors.append(f"{label}: retarded_degree != #neighbours in the past")
    if not same(ad, adv_deg):
        errors.append(f"{label}: advanced_degree != #neighbours in the future")
    if not same(rd + ad, vg.degree()):
        errors.append(f"{label}: retarded + advanced degree != degree")
    rc, ac = vg.retarded_closeness(), vg.advanced_closeness()
    # the boundary node has no past / future: value is undefined there
    if not same(rc[1:], ret_clo[1:]):
        errors.append(f"{label}: retarded_closeness differs from inverse mean "
                      f"path length to past nodes: {rc[1:4]} vs {ret_clo[1:4]}")
    if not same(ac[:-1], adv_clo[:-1]):
        errors.append(f"{label}: advanced_closeness differs from inverse mean "
                      f"path length to future nodes: {ac[:3]} vs {adv_clo[:3]}")

    # time reversal mirrors the graph and exchanges retarded and advanced
    vr = VisibilityGraph(x[::-1].copy(), timings=(-t[::-1]).copy(),
                         missing_values=missing, horizontal=horizontal,
                         silence_level=3)
    if not np.array_equal(np.asarray(vr.adjacency)[::-1, ::-1], A):
        errors.append(f"{label}: graph is not mirrored by time reversal")
    pairs = (("degree", vr.retarded_degree, ad, slice(None)),
             ("closeness", vr.retarded_closeness, ac, slice(None, -1)),
             ("local_clustering", vr.retarded_local_clustering,
              vg.advanced_local_clustering(), slice(None)))
    for name, retarded_of_reversed, advanced, sel in pairs:
        if not same(retarded_of_reversed()[::-1][sel], advanced[sel]):
            errors.append(f"{label}: advanced_{name} is not the mirror image "
                          f"of retarded_{name} of the reversed series")

    # positive affine maps of values and times leave the graph unchanged
    va = VisibilityGraph(4 * x + 3, timings=2 * t + 5, missing_values=missing,
                         horizontal=horizontal, silence_level=3)
    if not np.array_equal(np.asarray(va.adjacency), A):
        errors.append(f"{label}: graph changed under positive affine map")


def main():
    rng = np.random.RandomState(1402)
    errors = []
    for trial in range(12):
        N = int(rng.randint(8, 22))
        # integer / dyadic data with plateaus, monotone runs, collinear triples
        x = rng.randint(0, 6, N).astype(float)
        if trial % 3 == 0:
            x[2:6] = np.arange(4) + x[2]
        if trial % 4 == 1:
            x[3:6] = x[3]
        x_mv = x.copy()
        x_mv[rng.choice(np.arange(1, N - 1), size=max(1, N // 6),
                        replace=False)] = np.nan
        t_uniform = np.arange(N, dtype=float)
        t_dyadic = np.cumsum(rng.randint(1, 6, N)) / 4.

        for t, tl in ((t_uniform, "uniform"), (t_dyadic, "nonuniform")):
            check(x, t, False, False, f"#{trial} natural/{tl}", errors)
            check(x, t, False, True, f"#{trial} horizontal/{tl}", errors)
            check(x_mv, t, True, False, f"#{trial} natural/{tl}/missing",
                  errors)

    if errors:
        print(f"FAIL: property C14 violated ({len(errors)} findings)")
        for e in errors[:12]:
            print("  -", e)
        return 1
    print("PASS")
    return 0


if __name__ == "__main__":
    sys.exit(main())
