"""Digest of the surrogate test matrices (Pearson / binned MI) over a spread
of inputs.  Run as  PYTHONPATH=<worktree>/src /venv/bin/python equiv.py"""
import hashlib

import numpy as np

from pyunicorn.timeseries.surrogates import Surrogates
from pyunicorn.timeseries._ext.numerics import (
    _test_pearson_correlation, _test_mutual_information)

H = hashlib.sha256()


def feed(tag, fn):
    H.update(tag.encode())
    try:
        res = fn()
    except Exception as exc:  # pylint: disable=broad-except
        H.update(("EXC:" + type(exc).__name__).encode())
        return
    res = np.asarray(res)
    H.update(str(res.dtype).encode())
    H.update(repr(res.shape).encode())
    H.update(np.ascontiguousarray(res).tobytes())


def standardise(a):
    a = a - a.mean(axis=1, keepdims=True)
    s = a.std(axis=1, keepdims=True)
    s[s == 0] = 1
    return a / s


rng = np.random.RandomState(20240810)
shapes = [(1, 1), (1, 7), (2, 1), (2, 2), (3, 5), (4, 50), (7, 33),
          (12, 101), (25, 64), (5, 1000)]
for idx, (N, T) in enumerate(shapes):
    orig = rng.randn(N, T)
    surr = rng.randn(N, T)
    if idx % 3 == 0:
        # correlated pair, ties and the maximum of the range
        surr = 0.6 * orig + 0.4 * surr
        orig = np.round(orig, 1)
    so, ss = standardise(orig), standardise(surr)
    feed(f"P{idx}", lambda: Surrogates.test_pearson_correlation(so, ss))
    feed(f"Praw{idx}", lambda: Surrogates.test_pearson_correlation(orig, surr))
    feed(f"Pself{idx}", lambda: Surrogates.test_pearson_correlation(so, so))
    feed(f"Plow{idx}", lambda: _test_pearson_correlation(
        np.ascontiguousarray(so), np.ascontiguousarray(ss), N, T))
    for nb in (1, 2, 3, 8, 32, 33):
        feed(f"M{idx}-{nb}", lambda: Surrogates.test_mutual_information(
            so, ss, n_bins=nb))
        feed(f"Mraw{idx}-{nb}", lambda: Surrogates.test_mutual_information(
            orig, surr, n_bins=nb))
        feed(f"Mself{idx}-{nb}", lambda: Surrogates.test_mutual_information(
            orig, orig, n_bins=nb))
    feed(f"Mdef{idx}", lambda: Surrogates.test_mutual_information(so, ss))
    feed(f"Mlow{idx}", lambda: _test_mutual_information(
        np.ascontiguousarray(so), np.ascontiguousarray(ss), N, T, 5))

# integer / float32 / Fortran-ordered input goes through to_cy
a = rng.randint(-5, 6, size=(6, 40))
b = rng.randint(-5, 6, size=(6, 40))
feed("int-P", lambda: Surrogates.test_pearson_correlation(a, b))
feed("int-M", lambda: Surrogates.test_mutual_information(a, b, n_bins=4))
af = np.asfortranarray(rng.randn(6, 40).astype(np.float32))
bf = np.asfortranarray(rng.randn(6, 40).astype(np.float32))
feed("f32-P", lambda: Surrogates.test_pearson_correlation(af, bf))
feed("f32-M", lambda: Surrogates.test_mutual_information(af, bf, n_bins=7))

# special values
c = rng.randn(4, 30)
d = rng.randn(4, 30)
cn = c.copy()
cn[1, 3] = np.nan
feed("nan-P", lambda: Surrogates.test_pearson_correlation(cn, d))
feed("nan-M", lambda: Surrogates.test_mutual_information(cn, d, n_bins=4))
ci = c.copy()
ci[2, 5] = np.inf
feed("inf-P", lambda: Surrogates.test_pearson_correlation(ci, d))
feed("inf-M", lambda: Surrogates.test_mutual_information(ci, d, n_bins=4))
cm = c.copy()
cm[0, 0] = -np.inf
feed("minf-M", lambda: Surrogates.test_mutual_information(cm, d, n_bins=4))
const = np.ones((3, 9))
feed("const-P", lambda: Surrogates.test_pearson_correlation(const, const))
feed("const-M", lambda: Surrogates.test_mutual_information(const, const))
feed("half-const-M", lambda: Surrogates.test_mutual_information(
    const, rng.randn(3, 9), n_bins=3))

# error behaviour
feed("shape-P", lambda: Surrogates.test_pearson_correlation(c, d[:, :-1]))
feed("shape-M", lambda: Surrogates.test_mutual_information(c, d[:3]))
feed("bins0", lambda: Surrogates.test_mutual_information(c, d, n_bins=0))
feed("bins-1", lambda: Surrogates.test_mutual_information(c, d, n_bins=-1))
feed("empty-P", lambda: Surrogates.test_pearson_correlation(
    np.zeros((0, 5)), np.zeros((0, 5))))
feed("empty-M", lambda: Surrogates.test_mutual_information(
    np.zeros((0, 5)), np.zeros((0, 5))))
feed("notime-P", lambda: Surrogates.test_pearson_correlation(
    np.zeros((3, 0)), np.zeros((3, 0))))
feed("notime-M", lambda: Surrogates.test_mutual_information(
    np.zeros((3, 0)), np.zeros((3, 0))))
feed("1d-P", lambda: Surrogates.test_pearson_correlation(
    np.zeros(5), np.zeros(5)))

# via a Surrogates object (significance test uses both kernels)
np.random.seed(7)
data = np.random.randn(5, 60)
s = Surrogates(original_data=data, silence_level=3)
s.normalize_original_data()
feed("obj-P", lambda: s.test_threshold_significance(
    Surrogates.white_noise_surrogates, Surrogates.test_pearson_correlation,
    realizations=3, interval=[0, 1]))
feed("obj-M", lambda: s.test_threshold_significance(
    Surrogates.white_noise_surrogates, Surrogates.test_mutual_information,
    realizations=3, interval=[0, 2]))
feed("obj-orig", lambda: s.original_distribution(
    Surrogates.test_mutual_information, n_bins=10)[0])

print(H.hexdigest())
