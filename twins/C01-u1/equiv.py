"""
Equivalence digest for the cache-coherence mechanism (property C01).

Run as:  PYTHONPATH=<worktree>/src /venv/bin/python equiv.py
Prints one sha256 digest over: numerical results (full precision bytes),
mutation counters, cache statistics, captured stdout and exception types.
"""
import contextlib
import hashlib
import io
import warnings

import numpy as np

warnings.filterwarnings("ignore")

from pyunicorn.core.cache import Cached                      # noqa: E402
from pyunicorn.core import Network, GeoNetwork               # noqa: E402
from pyunicorn.timeseries import RecurrenceNetwork, RecurrencePlot  # noqa
from pyunicorn.climate import ClimateNetwork, ClimateData, \
    TsonisClimateNetwork                                     # noqa: E402

H = hashlib.sha256()
LOG = []


def put(tag, obj):
    """Feed a labelled value into the digest."""
    if isinstance(obj, np.ndarray):
        rep = f"{obj.dtype}|{obj.shape}|".encode() + \
            np.ascontiguousarray(obj).tobytes()
    elif isinstance(obj, (float, np.floating)):
        rep = repr(float(obj)).encode() + np.float64(obj).tobytes()
    elif isinstance(obj, (list, tuple)) and obj and all(
            isinstance(o, np.ndarray) for o in obj):
        for i, o in enumerate(obj):
            put(f"{tag}[{i}]", o)
        return
    else:
        rep = repr(obj).encode()
    H.update(tag.encode() + b"=" + rep + b";")
    LOG.append(tag)


def attempt(tag, fun, *args, **kwargs):
    """Record either the result or the exception type of a call."""
    try:
        res = fun(*args, **kwargs)
    except Exception as e:           # pylint: disable=broad-except
        put(tag + "!exc", type(e).__name__)
        return None
    put(tag, res)
    return res


# -----------------------------------------------------------------------------
# A. the mix-in on toy classes
# -----------------------------------------------------------------------------

def toy_classes():
    class Foo(Cached):
        silence_level = 1

        def __init__(self):
            self.a, self.b, self.calls = 0, "x", 0

        def __cache_state__(self):
            return (self.a,)

        @Cached.method()
        def plain(self, x, y=1):
            """Plain"""
            self.calls += 1
            return (x, y, self.a, self.calls)

        @Cached.method(name="noisy")
        def noisy(self, *args, **kw):
            """Noisy"""
            self.calls += 1
            return (args, tuple(sorted(kw.items())), self.calls)

        @Cached.method(name="dep", attrs=("b",))
        def dep(self, x=0):
            """Dep"""
            self.calls += 1
            return (x, self.a, self.b, self.calls)

        @Cached.method(attrs=("b", "c"))
        def dep2(self, x=0):
            """Dep2"""
            self.calls += 1
            return (x, self.b, self.c, self.calls)

        def ordinary(self):
            return 1

    class Owner(Cached):
        def __init__(self, foo):
            self.foo, self.k = foo, 0

        def __cache_state__(self):
            return (self.k, self.foo)

        @Cached.method(name="own")
        def own(self, x):
            return (x, self.foo.plain(x), self.k)

    return Foo, Owner


def info(m):
    c = m.cache_info()
    return (c.hits, c.misses, c.maxsize, c.currsize)


def section_toy():
    Foo, Owner = toy_classes()
    out = io.StringIO()
    with contextlib.redirect_stdout(out):
        X, Y = Foo(), Foo()
        for f in ("plain", "noisy", "dep", "dep2"):
            m = getattr(Foo, f)
            put(f"toy.meta.{f}", (m.__name__, m.__doc__, m.__qualname__,
                                  hasattr(m, "cache_clear"),
                                  hasattr(m, "cache_info"),
                                  m.__wrapped__.__name__))
        put("toy.eq", (X == X, X == Y, X != Y, X == 1, X is X))
        put("toy.hash", (hash(X) == hash((id(X), X.a)),
                         hash(X) == hash(Y)))
        for rep in range(3):
            for i in range(40):
                put(f"toy.plain.{rep}.{i}", X.plain(i % 7, y=i % 3))
                put(f"toy.plainY.{rep}.{i}", Y.plain(i % 7))
                put(f"toy.noisy.{rep}.{i}", X.noisy(*range(i % 5), k=i % 2))
                put(f"toy.dep.{rep}.{i}", X.dep(i % 4))
                if i % 10 == 9:
                    X.b = f"b{i}"
                if i % 13 == 12:
                    X.a += 1
                put(f"toy.info.{rep}.{i}", tuple(
                    info(getattr(X, f)) for f in ("plain", "noisy", "dep")))
            attempt("toy.dep2.missing", X.dep2, 1)
            X.c = rep
            attempt("toy.dep2.a", X.dep2, 1)
            attempt("toy.dep2.b", X.dep2, 1)
            attempt("toy.dep2.kw", X.dep2, x=1)
            attempt("toy.unhashable", X.plain, [1, 2])
            attempt("toy.unhashable.dep", X.dep, [1, 2])
            attempt("toy.typed", lambda: (X.plain(1), X.plain(1.0),
                                          X.plain(True)))
            put(f"toy.info2.{rep}", tuple(
                info(getattr(X, f)) for f in ("plain", "noisy", "dep",
                                              "dep2")))
            del X.c
            if rep == 0:
                X.cache_clear(prefix="de")
            elif rep == 1:
                X.cache_clear(prefix="nothing")
            else:
                Y.cache_clear()
            put(f"toy.info3.{rep}", tuple(
                info(getattr(X, f)) for f in ("plain", "noisy", "dep",
                                              "dep2")))
        # owned instances and recursive clearing
        O = Owner(X)
        for i in range(6):
            put(f"toy.own.{i}", O.own(i % 2))
            if i == 2:
                X.a += 1
            if i == 4:
                O.k += 1
        put("toy.own.info", (info(O.own), info(X.plain)))
        O.cache_clear(prefix="plain")
        put("toy.own.info2", (info(O.own), info(X.plain)))
        O.cache_clear()
        put("toy.own.info3", (info(O.own), info(X.plain)))

        # decorator argument validation
        for bad in [dict(attrs=()), dict(attrs=["a"]), dict(attrs=("a", 1)),
                    dict(name=3), dict(attrs="a"), dict(name="ok"),
                    dict(attrs=("a",), name="ok")]:
            attempt(f"toy.deco.{sorted(bad.items())}",
                    lambda bad=bad: callable(Cached.method(**bad)))

        # caching disabled for subsequently defined methods
        class NoCache(Cached):
            cache_enable = False

            def __cache_state__(self):
                return ()

            @classmethod
            def build(cls):
                def raw(self, x):
                    return x
                return raw, cls.method(name="raw", attrs=("z",))(raw)

        raw, deco = NoCache.build()
        put("toy.nocache", (raw is deco, hasattr(deco, "cache_clear")))

        # abstractness
        attempt("toy.abstract", Cached)
    put("toy.stdout", out.getvalue())


# -----------------------------------------------------------------------------
# B. Network
# -----------------------------------------------------------------------------

def rand_adj(rng, n, p, directed):
    A = (rng.random((n, n)) < p).astype(int)
    np.fill_diagonal(A, 0)
    if not directed:
        A = np.triu(A, 1)
        A = A + A.T
    return A


def counters(net):
    return tuple(getattr(net, c, None) for c in (
        "_mut_A", "_mut_nw", "_mut_la", "_mut_clim", "_mut_R",
        "_mut_embedding"))


def net_measures(tag, net, weighted=True):
    put(tag + ".str", str(net))
    put(tag + ".sum", (net.N, net.n_links, repr(float(net.link_density)),
                       net.directed, repr(float(net.mean_node_weight)),
                       repr(float(net.total_node_weight))))
    put(tag + ".cnt", counters(net))
    put(tag + ".adj", net.adjacency)
    put(tag + ".nw", net.node_weights)
    for name in ("degree", "indegree", "outdegree", "nsi_degree",
                 "local_clustering", "nsi_local_clustering",
                 "global_clustering", "transitivity", "nsi_transitivity",
                 "path_lengths", "average_path_length", "closeness",
                 "nsi_closeness", "betweenness", "nsi_betweenness",
                 "nsi_average_neighbors_degree", "nsi_max_neighbors_degree",
                 "nsi_global_efficiency",
                 "link_betweenness", "laplacian", "nsi_laplacian",
                 "degree_cdf"):
        attempt(f"{tag}.{name}", getattr(net, name))
    if weighted:
        for name in ("degree", "indegree", "outdegree", "nsi_degree",
                     "path_lengths", "closeness", "average_path_length"):
            attempt(f"{tag}.{name}.w", getattr(net, name), "w")
        attempt(tag + ".link_attribute", net.link_attribute, "w")
        attempt(tag + ".find", net.find_link_attribute, "w")


def section_network():
    out = io.StringIO()
    with contextlib.redirect_stdout(out):
        for seed in range(6):
            rng = np.random.default_rng(100 + seed)
            directed = bool(seed % 2)
            n = 6 + 3 * seed
            A = rand_adj(rng, n, 0.4, directed)
            w0 = rng.random(n) + 0.5 if seed % 3 else None
            net = Network(adjacency=A, directed=directed, node_weights=w0,
                          silence_level=seed % 3)
            steps = ["measure", "la", "measure", "nw", "measure", "adj",
                     "measure", "la", "nw", "measure", "del", "measure",
                     "edges", "measure", "nw_none", "measure", "bad_nw",
                     "bad_adj", "measure", "del", "la", "la", "measure"]
            cur_n = n
            for k, step in enumerate(steps):
                tag = f"net.{seed}.{k}.{step}"
                if step == "measure":
                    net_measures(tag, net)
                    fresh = Network(adjacency=net.adjacency,
                                    directed=net.directed,
                                    node_weights=net.node_weights,
                                    silence_level=3)
                    for m in ("degree", "nsi_degree", "path_lengths",
                              "local_clustering", "nsi_local_clustering"):
                        attempt(f"{tag}.fresh.{m}", lambda m=m: bool(
                            np.array_equal(getattr(net, m)(),
                                           getattr(fresh, m)())))
                elif step == "la":
                    W = rng.random((cur_n, cur_n)) + 0.1
                    if not directed:
                        W = W + W.T
                    net.set_link_attribute("w", W)
                elif step == "del":
                    net.del_link_attribute("w")
                    net.del_link_attribute("never_there")
                elif step == "nw":
                    net.node_weights = rng.random(cur_n) + 0.25
                elif step == "nw_none":
                    net.node_weights = None
                elif step == "adj":
                    cur_n = n + 2
                    net.adjacency = rand_adj(rng, cur_n, 0.5, directed)
                    net.node_weights = None
                elif step == "edges":
                    m = 2 * cur_n
                    el = rng.integers(0, cur_n, size=(m, 2))
                    el = el[el[:, 0] != el[:, 1]]
                    net.set_edge_list(el, n_nodes=cur_n)
                elif step == "bad_nw":
                    attempt(tag, setattr, net, "node_weights",
                            np.ones(cur_n + 1))
                elif step == "bad_adj":
                    attempt(tag, setattr, net, "adjacency",
                            np.zeros((3, 4), dtype=int))
                    put(tag + ".state", (net.N, net.sp_A is None,
                                         counters(net)))
                    net.adjacency = rand_adj(rng, cur_n, 0.45, directed)
                put(tag + ".cnt", counters(net))
                put(tag + ".state", net.__cache_state__())
        # constructor variants and errors
        attempt("net.ctor.none", Network)
        attempt("net.ctor.one", lambda: str(Network(adjacency=[[0]])))
        attempt("net.ctor.edges", lambda: str(Network(
            edge_list=[[0, 1], [1, 2], [4, 2]], directed=True)))
        attempt("net.ctor.edges_n", lambda: str(Network(
            edge_list=[[0, 1], [1, 2]], n_nodes=7)))
        net = Network.SmallTestNetwork()
        cp = net.copy()
        put("net.copy", (counters(cp), counters(net), str(cp)))
        sp = net.splitted_copy()
        put("net.split", (counters(sp), str(sp)))
        net_measures("net.split.m", sp, weighted=False)
    put("net.stdout", out.getvalue())


# -----------------------------------------------------------------------------
# C. recurrence networks / plots
# -----------------------------------------------------------------------------

def rn_measures(tag, rn):
    put(tag + ".cnt", counters(rn))
    put(tag + ".state", rn.__cache_state__())
    put(tag + ".str", str(rn))
    put(tag + ".R", rn.recurrence_matrix())
    put(tag + ".emb", rn.embedding)
    for name in ("recurrence_rate", "diagline_dist", "vertline_dist",
                 "white_vertline_dist", "determinism", "laminarity",
                 "max_diaglength", "average_diaglength", "diag_entropy",
                 "trapping_time", "degree", "local_clustering",
                 "transitivity", "path_lengths", "average_path_length",
                 "nsi_degree", "betweenness", "closeness"):
        attempt(f"{tag}.{name}", getattr(rn, name))
    attempt(tag + ".adj", lambda: rn.adjacency)
    attempt(tag + ".sum", lambda: (rn.N, rn.n_links,
                                   repr(float(rn.link_density)),
                                   rn.directed))


def section_recurrence():
    out = io.StringIO()
    with contextlib.redirect_stdout(out):
        for seed in range(4):
            rng = np.random.default_rng(200 + seed)
            T = 60 + 15 * seed
            x = np.cumsum(rng.standard_normal(T)) * 0.3 + \
                np.sin(np.arange(T) * 0.4)
            kw = [dict(threshold=0.4), dict(recurrence_rate=0.1, dim=2,
                                            tau=3),
                  dict(local_recurrence_rate=0.08, dim=3, tau=1),
                  dict(threshold_std=0.3, metric="euclidean", dim=2,
                       tau=2, normalize=True)][seed]
            if seed == 1:
                kw["node_weights"] = rng.random(T) + 0.5
            rn = RecurrenceNetwork(x.copy(), silence_level=seed % 3, **kw)
            rn_measures(f"rn.{seed}.0", rn)
            seq = [("set_fixed_threshold", (0.25,)),
                   ("set_fixed_recurrence_rate", (0.07,)),
                   ("set_fixed_threshold_std", (0.5,)),
                   ("set_fixed_local_recurrence_rate", (0.12,)),
                   ("set_adaptive_neighborhood_size", (3,)),
                   ("set_fixed_threshold", (0.6,)),
                   ("set_fixed_recurrence_rate", (0.07,))]
            for k, (name, args) in enumerate(seq):
                tag = f"rn.{seed}.{k + 1}.{name}"
                attempt(tag, getattr(rn, name), *args)
                rn_measures(tag, rn)
                if k == 2:
                    rn.node_weights = rng.random(rn.N) + 0.1
                    rn_measures(tag + ".nw", rn)
                if k == 4:
                    rn.set_link_attribute(
                        "w", rng.random((rn.N, rn.N)) + 0.2)
                    attempt(tag + ".wpl", rn.path_lengths, "w")
            # new embedding on the plot level
            for dim, tau in [(1, 1), (2, 2), (3, 4), (4, 1), (2, 40)]:
                tag = f"rp.{seed}.{dim}.{tau}"
                rp = RecurrencePlot(x.copy(), threshold=0.5,
                                    silence_level=2)
                put(tag + ".a", (counters(rp), rp.diagline_dist(),
                                 rp.vertline_dist()))
                rp.embedding = attempt(tag + ".embed",
                                       rp.embed_time_series,
                                       x, dim, tau)
                put(tag + ".N", rp.N)
                attempt(tag + ".thr", rp.set_fixed_threshold, 0.5)
                put(tag + ".b", (counters(rp), rp.__cache_state__()))
                attempt(tag + ".diag", rp.diagline_dist)
                attempt(tag + ".vert", rp.vertline_dist)
                attempt(tag + ".rr", rp.recurrence_rate)
                attempt(tag + ".ans", rp.set_adaptive_neighborhood_size, 2,
                        rng.permutation(rp.N))
                put(tag + ".R", rp.R)
                attempt(tag + ".diag2", rp.diagline_dist)
            # degenerate embeddings
            for dim, tau in [(3, T), (2, -1), (0, 1)]:
                attempt(f"rp.embed.{seed}.{dim}.{tau}",
                        RecurrencePlot.embed_time_series, x, dim, tau)
            # sparse rqa and missing values
            y = x.copy()
            y[[5, 17, 18]] = np.nan
            rp = RecurrencePlot(y, threshold=0.5, missing_values=True,
                                silence_level=2)
            put(f"rp.mv.{seed}", (rp.diagline_dist(), rp.vertline_dist()))
            rp.set_fixed_threshold(0.2)
            put(f"rp.mv2.{seed}", (rp.diagline_dist(), rp.vertline_dist(),
                                   counters(rp)))
            rp = RecurrencePlot(x.copy(), threshold=0.5, sparse_rqa=True,
                                silence_level=2)
            put(f"rp.sp.{seed}", (rp.diagline_dist(), rp.vertline_dist()))
            rp.threshold = 0.2
            put(f"rp.sp2.{seed}", (rp.diagline_dist(), rp.vertline_dist(),
                                   counters(rp)))
    put("rn.stdout", out.getvalue())


# -----------------------------------------------------------------------------
# D. climate networks
# -----------------------------------------------------------------------------

def cn_measures(tag, cn):
    put(tag + ".cnt", counters(cn))
    put(tag + ".state", tuple(
        s if not isinstance(s, Cached) else type(s).__name__
        for s in cn.__cache_state__()))
    put(tag + ".str", str(cn))
    put(tag + ".adj", cn.adjacency)
    put(tag + ".nw", cn.node_weights)
    for name in ("threshold", "non_local", "degree", "nsi_degree",
                 "local_clustering", "path_lengths", "closeness",
                 "correlation_distance", "inv_correlation_distance",
                 "correlation_distance_weighted_closeness",
                 "local_correlation_distance_weighted_vulnerability",
                 "average_link_distance", "area_weighted_connectivity",
                 "link_density_function"):
        args = (5,) if name == "link_density_function" else ()
        attempt(f"{tag}.{name}", getattr(cn, name), *args)


def section_climate():
    out = io.StringIO()
    with contextlib.redirect_stdout(out):
        cn = ClimateNetwork.SmallTestNetwork()
        cn_measures("cn.0", cn)
        seq = [("set_threshold", (0.7,)), ("set_link_density", (0.7,)),
               ("set_non_local", (True,)), ("set_threshold", (0.3,)),
               ("set_non_local", (True,)), ("set_non_local", (False,)),
               ("set_link_density", (0.3,)), ("_regenerate_network", ())]
        for k, (name, args) in enumerate(seq):
            tag = f"cn.{k + 1}.{name}"
            attempt(tag, getattr(cn, name), *args)
            cn_measures(tag, cn)
        cn.node_weights = np.arange(1., 7.)
        cn_measures("cn.nw", cn)
        cn.set_threshold(0.5)
        cn_measures("cn.nw.thr", cn)

        rng = np.random.default_rng(7)
        for k in range(3):
            S = rng.random((6, 6))
            S = (S + S.T) / 2
            np.fill_diagonal(S, 1)
            ref = ClimateNetwork.SmallTestNetwork()
            c2 = ClimateNetwork(grid=ref.grid, similarity_measure=S,
                                threshold=0.3 + 0.1 * k,
                                node_weight_type=["surface", "irrigation",
                                                  None][k],
                                directed=bool(k % 2), silence_level=k)
            cn_measures(f"cn2.{k}.0", c2)
            c2.set_link_density(0.4)
            cn_measures(f"cn2.{k}.1", c2)
            c2._similarity_measure = np.abs(S.T * 0.9).astype("float32")
            c2._regenerate_network()
            cn_measures(f"cn2.{k}.2", c2)
        attempt("cn.ctor.neither", lambda: counters(ClimateNetwork(
            grid=ref.grid, similarity_measure=S, silence_level=2)))

        ts = TsonisClimateNetwork.SmallTestNetwork()
        cn_measures("ts.0", ts)
        attempt("ts.corr", ts.correlation)
        attempt("ts.winter", ts.set_winter_only, True)
        cn_measures("ts.1", ts)
        ts.data.set_window({"time_min": 0., "time_max": 6.,
                            "lat_min": 0., "lat_max": 25.,
                            "lon_min": 2.5, "lon_max": 15.})
        attempt("ts.winter2", ts.set_winter_only, False)
        cn_measures("ts.2", ts)
        attempt("ts.corr2", ts.correlation)
        ts.data.set_global_window()
        attempt("ts.winter3", ts.set_winter_only, False)
        cn_measures("ts.3", ts)

        gn = GeoNetwork.SmallTestNetwork()
        put("gn.state", tuple(
            s if not isinstance(s, Cached) else type(s).__name__
            for s in gn.__cache_state__()))
        put("gn.cnt", counters(gn))
        gn.set_node_weight_type("irrigation") if hasattr(
            gn, "set_node_weight_type") else None
        put("gn.cnt2", counters(gn))
        attempt("gn.nsi", gn.nsi_degree)
    put("cn.stdout", out.getvalue())


if __name__ == "__main__":
    np.random.seed(0)
    section_toy()
    section_network()
    section_recurrence()
    section_climate()
    print(f"items={len(LOG)} digest={H.hexdigest()}")
