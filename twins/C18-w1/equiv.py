"""Equivalence digest for ResNetwork (property C18).

Run as:  PYTHONPATH=<worktree>/src /venv/bin/python equiv.py
Prints one sha256 digest; must be identical on pristine and refactored tree.
"""
import contextlib
import hashlib
import io
import sys
import warnings

import numpy as np

from pyunicorn.core.resistive_network import ResNetwork
from pyunicorn.core.geo_grid import GeoGrid
from pyunicorn.core._ext.numerics import \
    _vertex_current_flow_betweenness, _edge_current_flow_betweenness

warnings.simplefilter("ignore")
H = hashlib.sha256()
TRACE = "--trace" in sys.argv


def put(tag, val):
    """Feed a value into the digest in a canonical, full precision form."""
    H.update(("<" + tag + ">").encode())
    if val is None:
        H.update(b"None")
    elif isinstance(val, np.ndarray):
        H.update(type(val).__name__.encode())
        H.update(str(val.dtype).encode())
        H.update(repr(val.shape).encode())
        if val.dtype == object:
            H.update(repr(val.tolist()).encode())
        else:
            H.update(np.ascontiguousarray(val).tobytes())
    elif isinstance(val, (np.generic,)):
        H.update(type(val).__name__.encode())
        H.update(np.asarray(val).tobytes())
    elif isinstance(val, (float, complex, int, bool, str)):
        H.update(type(val).__name__.encode())
        H.update(repr(val).encode())
    elif isinstance(val, (list, tuple)):
        H.update(type(val).__name__.encode())
        for k, v in enumerate(val):
            put(f"{tag}[{k}]", v)
    elif isinstance(val, ResNetwork):
        H.update(b"ResNetwork-instance")
    else:
        H.update(type(val).__name__.encode())
        H.update(repr(val).encode())
    if TRACE:
        print(tag, H.hexdigest()[:12])


def attempt(tag, fun, *args, **kwargs):
    """Call fun, feeding the result or the exception type into the digest."""
    out = io.StringIO()
    try:
        with contextlib.redirect_stdout(out):
            res = fun(*args, **kwargs)
    except Exception as exc:  # pylint: disable=broad-except
        put(tag + ":exc", type(exc).__name__)
        res = None
    else:
        put(tag, res)
    put(tag + ":stdout", out.getvalue())
    return res


def state(tag, net):
    """Digest the complete resistive state of a network."""
    put(tag + ".flagComplex", net.flagComplex)
    put(tag + ".flagComplex.type", type(net.flagComplex).__name__)
    put(tag + ".resistances.type", type(net.resistances).__name__)
    put(tag + ".resistances", np.asarray(net.resistances))
    adm = net.sparse_Adm
    put(tag + ".sparse_Adm.type", type(adm).__name__)
    if adm is not None:
        put(tag + ".sparse_Adm.dtype", str(adm.dtype))
        put(tag + ".sparse_Adm.shape", repr(adm.shape))
        put(tag + ".sparse_Adm.rows", repr([list(r) for r in adm.rows]))
        put(tag + ".sparse_Adm.data", repr([list(r) for r in adm.data]))
        put(tag + ".sparse_Adm.dense", adm.toarray())
    sr = net.sparse_R
    put(tag + ".sparse_R.type", type(sr).__name__)
    if sr is not None:
        put(tag + ".sparse_R.dtype", str(sr.dtype))
        put(tag + ".sparse_R.dense", sr.toarray())
    g = net.adm_graph
    put(tag + ".adm_graph.type", type(g).__name__)
    if g is not None:
        put(tag + ".adm_graph.n", g.vcount())
        put(tag + ".adm_graph.dir", g.is_directed())
        put(tag + ".adm_graph.edges", repr(g.get_edgelist()))
    put(tag + ".graph.edges", repr(net.graph.get_edgelist()))
    put(tag + ".graph.dir", net.graph.is_directed())
    put(tag + ".adjacency", net.adjacency)
    put(tag + ".N", net.N)
    put(tag + ".directed", net.directed)
    put(tag + "._er", getattr(net, "_effective_resistances", "<missing>"))
    put(tag + ".grid.lat", net.grid.lat_sequence())
    put(tag + ".grid.lon", net.grid.lon_sequence())
    put(tag + ".attrs", repr(sorted(k for k in vars(net)
                                    if "resist" in k.lower()
                                    or "adm" in k.lower()
                                    or k in ("sparse_R", "flagComplex"))))


def measures(tag, net):
    """Digest every public resistive measure."""
    attempt(tag + ".str", net.__str__)
    attempt(tag + ".adm", net.get_admittance)
    attempt(tag + ".R", net.get_R)
    attempt(tag + ".lap", net.admittance_lapacian)
    attempt(tag + ".ad", net.admittive_degree)
    attempt(tag + ".anad", net.average_neighbors_admittive_degree)
    attempt(tag + ".lac", net.local_admittive_clustering)
    attempt(tag + ".gac", net.global_admittive_clustering)
    for a in range(net.N):
        for b in range(net.N):
            attempt(f"{tag}.er[{a},{b}]", net.effective_resistance, a, b)
    attempt(tag + ".diam0", net.diameter_effective_resistance)
    put(tag + "._er0", net._effective_resistances)
    attempt(tag + ".aer", net.average_effective_resistance)
    put(tag + "._er1", net._effective_resistances)
    attempt(tag + ".diam1", net.diameter_effective_resistance)
    for a in range(net.N):
        attempt(f"{tag}.ercc[{a}]",
                net.effective_resistance_closeness_centrality, a)
    for i in (-1, net.N, net.N + 3):
        attempt(f"{tag}.vcfb[{i}]", net.vertex_current_flow_betweenness, i)
    for i in range(net.N):
        attempt(f"{tag}.vcfb[{i}]", net.vertex_current_flow_betweenness, i)
    attempt(tag + ".ecfb", net.edge_current_flow_betweenness)


def random_resistances(rng, n, p, kind):
    """Symmetric resistances on a connected random graph."""
    adj = np.zeros((n, n), dtype=bool)
    for i in range(1, n):                      # spanning tree => connected
        j = rng.integers(0, i)
        adj[i, j] = adj[j, i] = True
    extra = np.triu(rng.random((n, n)) < p, 1)
    adj |= extra | extra.T
    if kind == "int":
        r = np.triu(rng.integers(1, 9, size=(n, n)), 1)
        r = (r + r.T) * adj
        return r.astype(np.int64)
    r = np.triu(rng.random((n, n)) * 9 + 0.1, 1)
    r = (r + r.T) * adj
    if kind == "float32":
        return r.astype(np.float32)
    if kind == "complex":
        im = np.triu(rng.random((n, n)) * 5 + 0.1, 1)
        im = (im + im.T) * adj
        return r + 1j * im
    return r


def main():
    # --- library test networks -------------------------------------------
    for name, make in (("small", ResNetwork.SmallTestNetwork),
                       ("cplx", ResNetwork.SmallComplexNetwork)):
        net = attempt(name + ".make", make)
        state(name + ".s0", net)
        measures(name + ".m0", net)
        state(name + ".s1", net)
        # change of the resistances must be followed by everything
        attempt(name + ".upd_adj", net.update_resistances, net.adjacency)
        state(name + ".s2", net)
        measures(name + ".m2", net)
        # list (non-ndarray) input
        lst = (np.asarray(net.adjacency) * 3).tolist()
        attempt(name + ".upd_list", net.update_resistances, lst)
        state(name + ".s3", net)
        measures(name + ".m3", net)

    # --- random networks -------------------------------------------------
    rng = np.random.default_rng(20241018)
    case = 0
    for n in (2, 3, 4, 6, 9, 12):
        for kind in ("float", "int", "float32", "complex"):
            case += 1
            tag = f"rnd{case}"
            res = random_resistances(rng, n, 0.35, kind)
            sil = 0 if case % 3 == 0 else 2
            net = attempt(tag + ".make", ResNetwork, res, silence_level=sil)
            if net is None:
                continue
            state(tag + ".s0", net)
            measures(tag + ".m0", net)
            # memo must be dropped by each of the three update entry points
            net.average_effective_resistance()
            attempt(tag + ".update_R", net.update_R)
            put(tag + "._er_after_update_R", net._effective_resistances)
            net.average_effective_resistance()
            attempt(tag + ".update_admittance", net.update_admittance)
            state(tag + ".s_after_update_admittance", net)
            # scaled resistances
            attempt(tag + ".upd_scaled", net.update_resistances, res * 2)
            state(tag + ".s1", net)
            measures(tag + ".m1", net)
            # switch between real and complex
            other = res.real if np.iscomplexobj(res) else res * (1 + 2j)
            attempt(tag + ".upd_other", net.update_resistances, other)
            state(tag + ".s2", net)
            measures(tag + ".m2", net)
            # tuple-of-tuples input
            attempt(tag + ".upd_tuple", net.update_resistances,
                    tuple(map(tuple, res.tolist())))
            state(tag + ".s3", net)
            # matrix that is too small => error, state afterwards
            attempt(tag + ".upd_small", net.update_resistances,
                    res[:n - 1, :n - 1])
            state(tag + ".s4", net)
            attempt(tag + ".vcfb_after_err",
                    net.vertex_current_flow_betweenness, 0)
            attempt(tag + ".ecfb_after_err",
                    net.edge_current_flow_betweenness)
            # resistances with a zero on a link => infinite admittance
            bad = res.copy()
            i, j = np.argwhere(bad != 0)[0]
            bad[i, j] = 0
            attempt(tag + ".upd_zero", net.update_resistances, bad)
            state(tag + ".s5", net)

    # --- constructor variants --------------------------------------------
    res = random_resistances(rng, 6, 0.4, "float")
    adj = (res != 0).astype("int8")
    grid = GeoGrid(time_seq=np.arange(4), lat_seq=np.linspace(-30, 60, 6),
                   lon_seq=np.linspace(10, 70, 6), silence_level=2)
    variants = {
        "v_adj": dict(adjacency=adj),
        "v_grid": dict(grid=grid),
        "v_both": dict(grid=grid, adjacency=adj),
        "v_both_loud": dict(grid=grid, adjacency=adj, silence_level=0),
        "v_loud": dict(silence_level=1),
        "v_nwt": dict(node_weight_type="cos_lat"),
        "v_dir": dict(directed=True),
        "v_edge_list": dict(edge_list=[[0, 1], [1, 2]]),
        "v_sub_adj": dict(adjacency=np.triu(adj, 1) + np.triu(adj, 1).T
                          * (np.arange(6) < 5)),
    }
    for tag, kw in variants.items():
        net = attempt(tag + ".make", ResNetwork, res, **kw)
        if net is not None:
            state(tag + ".s", net)
            measures(tag + ".m", net)
    # invalid constructor arguments
    attempt("bad.list", ResNetwork, res.tolist())
    attempt("bad.none", ResNetwork, None)
    attempt("bad.1d", ResNetwork, np.arange(4.0))
    attempt("bad.rect", ResNetwork, np.ones((3, 4)))
    attempt("bad.matrix", ResNetwork, np.asmatrix(res))
    attempt("bad.empty", ResNetwork, np.zeros((0, 0)))
    attempt("bad.adj_shape", ResNetwork, res, adjacency=adj[:4, :4])
    net = attempt("mat.make", ResNetwork, res, adjacency=adj)
    attempt("mat.upd", net.update_resistances, np.asmatrix(res))
    put("mat.type", type(net.resistances).__name__)
    attempt("mat.adm", net.get_admittance)
    attempt("mat.R", net.get_R)
    attempt("obj.upd", net.update_resistances, res.astype(object))
    attempt("obj.adm", net.get_admittance)
    attempt("str.upd", net.update_resistances, "abc")
    attempt("none.upd", net.update_resistances, None)
    state("after_bad.s", net)

    # --- raw compiled kernels --------------------------------------------
    rng = np.random.default_rng(77)
    for n in (0, 1, 2, 3, 5, 8, 13):
        for mode in ("plain", "nan", "inf", "neg"):
            adm = rng.random((n, n)).astype(np.float32)
            R = (rng.standard_normal((n, n)) * 3).astype(np.float32)
            if n > 1 and mode == "nan":
                R[0, 1] = np.nan
                adm[1, 0] = np.nan
            if n > 1 and mode == "inf":
                R[1, 0] = np.inf
                adm[0, 1] = -np.inf
            if mode == "neg":
                adm = -adm
            for Is, It in ((1.0, 1.0), (0.5, -2.25), (0.0, 3.0)):
                t = f"raw[{n},{mode},{Is},{It}]"
                attempt(t + ".e", _edge_current_flow_betweenness,
                        n, Is, It, adm, R)
                for i in range(-1, n + 1):
                    if 0 <= i < max(n, 1) and n > 0:
                        attempt(f"{t}.v{i}", _vertex_current_flow_betweenness,
                                n, Is, It, adm, R, i)
        # wrong argument types
    attempt("raw.badtype", _edge_current_flow_betweenness, 2, 1.0, 1.0,
            np.zeros((2, 2)), np.zeros((2, 2), dtype=np.float32))
    attempt("raw.badndim", _vertex_current_flow_betweenness, 2, 1.0, 1.0,
            np.zeros(4, dtype=np.float32), np.zeros((2, 2), dtype=np.float32),
            0)

    print(H.hexdigest())


if __name__ == "__main__":
    main()
