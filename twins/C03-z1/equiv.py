"""Digest of the cliquishness kernels (orders 4 and 5) on a spread of graphs."""
import hashlib
import io
import contextlib

import numpy as np

from pyunicorn.core.network import Network, NetworkError
from pyunicorn.core._ext.types import to_cy, ADJ, DEGREE
from pyunicorn.core._ext.numerics import \
    _local_cliquishness_4thorder, _local_cliquishness_5thorder

h = hashlib.sha256()


def put(tag, val):
    h.update(tag.encode())
    if isinstance(val, np.ndarray):
        h.update(str(val.dtype).encode())
        h.update(str(val.shape).encode())
        h.update(np.ascontiguousarray(val).tobytes())
    else:
        h.update(repr(val).encode())


def sym(rng, n, p):
    a = (rng.random((n, n)) < p).astype(np.int8)
    a = np.triu(a, 1)
    return a + a.T


rng = np.random.default_rng(20240703)
graphs = []
for n in (1, 2, 3, 4, 5, 6, 8, 11, 15, 22, 30):
    for p in (0.0, 0.15, 0.35, 0.6, 0.85, 1.0):
        graphs.append(sym(rng, n, p))
# structured graphs
ring = np.zeros((12, 12), dtype=np.int8)
for i in range(12):
    ring[i, (i + 1) % 12] = ring[(i + 1) % 12, i] = 1
    ring[i, (i + 2) % 12] = ring[(i + 2) % 12, i] = 1
graphs.append(ring)
two_cliques = np.zeros((13, 13), dtype=np.int8)
two_cliques[:6, :6] = 1
two_cliques[6:12, 6:12] = 1
np.fill_diagonal(two_cliques, 0)
graphs.append(two_cliques)

with contextlib.redirect_stdout(io.StringIO()):
    for g, A in enumerate(graphs):
        try:
            net = Network(adjacency=A, directed=False, silence_level=2)
        except ZeroDivisionError as e:
            put(f"net{g}", type(e).__name__)
            continue
        for order in (4, 5):
            try:
                put(f"net{g}o{order}", net.local_cliquishness(order))
            except Exception as e:  # pylint: disable=broad-except
                put(f"net{g}o{order}", type(e).__name__)
    # error paths of the public method
    net = Network.SmallTestNetwork()
    for order in (0, 1, 2, 3, 6, -1):
        try:
            put(f"small{order}", net.local_cliquishness(order))
        except Exception as e:  # pylint: disable=broad-except
            put(f"small{order}", type(e).__name__)
    try:
        Network.SmallDirectedTestNetwork().local_cliquishness(4)
    except NetworkError as e:
        put("directed", type(e).__name__)

# direct kernel calls, including non-symmetric matrices, entries other than
# 0/1, self loops and degree vectors that do not match the matrix
for trial in range(60):
    n = int(rng.integers(1, 14))
    A = rng.integers(0, 3, size=(n, n)).astype(np.int8)
    if trial % 3 == 0:
        A = (A > 0).astype(np.int8)
    if trial % 2 == 0:
        deg = (A == 1).sum(axis=1)
    else:
        deg = rng.integers(-2, n + 1, size=n)
    for fn in (_local_cliquishness_4thorder, _local_cliquishness_5thorder):
        try:
            put(f"k{trial}{fn.__name__}",
                fn(n, to_cy(A, ADJ), to_cy(deg, DEGREE)))
        except Exception as e:  # pylint: disable=broad-except
            put(f"k{trial}{fn.__name__}", type(e).__name__ + str(e))
# degree larger than N: out-of-bounds access must raise
for fn in (_local_cliquishness_4thorder, _local_cliquishness_5thorder):
    A = np.ones((5, 5), dtype=np.int8)
    try:
        put("oob" + fn.__name__,
            fn(5, A, np.array([4, 4, 9, 4, 4], dtype=np.int16)))
    except Exception as e:  # pylint: disable=broad-except
        put("oob" + fn.__name__, type(e).__name__ + str(e))

print(h.hexdigest())
