"""C15: generating surrogates repeatedly on one object must not degrade the
guarantees: after drawing shuffle surrogates, Fourier / twin surrogates must
still refer to the time series the object was built from."""
import random
import sys
import numpy as np
from pyunicorn.timeseries import Surrogates

np.random.seed(4321)
random.seed(4321)
problems = []
for n_time in (41, 60):
    t = np.arange(n_time)
    data0 = np.vstack([np.sin(0.3 * t + p) + 0.1 * np.random.randn(n_time)
                       for p in (0.0, 1.0, 2.0)])
    s = Surrogates(original_data=data0.copy(), silence_level=2)

    for call in range(3):
        w = s.white_noise_surrogates()
        if not np.array_equal(np.sort(w, axis=1), np.sort(data0, axis=1)):
            problems.append(f"n_time={n_time}: shuffle surrogate #{call} is "
                            "not a row-wise permutation")
        if np.shares_memory(w, s.original_data):
            problems.append(f"n_time={n_time}: shuffle surrogate #{call} "
                            "aliases original_data")
    if not np.array_equal(s.original_data, data0):
        problems.append(f"n_time={n_time}: original_data was reordered by "
                        "white_noise_surrogates()")

    #  Fourier surrogates drawn afterwards keep the spectrum of the series
    c = s.correlated_noise_surrogates()
    a = np.abs(np.fft.rfft(c, axis=1))
    b = np.abs(np.fft.rfft(data0, axis=1))
    hi = a.shape[1] - (1 if n_time % 2 == 0 else 0)
    if not np.allclose(a[:, 1:hi], b[:, 1:hi], rtol=1e-8, atol=1e-8):
        problems.append(f"n_time={n_time}: Fourier surrogates after shuffle "
                        "surrogates lost the amplitude spectrum of the data")

    #  Twin surrogates drawn afterwards: every value followed by the
    #  successor of itself (no twins at this tiny threshold) or a restart
    ts = s.twin_surrogates(1, 0, 1e-9, min_dist=7)
    for i in range(ts.shape[0]):
        pos = {v: k for k, v in enumerate(data0[i])}
        jumps = 0
        for x, y in zip(ts[i, :-1], ts[i, 1:]):
            if x not in pos or y not in pos:
                jumps = n_time
                break
            if pos[y] != pos[x] + 1:
                jumps += 1
        if jumps > n_time // 3:   # only a few restarts at the end allowed
            problems.append(f"n_time={n_time}: twin surrogate {i} does not "
                            "follow the successor relation of the data")
            break

if problems:
    print("FAIL")
    for p in problems:
        print("  " + p)
    sys.exit(1)
print("PASS")
