"""Digest of the Spearman rainfall kernel (wrapper + public API)."""
import hashlib
import numpy as np
from pyunicorn.climate._ext.numerics import spearman_corr
from pyunicorn.climate.rainfall import RainfallClimateNetwork

h = hashlib.sha256()


def feed(tag, fn):
    try:
        res = fn()
        res = np.asarray(res)
        h.update(f"{tag}|{res.dtype}|{res.shape}|".encode())
        h.update(np.ascontiguousarray(res).tobytes())
    except BaseException as e:  # noqa
        h.update(f"{tag}|EXC|{type(e).__name__}|{e}".encode())


rng = np.random.RandomState(20)
shapes = [(0, 0), (0, 5), (1, 1), (1, 7), (3, 0), (2, 1), (4, 3), (5, 12),
          (7, 40), (12, 5), (9, 100), (20, 31)]
for m, tmax in shapes:
    for p in (0.0, 0.3, 0.8, 1.0):
        mask = (rng.rand(m, tmax) < p).astype(np.int8)
        data = rng.randn(m, tmax)
        ranked = (data.argsort(axis=1).argsort(axis=1) + 1.0).astype(
            np.float32)
        feed(f"k{m},{tmax},{p}",
             lambda: spearman_corr(m, tmax, mask, ranked))
        # the kernel must not modify its inputs
        h.update(mask.tobytes())
        h.update(ranked.tobytes())
        # public path
        feed(f"p{m},{tmax},{p}",
             lambda: RainfallClimateNetwork.spearman_corr(
                 None, mask.astype(bool), data))
        # smaller declared sizes than the arrays
        if m > 1 and tmax > 1:
            feed(f"s{m},{tmax},{p}",
                 lambda: spearman_corr(m - 1, tmax, mask, ranked))

mask = np.ones((3, 4), dtype=np.int8)
ranked = np.ones((3, 4), dtype=np.float32)
feed("neg_tmax", lambda: spearman_corr(3, -1, mask, ranked))
feed("neg_m", lambda: spearman_corr(-2, 4, mask, ranked))
feed("neg_both", lambda: spearman_corr(-2, -4, mask, ranked))
feed("zero_tmax", lambda: spearman_corr(3, 0, mask, ranked))
feed("zero_m", lambda: spearman_corr(0, 4, mask, ranked))
feed("none_mask", lambda: spearman_corr(3, 4, None, ranked))
feed("none_ranked", lambda: spearman_corr(3, 4, mask, None))
feed("bad_dtype", lambda: spearman_corr(3, 4, mask, ranked.astype(float)))
feed("bad_mask", lambda: spearman_corr(3, 4, mask.astype(bool), ranked))
feed("fortran", lambda: spearman_corr(
    3, 4, np.asfortranarray(mask), ranked))
feed("ndim", lambda: spearman_corr(3, 4, mask[0], ranked))
feed("str_m", lambda: spearman_corr("a", 4, mask, ranked))
feed("big_m", lambda: spearman_corr(2**40, 4, mask, ranked))
feed("big_t", lambda: spearman_corr(3, 2**40, mask, ranked))
feed("shape_mismatch", lambda: RainfallClimateNetwork.spearman_corr(
    None, np.ones((3, 5), dtype=bool), np.ones((3, 4))))
print(h.hexdigest())
