"""Digest of the lagged cross-correlation kernels of funcnet (value/lag at the
absolute maximum and the full lag functions) over a spread of inputs.  Run as
PYTHONPATH=<worktree>/src /venv/bin/python equiv.py"""
import hashlib

import numpy as np

from pyunicorn.core._ext.types import FIELD
from pyunicorn.funcnet import CouplingAnalysis
from pyunicorn.funcnet._ext.numerics import (
    _cross_correlation_max, _cross_correlation_all)

H = hashlib.sha256()


def feed(tag, fn):
    H.update(tag.encode())
    try:
        res = fn()
    except Exception as exc:  # pylint: disable=broad-except
        H.update(("EXC:" + type(exc).__name__).encode())
        return
    if not isinstance(res, tuple):
        res = (res,)
    for part in res:
        part = np.asarray(part)
        H.update(str(part.dtype).encode())
        H.update(repr(part.shape).encode())
        H.update(np.ascontiguousarray(part).tobytes())


rng = np.random.RandomState(4711)
shapes = [(1, 1), (5, 1), (2, 2), (6, 2), (30, 3), (100, 4), (64, 7),
          (250, 5), (40, 12), (8, 10)]
for idx, (T, N) in enumerate(shapes):
    data = rng.randn(T, N)
    if idx % 2:
        # lagged coupling, ties in the lag functions and constant columns
        for t in range(2, T):
            data[t, 1:] += 0.7 * data[t - 2, :-1]
        data[:, -1] = 3.0
    if idx == 8:
        # two identical series and an anti-correlated one
        data[:, 1] = data[:, 0]
        data[:, 2] = -data[:, 0]
    ca = CouplingAnalysis(data, silence_level=3)
    for tau_max in (0, 1, 2, 5, T - 1, T, T + 1):
        feed(f"max{idx}-{tau_max}", lambda: ca.cross_correlation(
            tau_max=tau_max, lag_mode='max'))
        feed(f"all{idx}-{tau_max}", lambda: ca.cross_correlation(
            tau_max=tau_max, lag_mode='all'))
        feed(f"sym{idx}-{tau_max}", lambda: ca.symmetrize_by_absmax(
            *ca.cross_correlation(tau_max=tau_max, lag_mode='max')))
    feed(f"def{idx}", ca.cross_correlation)
    # the object's data are left alone
    feed(f"data{idx}", lambda: ca.data)

# 3-d field data are flattened, integer data converted
field = rng.randn(50, 2, 3)
feed("field-max", lambda: CouplingAnalysis(
    field, silence_level=3).cross_correlation(tau_max=3))
feed("field-all", lambda: CouplingAnalysis(
    field, silence_level=3).cross_correlation(tau_max=3, lag_mode='all'))
ints = rng.randint(-4, 5, size=(60, 4))
feed("int-max", lambda: CouplingAnalysis(
    ints, silence_level=3).cross_correlation(tau_max=4))
feed("int-all", lambda: CouplingAnalysis(
    ints, silence_level=3).cross_correlation(tau_max=4, lag_mode='all'))

# paper test data
td = CouplingAnalysis(CouplingAnalysis.test_data(), silence_level=3)
for tau_max in (0, 2, 5, 10):
    feed(f"td-max{tau_max}", lambda: td.cross_correlation(tau_max=tau_max))
    feed(f"td-all{tau_max}", lambda: td.cross_correlation(
        tau_max=tau_max, lag_mode='all'))

# error behaviour
ce = CouplingAnalysis(rng.randn(20, 3), silence_level=3)
feed("neg", lambda: ce.cross_correlation(tau_max=-1))
feed("mode", lambda: ce.cross_correlation(tau_max=1, lag_mode='sum'))
feed("float", lambda: ce.cross_correlation(tau_max=1.0))
nan = rng.randn(20, 3)
nan[4, 1] = np.nan
feed("nan", lambda: CouplingAnalysis(
    nan, silence_level=3).cross_correlation(tau_max=1))

# the kernels as the library calls them, on arrays that are not standardised
for idx, (L, N, R) in enumerate([(1, 1, 1), (1, 3, 4), (3, 2, 5), (4, 5, 9),
                                 (6, 4, 1), (2, 3, 0), (3, 1, 0)]):
    arr = (rng.randn(L, N, R) * 3).astype(FIELD)
    if idx == 3:
        # exact ties of |cross correlation| between lags, with both signs
        arr[1] = arr[0]
        arr[2] = -arr[0]
    feed(f"kmax{idx}", lambda: _cross_correlation_max(arr, N, L - 1, R))
    feed(f"kall{idx}", lambda: _cross_correlation_all(arr, N, L - 1, R))
    feed(f"karr{idx}", lambda: arr)
feed("knone-max", lambda: _cross_correlation_max(None, 1, 0, 1))
feed("knone-all", lambda: _cross_correlation_all(None, 1, 0, 1))
feed("kf64-max", lambda: _cross_correlation_max(np.zeros((1, 1, 1)), 1, 0, 1))
feed("kf64-all", lambda: _cross_correlation_all(np.zeros((1, 1, 1)), 1, 0, 1))

print(H.hexdigest())
