"""Behavioural digest of the resistive-network mechanism (property C18).

Run as:  PYTHONPATH=<worktree>/src /venv/bin/python equiv.py
Prints one sha256 digest; it must be identical on the pristine and on the
refactored tree.
"""
import contextlib
import hashlib
import io
import warnings

import numpy as np

from pyunicorn.core.resistive_network import ResNetwork
from pyunicorn.core._ext.numerics import (
    _vertex_current_flow_betweenness, _edge_current_flow_betweenness)

warnings.simplefilter("ignore")
H = hashlib.sha256()


def put(tag, val):
    """feed a tagged value into the digest, full precision"""
    H.update(tag.encode())
    if isinstance(val, np.ndarray):
        H.update(str(val.dtype).encode())
        H.update(repr(val.shape).encode())
        H.update(repr(val.flags.c_contiguous).encode())
        H.update(repr(val.flags.owndata).encode())
        if val.dtype == object:
            H.update(repr(val.tolist()).encode())
        else:
            H.update(np.ascontiguousarray(val).tobytes())
    else:
        H.update(type(val).__name__.encode())
        H.update(repr(val).encode())


def attempt(tag, fun, *args, **kwargs):
    """call fun, record result or exception type and message, and stdout"""
    out = io.StringIO()
    try:
        with contextlib.redirect_stdout(out):
            res = fun(*args, **kwargs)
        put(tag, res)
    except Exception as exc:  # pylint: disable=broad-except
        put(tag + ":EXC", type(exc).__name__ + ":" + str(exc))
    put(tag + ":out", out.getvalue())


def state(tag, net):
    """record the object state the mechanism maintains"""
    put(tag + ".flag", net.flagComplex)
    put(tag + ".res", np.asarray(net.resistances))
    for name in ("sparse_Adm", "sparse_R"):
        mat = getattr(net, name)
        if mat is None:
            put(tag + "." + name, None)
        else:
            put(tag + "." + name + ".fmt", mat.format)
            put(tag + "." + name + ".arr", mat.toarray())
            put(tag + "." + name + ".nnz", int(mat.nnz))
    er = net._effective_resistances  # pylint: disable=protected-access
    put(tag + ".er", er)
    put(tag + ".admg", (net.adm_graph.vcount(), net.adm_graph.ecount(),
                        net.adm_graph.is_directed(),
                        net.adm_graph.get_edgelist()))
    put(tag + ".graph", (net.graph.vcount(), net.graph.ecount()))


def random_network(rng, n, p, complex_res=False, integer=False):
    """connected random graph: a random spanning tree plus extra links"""
    adj = np.zeros((n, n), dtype="int8")
    perm = rng.permutation(n)
    for k in range(1, n):
        a, b = perm[k], perm[rng.integers(0, k)]
        adj[a, b] = adj[b, a] = 1
    extra = np.triu(rng.random((n, n)) < p, 1)
    adj[extra | extra.T] = 1
    np.fill_diagonal(adj, 0)
    if integer:
        vals = rng.integers(1, 12, size=(n, n))
    else:
        vals = rng.uniform(0.2, 9.0, size=(n, n))
    vals = np.triu(vals, 1)
    vals = vals + vals.T
    res = vals * adj
    if complex_res:
        im = np.triu(rng.uniform(0.1, 5.0, size=(n, n)), 1)
        res = res + 1j * ((im + im.T) * adj)
    return adj, res


def full_report(tag, net):
    n = net.N
    state(tag + ".s0", net)
    attempt(tag + ".adm", net.get_admittance)
    attempt(tag + ".lap", net.admittance_lapacian)
    attempt(tag + ".R", net.get_R)
    attempt(tag + ".ad", net.admittive_degree)
    attempt(tag + ".anad", net.average_neighbors_admittive_degree)
    attempt(tag + ".lac", net.local_admittive_clustering)
    attempt(tag + ".gac", net.global_admittive_clustering)
    attempt(tag + ".str", net.__str__)
    for a in range(n):
        for b in range(n):
            attempt(f"{tag}.er{a},{b}", net.effective_resistance, a, b)
    # negative and out-of-range indices, numpy integer indices
    attempt(tag + ".er-1", net.effective_resistance, -1, 0)
    attempt(tag + ".er-1-1", net.effective_resistance, -1, n - 1)
    attempt(tag + ".erN", net.effective_resistance, 0, n)
    attempt(tag + ".erNN", net.effective_resistance, n, n)
    attempt(tag + ".ernp", net.effective_resistance, np.int64(0),
            np.int32(n - 1))
    attempt(tag + ".erf", net.effective_resistance, 0.0, 1.0)
    attempt(tag + ".ers", net.effective_resistance, "a", "b")
    # diameter before the average (prints), then after (silent)
    attempt(tag + ".diam0", net.diameter_effective_resistance)
    state(tag + ".s1", net)
    attempt(tag + ".avg", net.average_effective_resistance)
    state(tag + ".s2", net)
    attempt(tag + ".diam1", net.diameter_effective_resistance)
    for a in list(range(n)) + [-1, n, n + 3]:
        attempt(f"{tag}.ercc{a}", net.effective_resistance_closeness_centrality,
                a)
    if not net.flagComplex:
        for i in list(range(n)) + [-1, n]:
            attempt(f"{tag}.vcfb{i}", net.vertex_current_flow_betweenness, i)
        attempt(tag + ".ecfb", net.edge_current_flow_betweenness)
    else:
        attempt(tag + ".vcfbC", net.vertex_current_flow_betweenness, 0)
        attempt(tag + ".ecfbC", net.edge_current_flow_betweenness)
    state(tag + ".s3", net)


def main():
    rng = np.random.default_rng(20240518)

    # the documented test networks
    full_report("small", ResNetwork.SmallTestNetwork())
    full_report("smallC", ResNetwork.SmallComplexNetwork())

    # random networks, real / integer / complex, with update sequences
    cases = [(2, 0.0, False, False), (3, 0.5, False, True),
             (4, 0.3, True, False), (6, 0.4, False, False),
             (7, 0.2, False, True), (9, 0.3, True, False),
             (12, 0.25, False, False), (17, 0.15, False, False)]
    for idx, (n, p, cplx, integer) in enumerate(cases):
        adj, res = random_network(rng, n, p, cplx, integer)
        net = ResNetwork(res, adjacency=adj, silence_level=2)
        tag = f"rnd{idx}"
        full_report(tag + ".a", net)
        # scale all resistances
        attempt(tag + ".upd1", net.update_resistances, res * 3.5)
        full_report(tag + ".b", net)
        # unit resistances given as nested list (non-ndarray path)
        attempt(tag + ".upd2", net.update_resistances, adj.tolist())
        full_report(tag + ".c", net)
        # switch real <-> complex
        if cplx:
            new = np.abs(res)
        else:
            new = res * (1 + 0.5j)
        attempt(tag + ".upd3", net.update_resistances, new)
        full_report(tag + ".d", net)
        # only the admittance / only R refreshed by hand
        net.resistances = np.asarray(res) * 2
        attempt(tag + ".ua", net.update_admittance)
        state(tag + ".ua.s", net)
        attempt(tag + ".ur", net.update_R)
        state(tag + ".ur.s", net)
        net.flagComplex = not net.flagComplex
        attempt(tag + ".ua2", net.update_admittance)
        state(tag + ".ua2.s", net)
        attempt(tag + ".ur2", net.update_R)
        full_report(tag + ".e", net)

    # error paths of the update chain: state after a failure matters too
    adj, res = random_network(rng, 6, 0.4)
    net = ResNetwork(res, adjacency=adj)
    net.average_effective_resistance()
    attempt("err.small", net.update_resistances, res[:3, :3])
    state("err.small.s", net)
    attempt("err.small.er", net.effective_resistance, 0, 5)
    attempt("err.small.avg", net.average_effective_resistance)
    state("err.small.s2", net)
    attempt("err.small.diam", net.diameter_effective_resistance)
    attempt("err.1d", net.update_resistances, [1.0, 2.0, 3.0])
    state("err.1d.s", net)
    attempt("err.str", net.update_resistances, "abc")
    state("err.str.s", net)
    attempt("err.none", net.update_resistances, None)
    state("err.none.s", net)
    attempt("err.obj", net.update_resistances,
            np.array(res, dtype=object))
    state("err.obj.s", net)
    with np.errstate(divide="raise"):
        zero = res.copy()
        zero[np.nonzero(adj)[0][-1], np.nonzero(adj)[1][-1]] = 0.0
        attempt("err.div", net.update_resistances, zero)
    state("err.div.s", net)
    attempt("err.zero", net.update_resistances, np.zeros_like(res))
    state("err.zero.s", net)
    attempt("err.zero.lap", net.admittance_lapacian)
    attempt("err.nan", net.update_resistances, res * np.nan)
    state("err.nan.s", net)
    attempt("err.ok", net.update_resistances, res)
    full_report("err.ok.rep", net)

    # adjacency changed behind the back of the resistive part
    adj, res = random_network(rng, 5, 0.5)
    net = ResNetwork(res, adjacency=adj)
    bigger = np.ones((7, 7), dtype="int8") - np.eye(7, dtype="int8")
    net.adjacency = bigger
    attempt("stale.vcfb", net.vertex_current_flow_betweenness, 6)
    attempt("stale.vcfb0", net.vertex_current_flow_betweenness, 0)
    attempt("stale.ecfb", net.edge_current_flow_betweenness)
    attempt("stale.avg", net.average_effective_resistance)
    state("stale.s", net)
    attempt("stale.ercc", net.effective_resistance_closeness_centrality, 1)
    attempt("stale.lap", net.admittance_lapacian)
    attempt("stale.upd", net.update_resistances, bigger * 2.0)
    full_report("stale.rep", net)

    # directed resistive network (non-symmetric admittance)
    adjd = np.array([[0, 1, 0, 1], [0, 0, 1, 0], [1, 0, 0, 1], [0, 1, 0, 0]],
                    dtype="int8")
    resd = adjd * rng.uniform(0.5, 4.0, size=(4, 4))
    attempt("dir", lambda: full_report(
        "dir.rep", ResNetwork(resd, adjacency=adjd, directed=True)))

    # resistances alone define the adjacency; verbose constructor
    adj, res = random_network(rng, 5, 0.4)
    attempt("ctor", lambda: full_report(
        "ctor.rep", ResNetwork(res, silence_level=0)))

    # the compiled kernels directly, incl. degenerate sizes and
    # non-unit currents, asymmetric inputs and pre-existing signs
    for n in (0, 1, 2, 3, 5, 8, 13):
        adm = rng.uniform(-1.0, 2.0, size=(n, n)).astype("float32")
        rmat = rng.normal(size=(n, n)).astype("float32")
        for cur_s, cur_t in ((1.0, 1.0), (0.5, -2.0), (0.0, 0.0)):
            attempt(f"k.e{n}", _edge_current_flow_betweenness, n, cur_s,
                    cur_t, adm, rmat)
            for i in range(-1, n + 1):
                if n == 0:
                    continue
                if not 0 <= i < n:
                    continue
                attempt(f"k.v{n},{i}", _vertex_current_flow_betweenness,
                        n, cur_s, cur_t, adm, rmat, i)
        # a node index matching no node: nothing is skipped, rows of node 0
        # are still valid memory only for 0 <= i < n, so stay in range
        zeros = np.zeros((n, n), dtype="float32")
        attempt(f"k.ez{n}", _edge_current_flow_betweenness, n, 1.0, 1.0,
                zeros, rmat)
    attempt("k.type", _edge_current_flow_betweenness, 3, 1.0, 1.0,
            np.zeros((3, 3)), np.zeros((3, 3)))
    attempt("k.typev", _vertex_current_flow_betweenness, 3, 1.0, 1.0,
            np.zeros((3, 3), dtype="float32"), np.zeros(9, dtype="float32"),
            0)

    print(H.hexdigest())


if __name__ == "__main__":
    main()
