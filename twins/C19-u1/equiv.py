"""
Equivalence driver for property C19 (distributed computation returns the
serial result).

Run as:  PYTHONPATH=<worktree>/src /venv/bin/python equiv.py

It exercises
  * the four distributable measures on a spread of networks in the serial
    branch and in an in-process emulation of the master/worker protocol
    (several worker counts, several verbosity settings),
  * the chunk kernels directly (Cython and Python ones) on many
    (start_i, end_i) cuts including degenerate and invalid ones,
  * the multiprocessing pool split of the n.s.i. shortest-path betweenness,
  * pyunicorn.utils.mpi.submit_call/get_result themselves, both in the
    "no MPI available" mode and with a fake in-process communicator.
All results (raw bytes of arrays, captured output without timing lines,
shipped job descriptions, exception types) go into one sha256 digest.
"""

import os
for _var in ("OMP_NUM_THREADS", "OPENBLAS_NUM_THREADS", "MKL_NUM_THREADS"):
    os.environ[_var] = "1"      # deterministic, single threaded BLAS

import contextlib               # noqa: E402
import hashlib                  # noqa: E402
import io                       # noqa: E402
import pickle                   # noqa: E402
import sys                      # noqa: E402
import warnings                 # noqa: E402

import numpy as np              # noqa: E402

warnings.simplefilter("ignore")

import pyunicorn                                     # noqa: E402,F401
from pyunicorn.core import network as netmod         # noqa: E402
from pyunicorn.core.network import Network           # noqa: E402
from pyunicorn.core._ext import numerics as cy       # noqa: E402
from pyunicorn.core._ext.types import \
    ADJ, MASK, DFIELD, DWEIGHT, NODE, DEGREE         # noqa: E402
from pyunicorn.utils import mpi as real_mpi          # noqa: E402

_H = hashlib.sha256()
_SECTION = hashlib.sha256()


def _enc(obj):
    """Deterministic, full precision description of a result object."""
    if hasattr(obj, "toarray") and hasattr(obj, "shape"):
        return "sp(%s,%s)" % (type(obj).__name__,
                              _enc(np.asarray(obj.toarray())))
    if isinstance(obj, np.ndarray):
        a = np.ascontiguousarray(obj)
        return "nd(%s,%s,%s)" % (a.dtype.str, a.shape,
                                 hashlib.sha256(a.tobytes()).hexdigest())
    if isinstance(obj, (np.floating, float)):
        return "f(%s)" % float(obj).hex()
    if isinstance(obj, (np.integer, int, bool, np.bool_)):
        return "i(%r)" % int(obj)
    if isinstance(obj, (tuple, list)):
        return type(obj).__name__ + "[" + ",".join(map(_enc, obj)) + "]"
    if isinstance(obj, dict):
        return "{" + ",".join(_enc(k) + ":" + _enc(obj[k])
                              for k in sorted(obj, key=repr)) + "}"
    if obj is None or isinstance(obj, str):
        return repr(obj)
    return "obj(%s)" % type(obj).__name__


def record(label, obj):
    s = label + "=" + _enc(obj) + "\n"
    if os.environ.get("EQUIV_DEBUG"):
        sys.stderr.write(s)
    _H.update(s.encode())
    _SECTION.update(s.encode())


def end_section(name):
    global _SECTION
    print("section %-28s %s" % (name, _SECTION.hexdigest()[:16]))
    _SECTION = hashlib.sha256()


def clean_output(text):
    """Drop the wall-clock lines, keep every other printed line."""
    return "\n".join(ln for ln in text.splitlines()
                     if not ln.startswith("...took"))


def guarded(label, fn, *args, **kwargs):
    """Run fn, record result or exception type, and the captured output."""
    keep_out = kwargs.pop("_keep_out", True)
    out, err = io.StringIO(), io.StringIO()
    res = None
    try:
        with contextlib.redirect_stdout(out), contextlib.redirect_stderr(err):
            res = fn(*args, **kwargs)
        record(label, res)
    except BaseException as exc:  # SystemExit is part of the behaviour
        if isinstance(exc, KeyboardInterrupt):
            raise
        record(label + "!exc", type(exc).__name__)
    if keep_out:
        record(label + ".out", clean_output(out.getvalue()))
    record(label + ".err_nonempty", bool(err.getvalue()))
    return res


# ---------------------------------------------------------------------------
#  networks
# ---------------------------------------------------------------------------

def random_adjacency(rng, n, p, n_isolated=0, blocks=1):
    A = np.zeros((n, n), dtype=int)
    m = n - n_isolated
    bounds = np.linspace(0, m, blocks + 1).astype(int)
    for b in range(blocks):
        lo, hi = bounds[b], bounds[b + 1]
        size = hi - lo
        sub = (rng.random((size, size)) < p).astype(int)
        sub = np.triu(sub, 1)
        # make every block connected by a path, plus random chords
        for i in range(size - 1):
            sub[i, i + 1] = 1
        A[lo:hi, lo:hi] = sub + sub.T
    perm = rng.permutation(n)
    return A[np.ix_(perm, perm)]


def network_specs():
    rng = np.random.default_rng(20190719)
    specs = [("small", None, None)]
    for name, n, p, iso, blocks in [
            ("er12", 12, 0.30, 0, 1),
            ("er25", 25, 0.15, 2, 2),
            ("er40", 40, 0.10, 1, 1),
            ("er61", 61, 0.06, 3, 3),
            ("er130", 130, 0.03, 0, 1)]:
        A = random_adjacency(rng, n, p, iso, blocks)
        w = rng.uniform(0.2, 3.0, size=n)
        specs.append((name, A, w))
    return specs


def build(spec, silence_level):
    name, A, w = spec
    if A is None:
        net = Network.SmallTestNetwork()
        net.silence_level = silence_level
        return net
    return Network(adjacency=A.copy(), directed=False,
                   node_weights=w.copy(), silence_level=silence_level)


# ---------------------------------------------------------------------------
#  in-process stand-in for pyunicorn.utils.mpi
# ---------------------------------------------------------------------------

def describe_args(args):
    return [_enc(a) for a in args]


class StubMPI:
    """Master/worker protocol emulated in-process.

    submit_call pickles the job (as a real send would), get_result runs the
    named worker function on the shipped arguments and pickles the answer
    back.  Every shipped job is logged so that chunk boundaries, ids and time
    estimates enter the digest.
    """

    def __init__(self, size):
        self.available = True
        self.size = size
        self.pending = {}
        self.log = []

    def submit_call(self, name_to_call, args=(), kwargs={},
                    module="__main__", time_est=1, id=None, slave=None):
        if id in self.pending:
            raise KeyError("duplicate id")
        self.log.append(("submit", name_to_call, module, _enc(id),
                         _enc(time_est), describe_args(args),
                         _enc(dict(kwargs)), _enc(slave)))
        self.pending[id] = pickle.dumps(
            (name_to_call, args, kwargs, module))
        return id

    def get_result(self, id):
        name_to_call, args, kwargs, module = pickle.loads(
            self.pending.pop(id))
        fn = eval(name_to_call, sys.modules[module].__dict__)
        self.log.append(("get", _enc(id)))
        return pickle.loads(pickle.dumps(fn(*args, **kwargs)))


MEASURES = [
    ("newman", lambda net: net.newman_betweenness()),
    ("nsi_newman", lambda net: net.nsi_newman_betweenness()),
    ("nsi_newman_ends",
     lambda net: net.nsi_newman_betweenness(add_local_ends=True)),
    ("nsi_arenas", lambda net: net.nsi_arenas_betweenness()),
    ("nsi_arenas_incl",
     lambda net: net.nsi_arenas_betweenness(exclude_neighbors=False)),
    ("nsi_arenas_twin",
     lambda net: net.nsi_arenas_betweenness(stopping_mode="twinness")),
    ("nsi_betw", lambda net: net.nsi_betweenness()),
]


def run_measures(tag, spec, silence_level, mpi_obj):
    saved = netmod.mpi
    netmod.mpi = mpi_obj
    try:
        for mname, fn in MEASURES:
            if spec[0] == "er130" and mname in (
                    "nsi_arenas_incl", "nsi_arenas_twin", "nsi_newman_ends"):
                continue
            net = build(spec, silence_level)
            label = "%s/%s/%s/s%d" % (tag, spec[0], mname, silence_level)
            guarded(label, fn, net)
            # second call on the same object (caches, repeated job ids)
            if spec[0] in ("small", "er12"):
                guarded(label + "/again", fn, net)
            if isinstance(mpi_obj, StubMPI):
                record(label + ".jobs", mpi_obj.log)
                record(label + ".pending", sorted(map(repr, mpi_obj.pending)))
                mpi_obj.log = []
    finally:
        netmod.mpi = saved


def section_measures(specs):
    for spec in specs:
        for silence in (0, 1, 2):
            if spec[0] in ("er61", "er130") and silence == 1:
                continue
            run_measures("serial", spec, silence, real_mpi)
    end_section("measures-serial")
    for spec in specs:
        sizes = (2, 3, 7) if spec[0] != "er130" else (2, 3)
        for size in sizes:
            for silence in (0, 2):
                if spec[0] == "er130" and silence == 2:
                    continue
                run_measures("stub%d" % size, spec, silence, StubMPI(size))
    end_section("measures-stub-mpi")


# ---------------------------------------------------------------------------
#  chunk kernels called directly
# ---------------------------------------------------------------------------

def kernel_inputs(spec):
    """Connected-component free setup: use the full (possibly disconnected)
    matrix; the kernels do not care."""
    name, A, w = spec
    net = build(spec, 2)
    A = np.array(net.adjacency, dtype=ADJ)
    N = net.N
    rng = np.random.default_rng(N)
    V = rng.normal(size=(N, N)).astype(DFIELD)
    V[-1, :] = 0
    V[:, -1] = 0
    w = np.array(net.node_weights, dtype=DWEIGHT)
    nae = (1 - A - np.identity(N)).astype(MASK)
    return net, A, V, N, w, nae


def cuts(N):
    c = [(0, N), (0, 1), (N - 1, N), (0, 0), (N, N), (3, 3)]
    for step in (1, 2, 3, 5, 7, N // 2 + 1):
        for start in range(0, N, step):
            c.append((start, min(start + step, N)))
    return c


def section_kernels(specs):
    for spec in specs[:5]:
        net, A, V, N, w, nae = kernel_inputs(spec)
        tag = "kern/" + spec[0]
        total_n = np.zeros(N)
        total_s = np.zeros(N)
        for (s, e) in cuts(N):
            r1 = guarded("%s/newman/%d-%d" % (tag, s, e),
                         cy._mpi_newman_betweenness,
                         np.ascontiguousarray(A[s:e, :]), V, N, s, e)
            r2 = guarded("%s/nsi_newman/%d-%d" % (tag, s, e),
                         cy._mpi_nsi_newman_betweenness,
                         np.ascontiguousarray(A[s:e, :]), V, N, w,
                         np.ascontiguousarray(nae[s:e, :]), s, e)
            if r1 is not None:
                total_n[s:e] = r1[0]
                total_s[s:e] = r2[0]
        record(tag + "/newman/assembled", total_n)
        record(tag + "/nsi_newman/assembled", total_s)

        # non-contiguous row slices / fortran ordered V
        guarded(tag + "/newman/strided", cy._mpi_newman_betweenness,
                A[0:N:1, :][2:N - 1], np.asfortranarray(V), N, 2, N - 1)
        guarded(tag + "/nsi_newman/strided", cy._mpi_nsi_newman_betweenness,
                A[2:N - 1], np.asfortranarray(V), N, w[::1],
                nae[2:N - 1], 2, N - 1)
        # negative weights and zero weights
        w2 = w.copy()
        w2[::3] *= -1.0
        w2[1::4] = 0.0
        guarded(tag + "/nsi_newman/negw", cy._mpi_nsi_newman_betweenness,
                A, V, N, w2, nae, 0, N)
        # V with special values
        V2 = V.copy()
        V2[1, 2] = np.inf
        V2[2, 0] = np.nan
        V2[0, 1] = -0.0
        guarded(tag + "/newman/special", cy._mpi_newman_betweenness,
                A, V2, N, 0, N)
        guarded(tag + "/nsi_newman/special", cy._mpi_nsi_newman_betweenness,
                A, V2, N, w, nae, 0, N)

        # invalid calls: exception types are part of the behaviour
        bad = [
            ("rev", (A[2:1], V, N, 2, 1)),
            ("neg", (A, V, N, -2, N - 2)),
            ("negboth", (A[:2], V, N, -2, 0)),
            ("past_end", (A[N - 2:], V, N, N - 2, N + 3)),
            ("short_rows", (A[:2], V, N, 0, 4)),
            ("small_V", (A, V[:N - 1, :N - 1], N, 0, N)),
            ("small_V_rows", (A, V[:N - 1, :], N, 0, N)),
            ("small_V_cols", (A, V[:, :N - 1], N, 0, N)),
            ("narrow_A", (A[:, :N - 1], V, N, 0, N)),
            ("big_N", (A, V, N + 1, 0, N)),
            ("zero_N", (A, V, 0, 0, N)),
            ("neg_N", (A, V, -3, 0, N)),
            ("int_A", (A.astype(int), V, N, 0, N)),
            ("f32_V", (A, V.astype(np.float32), N, 0, N)),
            ("list_A", (A.tolist(), V, N, 0, N)),
            ("none_A", (None, V, N, 0, N)),
            ("none_V", (A, None, N, 0, N)),
            ("float_idx", (A, V, N, 0.0, N)),
            ("1d_A", (A[0], V, N, 0, 1)),
        ]
        for bname, (a_, v_, n_, s_, e_) in bad:
            guarded("%s/newman/bad/%s" % (tag, bname),
                    cy._mpi_newman_betweenness, a_, v_, n_, s_, e_)
            if a_ is None or not isinstance(a_, np.ndarray) or a_.ndim != 2:
                nae_ = nae
            else:
                nae_ = np.ascontiguousarray(
                    nae[int(max(s_, 0)):int(max(s_, 0)) + a_.shape[0], :])
            guarded("%s/nsi_newman/bad/%s" % (tag, bname),
                    cy._mpi_nsi_newman_betweenness, a_, v_, n_, w, nae_,
                    s_, e_)
        guarded(tag + "/nsi_newman/bad/short_w",
                cy._mpi_nsi_newman_betweenness, A, V, N, w[:N - 1], nae, 0, N)
        guarded(tag + "/nsi_newman/bad/short_mask",
                cy._mpi_nsi_newman_betweenness, A, V, N, w, nae[:N - 1],
                0, N)
        guarded(tag + "/nsi_newman/bad/narrow_mask",
                cy._mpi_nsi_newman_betweenness, A, V, N, w, nae[:, :N - 1],
                0, N)
        guarded(tag + "/nsi_newman/bad/none_w",
                cy._mpi_nsi_newman_betweenness, A, V, N, None, nae, 0, N)
        guarded(tag + "/nsi_newman/bad/none_mask",
                cy._mpi_nsi_newman_betweenness, A, V, N, w, None, 0, N)
        guarded(tag + "/nsi_newman/bad/f32_w",
                cy._mpi_nsi_newman_betweenness, A, V, N,
                w.astype(np.float32), nae, 0, N)
    end_section("cython-chunk-kernels")

    # Python chunk kernel of the n.s.i. Arenas betweenness
    for spec in (specs[0], specs[1], specs[3]):
        name, A, w = spec
        net = build(spec, 2)
        if not net.graph.is_connected():
            # take the giant component so that P is well defined
            comp = net.graph.connected_components().giant()
            idx = sorted(net.graph.connected_components()[
                int(np.argmax(net.graph.connected_components().sizes()))])
            A = np.array(net.adjacency)[np.ix_(idx, idx)]
            w = np.array(net.node_weights)[idx]
            del comp
        else:
            A = np.array(net.adjacency)
            w = np.array(net.node_weights, dtype=float)
        sub = Network(adjacency=A, directed=False, node_weights=w,
                      silence_level=2)
        N = sub.N
        Aplus = (A + np.identity(N)).astype(int)
        twinness = sub.nsi_twinness()
        sp_P = (sub.sp_nsi_diag_k_inv() * sub.sp_Aplus()
                * sub.sp_diag_w()).todok()
        P_before = sp_P.copy()
        tag = "kern/arenas/" + name
        for mode in ("neighbors", "twinness"):
            for excl in (True, False):
                acc = np.zeros(N)
                for (s, e) in [(0, N), (0, 1), (N - 1, N), (2, 2), (3, 2)] + \
                        [(k, min(k + 4, N)) for k in range(0, N, 4)]:
                    tw = twinness[s:e, :] if mode == "twinness" else None
                    res = guarded(
                        "%s/%s/%s/%d-%d" % (tag, mode, excl, s, e),
                        Network._mpi_nsi_arenas_betweenness,
                        N, sp_P, Aplus[s:e, :], w, w[s:e], s, e, excl,
                        mode, tw)
                    if res is not None and res[1] is not None \
                            and (e - s) == 4:
                        acc += res[1][0]
                record("%s/%s/%s/acc" % (tag, mode, excl), acc)
        # the shipped P matrix must not be modified by the kernel
        record(tag + "/P_unchanged",
               bool((abs(P_before - sp_P)).sum() == 0))
        record(tag + "/P", sp_P)
        # invalid calls
        guarded(tag + "/bad/mode", Network._mpi_nsi_arenas_betweenness,
                N, sp_P, Aplus, w, w, 0, N, True, "other", None)
        guarded(tag + "/bad/twin_none", Network._mpi_nsi_arenas_betweenness,
                N, sp_P, Aplus, w, w, 0, N, True, "twinness", None)
        guarded(tag + "/bad/short_rows", Network._mpi_nsi_arenas_betweenness,
                N, sp_P, Aplus[:2], w, w, 0, N, True, "neighbors", None)
        guarded(tag + "/bad/short_w", Network._mpi_nsi_arenas_betweenness,
                N, sp_P, Aplus, w, w[:2], 0, N, True, "neighbors", None)
        guarded(tag + "/bad/wrong_N", Network._mpi_nsi_arenas_betweenness,
                N + 1, sp_P, Aplus, w, w, 0, N, True, "neighbors", None)
        # a matrix whose absorbing version is singular -> RuntimeError path
        Z = Aplus.copy()
        Z[:] = 0
        guarded(tag + "/bad/no_absorption",
                Network._mpi_nsi_arenas_betweenness,
                N, sp_P, Z, w, w, 0, N, True, "neighbors", None)
    end_section("python-chunk-kernel")


# ---------------------------------------------------------------------------
#  multiprocessing pool split of the shortest-path n.s.i. betweenness
# ---------------------------------------------------------------------------

def section_pool(specs):
    for spec in specs[:4]:
        net = build(spec, 2)
        N = net.N
        k = np.array(net.outdegree(), dtype=DEGREE)
        w = np.array(net.node_weights, dtype=DWEIGHT)
        links = np.array(netmod.nz_coords(net.sp_A))
        flat = np.ascontiguousarray(links[:, 1]).astype(NODE)
        src = np.ones(N, dtype=MASK)
        tag = "pool/" + spec[0]
        full = guarded(tag + "/kernel/all", cy._nsi_betweenness, N, w, k,
                       flat, src, np.arange(N, dtype=NODE))
        for n_workers in (1, 2, 3, 5, N, N + 3):
            batches = np.array_split(np.arange(N, dtype=NODE), n_workers)
            parts = [cy._nsi_betweenness(N, w, k, flat, src, b)
                     for b in batches]
            record("%s/kernel/split%d" % (tag, n_workers),
                   np.sum(parts, axis=0))
        del full
        for nsi in (True, False):
            guarded("%s/serial/nsi%d" % (tag, nsi),
                    lambda: build(spec, 2).nsi_betweenness(nsi=nsi))
            guarded("%s/subset/nsi%d" % (tag, nsi),
                    lambda: build(spec, 2).nsi_betweenness(
                        nsi=nsi, sources=[0, 2, 3], targets=[1, 2, N - 1]))
    # one real pool run (spawn context)
    for spec in (specs[0], specs[2]):
        guarded("pool/real/" + spec[0],
                lambda: build(spec, 2).nsi_betweenness(parallelize=True))
        guarded("pool/real/subset/" + spec[0],
                lambda: build(spec, 2).nsi_betweenness(
                    parallelize=True, targets=[0, 1, 2, 4]))
    end_section("pool-split")


# ---------------------------------------------------------------------------
#  pyunicorn.utils.mpi itself
# ---------------------------------------------------------------------------

def mpi_state():
    m = real_mpi
    st = {
        "available": bool(m.available), "size": int(m.size),
        "queue": [repr(q) for q in m.queue],
        "assigned": {repr(k): int(v) for k, v in m.assigned.items()},
        "slave_queue": [[repr(q) for q in sq] for sq in m.slave_queue],
        "total_time_est": np.array(m.total_time_est, dtype=float),
        "n_processed": np.array(m.n_processed),
        "stats": [(repr(s["id"]), int(s["rank"]), int(s["n_processed"]))
                  for s in m.stats],
    }
    if hasattr(m, "results"):
        st["results_keys"] = sorted(repr(k) for k in m.results)
    return st


def double_it(x, offset=0):
    return 2 * x + offset


def failing(x):
    raise ArithmeticError("boom %r" % (x,))


class FakeComm:
    """In-process communicator: one FIFO per worker; recv runs the job."""

    def __init__(self, size):
        self.size = size
        self.rank = 0
        self.fifo = [[] for _ in range(size)]
        self.trace = []
        self.count = [0] * size

    def send(self, msg, dest=None):
        name_to_call, args, kwargs, module, time_est = msg
        self.trace.append(("send", int(dest), name_to_call, module,
                           _enc(time_est), describe_args(args),
                           _enc(dict(kwargs))))
        self.fifo[dest].append(pickle.dumps(msg))

    def recv(self, source=None):
        name_to_call, args, kwargs, module, time_est = pickle.loads(
            self.fifo[source].pop(0))
        self.trace.append(("recv", int(source), name_to_call))
        fn = eval(name_to_call, sys.modules[module].__dict__)
        result = fn(*args, **kwargs)
        self.count[source] += 1
        stats = {"id": None, "rank": source, "this_time": 1.0,
                 "time_over_est": 1.0, "n_processed": self.count[source],
                 "total_time": float(self.count[source])}
        return pickle.loads(pickle.dumps((result, stats)))

    def Abort(self):
        self.trace.append(("abort",))


def reset_mpi(size, available, comm=None):
    m = real_mpi
    m.available = available
    m.size = size
    m.n_slaves = size - 1
    m.total_time_est = np.zeros(size)
    m.total_time_est[0] = np.inf
    m.queue[:] = []
    m.assigned.clear()
    m.slave_queue = [[] for _ in range(size)]
    m.n_processed = np.zeros(size).astype("int")
    m.total_time = np.zeros(size)
    m.stats[:] = []
    m.results = {}
    if comm is not None:
        m.comm = comm
    elif hasattr(m, "comm"):
        del m.comm


def section_mpi_module(specs):
    main_mod = sys.modules["__main__"]
    main_mod.double_it = double_it
    main_mod.failing = failing
    m = real_mpi
    record("mpi/initial", mpi_state())

    # --- mode 1: no MPI available, calls run on the master ----------------
    for verbose in (False, True):
        reset_mpi(1, False)
        m._verbose = verbose
        tag = "mpi/local/v%d" % verbose
        guarded(tag + "/submit0", m.submit_call, "double_it", (3,), id=0)
        guarded(tag + "/submit1", m.submit_call, "double_it", (4,),
                {"offset": 5}, id="a", time_est=2.5)
        guarded(tag + "/submit_dup", m.submit_call, "double_it", (5,), id=0)
        guarded(tag + "/submit_slave", m.submit_call, "double_it", (6,),
                id=7, slave=3)
        np.random.seed(11)
        rid = guarded(tag + "/submit_noid", m.submit_call, "double_it",
                      (np.arange(3.0),))
        guarded(tag + "/submit_mod", m.submit_call, "linalg.norm",
                (np.arange(4.0),), module="numpy", id="norm")
        guarded(tag + "/submit_unknown", m.submit_call, "no_such_fn", (1,),
                id="u")
        guarded(tag + "/submit_badmod", m.submit_call, "double_it", (1,),
                module="no.such.module", id="bm")
        guarded(tag + "/submit_fail", m.submit_call, "failing", (1,),
                id="f")
        record(tag + "/state1", mpi_state())
        guarded(tag + "/get_a", m.get_result, "a")
        guarded(tag + "/get_a_again", m.get_result, "a")
        guarded(tag + "/get_0", m.get_result, 0)
        guarded(tag + "/get_next", m.get_next_result)
        guarded(tag + "/get_rid", m.get_result, rid)
        guarded(tag + "/get_next2", m.get_next_result)
        guarded(tag + "/get_next3", m.get_next_result)
        guarded(tag + "/get_missing", m.get_result, "zzz")
        record(tag + "/state2", mpi_state())
        # the library's own jobs through the real submit_call/get_result
        spec = specs[1]
        net, A, V, N, w, nae = kernel_inputs(spec)
        for idx, (s, e) in enumerate([(0, 5), (5, 9), (9, N)]):
            guarded("%s/lib/submit%d" % (tag, idx), m.submit_call,
                    "core._ext.numerics._mpi_newman_betweenness",
                    (np.ascontiguousarray(A[s:e]), V, N, s, e),
                    module="pyunicorn", id=idx, time_est=A[s:e].sum())
        for idx in (0, 1, 2):
            guarded("%s/lib/get%d" % (tag, idx), m.get_result, idx)
        record(tag + "/state3", mpi_state())
        # info() prints wall-clock statistics here: only its success counts
        guarded(tag + "/info", m.info, _keep_out=False)
        guarded(tag + "/terminate", m.terminate)
        record(tag + "/state4", mpi_state())
    m._verbose = False
    end_section("mpi-module-local")

    # --- mode 2: fake communicator, FIFO per worker -----------------------
    for size in (2, 3, 5):
        for verbose in (False, True):
            comm = FakeComm(size)
            reset_mpi(size, True, comm)
            m._verbose = verbose
            tag = "mpi/fake%d/v%d" % (size, verbose)
            for n in range(7):
                guarded("%s/submit%d" % (tag, n), m.submit_call, "double_it",
                        (n,), {"offset": n * n}, id=n, time_est=1 + (n % 3))
            guarded(tag + "/submit_dup", m.submit_call, "double_it", (1,),
                    id=3)
            guarded(tag + "/submit_slave1", m.submit_call, "double_it",
                    (100,), id="s1", slave=1)
            guarded(tag + "/submit_slave_oob", m.submit_call, "double_it",
                    (101,), id="s2", slave=size)
            guarded(tag + "/submit_slave0", m.submit_call, "double_it",
                    (102,), id="s3", slave=0)
            record(tag + "/state1", mpi_state())
            # out of order retrieval on one worker -> protocol violation
            guarded(tag + "/get_last_first", m.get_result, "s3")
            guarded(tag + "/get_missing", m.get_result, "nope")
            for n in range(7):
                guarded("%s/get%d" % (tag, n), m.get_result, n)
            guarded(tag + "/get_again", m.get_result, 2)
            guarded(tag + "/next1", m.get_next_result)
            guarded(tag + "/next2", m.get_next_result)
            guarded(tag + "/next3", m.get_next_result)
            guarded(tag + "/next4", m.get_next_result)
            record(tag + "/state2", mpi_state())
            record(tag + "/trace", comm.trace)
            comm.trace = []
            # the four measures through the real master code
            for spec in (specs[0], specs[2], specs[3]):
                for silence in (0, 2):
                    run_measures(tag, spec, silence, m)
                    record(tag + "/" + spec[0] + "/state", mpi_state())
                    record(tag + "/" + spec[0] + "/trace", comm.trace)
                    comm.trace = []
            guarded(tag + "/info", m.info)
            guarded(tag + "/terminate", m.terminate)
            record(tag + "/state_end", mpi_state())
            record(tag + "/trace_end", comm.trace)
    m._verbose = False
    reset_mpi(1, False)
    end_section("mpi-module-fake-comm")

    # run() in single process mode
    main_mod.master = lambda: print("master ran", m.submit_call(
        "double_it", (21,), id="run"), m.get_result("run"))
    guarded("mpi/run/quiet", m.run)
    guarded("mpi/run/verbose", m.run, True)
    del main_mod.master
    guarded("mpi/run/nomaster", m.run)
    m._verbose = False
    reset_mpi(1, False)
    end_section("mpi-module-run")


def main():
    specs = network_specs()
    section_measures(specs)
    section_kernels(specs)
    section_pool(specs)
    section_mpi_module(specs)
    print("DIGEST " + _H.hexdigest())


if __name__ == "__main__":
    main()
