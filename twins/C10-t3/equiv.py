"""Equivalence digest for twin_3: lagged sample-array construction used by
CouplingAnalysis.mutual_information / information_transfer (all estimators,
both lag modes), plus RNG consumption and object state."""
import hashlib
import io
import sys
import numpy as np

from pyunicorn.funcnet import CouplingAnalysis

h = hashlib.sha256()
_real_stdout = sys.stdout
_captured = io.StringIO()
sys.stdout = _captured      # library warnings are hashed, not printed


def feed(obj):
    if isinstance(obj, tuple):
        for o in obj:
            feed(o)
        return
    if obj is None:
        h.update(b"None")
        return
    a = np.ascontiguousarray(obj)
    h.update(str(a.dtype).encode())
    h.update(str(a.shape).encode())
    h.update(a.tobytes())


def attempt(fn):
    try:
        feed(fn())
    except BaseException as e:  # noqa
        h.update(("EXC:" + type(e).__name__).encode())
    # RNG stream position is part of the observable behaviour (knn noise)
    st = np.random.get_state()
    h.update(st[1].tobytes())
    h.update(str(st[2]).encode())


def datasets():
    rng = np.random.RandomState(31337)
    yield CouplingAnalysis.test_data()[:120]
    x = rng.randn(90, 3)
    for t in range(2, 90):
        x[t, 1] += 0.8 * x[t-1, 0]
        x[t, 2] += 0.5 * x[t-2, 1] - 0.4 * x[t-1, 2]
    yield x
    yield rng.randn(40, 2).astype(np.float32)
    yield rng.randint(0, 6, size=(60, 3))          # integer data with ties
    y = rng.randn(50, 3)
    y[:, 2] = 1.5                                   # constant column
    yield y
    yield rng.randn(30, 1)                          # single node
    yield rng.randn(8, 10)                          # N > T
    z = rng.randn(30, 2)
    z[4, 1] = np.nan                                # NaNs in the data
    yield z


np.random.seed(123456)
with np.errstate(all="ignore"):
    for data in datasets():
        ca = CouplingAnalysis(data)
        T = data.shape[0]
        keys0 = sorted(vars(ca))
        d0 = np.array(ca.data, copy=True)
        for tau_max in (0, 1, 3):
            for mode in ("max", "all", "bogus"):
                for est in ("gauss", "binning", "knn", "bogus"):
                    # the knn kernel needs more than knn samples to terminate
                    if est == "knn" and T - tau_max <= 6:
                        continue
                    attempt(lambda: ca.mutual_information(
                        tau_max=tau_max, estimator=est, knn=4, bins=4,
                        lag_mode=mode))
                for est in ("gauss", "knn", "binning"):
                    for cond in ("ity", "mit", "bogus"):
                        for past in (1, 2):
                            if est == "knn" and T - tau_max - past <= 6:
                                continue
                            attempt(lambda: ca.information_transfer(
                                tau_max=tau_max, estimator=est, knn=4,
                                past=past, cond_mode=cond, lag_mode=mode))
        attempt(lambda: ca.mutual_information(tau_max=-1, estimator="gauss"))
        attempt(lambda: ca.information_transfer(tau_max=-1,
                                                estimator="gauss"))
        attempt(lambda: ca.mutual_information(tau_max=data.shape[0] + 2,
                                              estimator="gauss"))
        attempt(lambda: ca.information_transfer(tau_max=data.shape[0],
                                                estimator="gauss", past=3))
        attempt(lambda: ca.mutual_information(estimator="knn", knn=10**6))
        attempt(lambda: ca.information_transfer(estimator="knn", knn=0))
        # object state: data untouched, only `plogp` may have been added
        feed(ca.data)
        h.update(str(np.array_equal(ca.data, d0, equal_nan=True)).encode())
        h.update(repr((keys0, sorted(vars(ca)))).encode())

    # non-ndarray data
    ca = CouplingAnalysis(np.random.randn(20, 2))
    ca.data = ca.data.tolist()
    attempt(lambda: ca.mutual_information(estimator="gauss"))
    attempt(lambda: ca.information_transfer(estimator="gauss"))

sys.stdout = _real_stdout
h.update(_captured.getvalue().encode())
print(h.hexdigest())
