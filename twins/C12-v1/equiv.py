"""Equivalence digest for the compiled distance kernels (property C12)."""
import hashlib
import numpy as np

from pyunicorn.core._ext.numerics import (
    _calculate_angular_distance, _calculate_euclidean_distance)
from pyunicorn.core._ext.types import FIELD
from pyunicorn.core.grid import Grid
from pyunicorn.core.geo_grid import GeoGrid

h = hashlib.sha256()


def feed(tag, obj):
    h.update(tag.encode())
    if isinstance(obj, np.ndarray):
        h.update(str(obj.dtype).encode())
        h.update(str(obj.shape).encode())
        h.update(np.ascontiguousarray(obj).tobytes())
    else:
        h.update(repr(obj).encode())


def attempt(tag, fn):
    try:
        res = fn()
    except Exception as e:  # pylint: disable=broad-except
        feed(tag + ":exc", (type(e).__name__, str(e)))
        return None
    feed(tag, res)
    return res


def ang_raw(cl, sl, co, so, N, shape=None):
    out = np.full(shape if shape else (N, N), 7, dtype=FIELD) \
        if N > 0 or shape else np.zeros((0, 0), dtype=FIELD)
    try:
        _calculate_angular_distance(cl, sl, co, so, out, N)
    finally:
        feed("ang_out", out)
    return out


def euc_raw(x, N_dim, N_nodes, shape=None):
    out = np.full(shape if shape else (max(N_nodes, 0), max(N_nodes, 0)), 7,
                  dtype=FIELD)
    try:
        _calculate_euclidean_distance(x, out, N_dim, N_nodes)
    finally:
        feed("euc_out", out)
    return out


rng = np.random.RandomState(20251212)

# --- raw angular kernel ------------------------------------------------
for N in (0, 1, 2, 5, 17, 64):
    lat = rng.uniform(-90, 90, N)
    lon = rng.uniform(-180, 360, N)
    if N >= 5:
        lat[1], lon[1] = lat[0], lon[0]            # coincident
        lat[2], lon[2] = -lat[0], lon[0] + 180.    # antipodal
        lat[3], lat[4] = 90., -90.                 # poles
    cl = np.cos(lat * np.pi / 180).astype(FIELD)
    sl = np.sin(lat * np.pi / 180).astype(FIELD)
    co = np.cos(lon * np.pi / 180).astype(FIELD)
    so = np.sin(lon * np.pi / 180).astype(FIELD)
    attempt(f"ang{N}", lambda: ang_raw(cl, sl, co, so, N))
    if N >= 2:
        # only a leading sub-block is computed
        attempt(f"angsub{N}", lambda: ang_raw(cl, sl, co, so, N - 1, (N, N)))
        # negative N -> nothing
        attempt(f"angneg{N}", lambda: ang_raw(cl, sl, co, so, -3, (N, N)))
        # N too large for the inputs / for the output -> IndexError
        attempt(f"angbig{N}",
                lambda: ang_raw(cl, sl, co, so, N + 2, (N + 2, N + 2)))
        attempt(f"angbigout{N}",
                lambda: ang_raw(cl, sl, co, so, N, (N - 1, N)))
        attempt(f"angbigout2{N}",
                lambda: ang_raw(cl, sl, co, so, N, (N, N - 1)))
        for short in range(4):
            args = [cl, sl, co, so]
            args[short] = args[short][:N - 1].copy()
            attempt(f"angshort{N}_{short}",
                    lambda: ang_raw(*args, N))

# values that force the clamp, plus non-finite values
vals = np.array([0., -0., 1., -1., 1.5, -1.5, 3., np.nan, np.inf, -np.inf,
                 1e-30, 0.99999994, 1.0000001, 2.**-149], dtype=FIELD)
for rep in range(6):
    N = 14
    arrs = [rng.choice(vals, N).astype(FIELD) for _ in range(4)]
    attempt(f"angclamp{rep}", lambda: ang_raw(*arrs, N))
for rep in range(4):
    N = 23
    arrs = [(rng.standard_normal(N) * 1.2).astype(FIELD) for _ in range(4)]
    attempt(f"angrand{rep}", lambda: ang_raw(*arrs, N))

# wrong dtypes / dims
attempt("angdtype", lambda: ang_raw(np.zeros(3), np.zeros(3), np.zeros(3),
                                    np.zeros(3), 3))
attempt("angnone", lambda: ang_raw(None, np.zeros(3, FIELD),
                                   np.zeros(3, FIELD), np.zeros(3, FIELD), 3))

# --- raw euclidean kernel ----------------------------------------------
for N_dim in (0, 1, 2, 3, 7):
    for N in (0, 1, 2, 6, 33):
        x = (rng.standard_normal((N_dim, N)) * 10 ** rng.uniform(-3, 3))\
            .astype(FIELD)
        if N >= 2 and N_dim:
            x[:, 1] = x[:, 0]
        attempt(f"euc{N_dim}_{N}", lambda: euc_raw(x, N_dim, N))
        if N >= 2 and N_dim >= 2:
            attempt(f"eucsubdim{N_dim}_{N}",
                    lambda: euc_raw(x, N_dim - 1, N))
            attempt(f"eucsubn{N_dim}_{N}",
                    lambda: euc_raw(x, N_dim, N - 1, (N, N)))
            attempt(f"eucbigdim{N_dim}_{N}",
                    lambda: euc_raw(x, N_dim + 1, N))
            attempt(f"eucbign{N_dim}_{N}",
                    lambda: euc_raw(x, N_dim, N + 1))
            attempt(f"eucsmallout{N_dim}_{N}",
                    lambda: euc_raw(x, N_dim, N, (N - 1, N)))
            attempt(f"eucsmallout2{N_dim}_{N}",
                    lambda: euc_raw(x, N_dim, N, (N, N - 1)))
            attempt(f"eucneg{N_dim}_{N}",
                    lambda: euc_raw(x, -1, N))
xs = np.array([[0, np.inf, -np.inf, np.nan, 3e38, -3e38, 1e-30, 2e-45, 1.],
               [1, 1, np.inf, 0, 3e38, 3e38, -1e-30, 0, -0.]], dtype=FIELD)
attempt("eucspecial", lambda: euc_raw(xs, 2, xs.shape[1]))
attempt("eucdtype", lambda: euc_raw(np.zeros((2, 3)), 2, 3))

# --- through the classes -----------------------------------------------
for N in (1, 2, 6, 40):
    lat = rng.uniform(-90, 90, N)
    lon = rng.uniform(-180, 180, N)
    gg = GeoGrid(np.arange(3.), lat, lon, silence_level=2)
    attempt(f"GG.ang{N}", gg.angular_distance)
    attempt(f"GG.dist{N}", gg.distance)
    attempt(f"GG.euc{N}", gg.euclidean_distance)
    for d in (1, 3, 5):
        g = Grid(np.arange(4.), rng.standard_normal((d, N)) * 50,
                 silence_level=2)
        attempt(f"G.euc{N}_{d}", g.euclidean_distance)
        attempt(f"G.dist{N}_{d}", g.distance)
attempt("GG.small", GeoGrid.SmallTestGrid().angular_distance)
attempt("G.small", Grid.SmallTestGrid().euclidean_distance)
lat_g, lon_g = GeoGrid.coord_sequence_from_rect_grid(
    np.linspace(-90, 90, 7), np.linspace(0, 360, 9))
attempt("GG.rect", GeoGrid(np.arange(2.), lat_g, lon_g, 2).angular_distance)

print(h.hexdigest())
