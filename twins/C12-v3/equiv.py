"""Equivalence digest for GeoNetwork cos-lat weights and AWC (C12)."""
import contextlib
import hashlib
import io
import warnings
import numpy as np

from pyunicorn.core.geo_grid import GeoGrid
from pyunicorn.core.geo_network import GeoNetwork

warnings.simplefilter("ignore")
h = hashlib.sha256()


def feed(tag, obj):
    h.update(tag.encode())
    if isinstance(obj, (tuple, list)):
        h.update(type(obj).__name__.encode())
        for k, o in enumerate(obj):
            feed(f"{tag}[{k}]", o)
    elif isinstance(obj, np.ndarray):
        h.update(str(obj.dtype).encode())
        h.update(str(obj.shape).encode())
        h.update(np.ascontiguousarray(obj).tobytes())
    else:
        h.update((type(obj).__name__ + repr(obj)).encode())


def attempt(tag, fn, *args, **kwargs):
    out = io.StringIO()
    try:
        with contextlib.redirect_stdout(out):
            res = fn(*args, **kwargs)
    except Exception as e:  # pylint: disable=broad-except
        feed(tag + ":exc", (type(e).__name__, str(e)))
        res = None
    else:
        feed(tag, res)
    feed(tag + ":stdout", out.getvalue())
    return res


def state(tag, net):
    feed(tag + ".type", net.node_weight_type)
    feed(tag + ".w", net.node_weights)
    feed(tag + ".mean", net.mean_node_weight)
    feed(tag + ".total", net.total_node_weight)
    feed(tag + ".keys", sorted(net.__dict__))


class Eq:
    """Records every comparison made against it."""
    def __init__(self, answers):
        self.answers = list(answers)
        self.log = []

    def __eq__(self, other):
        self.log.append(other)
        return self.answers.pop(0)

    def __hash__(self):
        raise TypeError("unhashable on purpose")

    def __repr__(self):
        return "Eq()"


rng = np.random.RandomState(31212)
weight_types = ["surface", "irrigation", None, "foo", "", "Surface", 0, 1.5,
                b"surface", ("surface",), ["irrigation"], {"surface"},
                np.str_("irrigation"), np.array("surface"),
                np.array(["surface"]), np.array(["surface", "irrigation"]),
                np.array([]), float("nan")]

for N in (2, 3, 6, 25):
    lat = rng.uniform(-90, 90, N)
    lon = rng.uniform(-180, 180, N)
    if N >= 6:
        lat[0], lat[1] = 90., -90.
    grid = GeoGrid(np.arange(3.), lat, lon, 2)
    for directed in (False, True):
        A = (rng.uniform(size=(N, N)) < 0.35).astype(np.int8)
        np.fill_diagonal(A, 0)
        if not directed:
            A = np.maximum(A, A.T)
        for sl in (0, 2):
            for wt in ("surface", "irrigation", None):
                tag = f"net{N}_{int(directed)}_{sl}_{wt}"
                net = attempt(tag + ".init", lambda: GeoNetwork(
                    grid=grid, adjacency=A, directed=directed,
                    node_weight_type=wt, silence_level=sl) and None)
                with contextlib.redirect_stdout(io.StringIO()):
                    net = GeoNetwork(grid=grid, adjacency=A,
                                     directed=directed, node_weight_type=wt,
                                     silence_level=sl)
                state(tag, net)
                attempt(tag + ".awc", net.area_weighted_connectivity)
                attempt(tag + ".inawc", net.inarea_weighted_connectivity)
                attempt(tag + ".outawc", net.outarea_weighted_connectivity)
                attempt(tag + ".nsi_degree", net.nsi_degree)
                if N >= 6:
                    for m in ("area_weighted_connectivity_distribution",
                              "inarea_weighted_connectivity_distribution",
                              "outarea_weighted_connectivity_distribution",
                              "area_weighted_connectivity_cumulative_"
                              "distribution"):
                        attempt(f"{tag}.{m}", getattr(net, m), 4)
                    attempt(tag + ".avg_nb",
                            net.average_neighbor_area_weighted_connectivity)
                    attempt(tag + ".max_nb",
                            net.max_neighbor_area_weighted_connectivity)
        # switching weight types on a living object, incl. odd arguments
        with contextlib.redirect_stdout(io.StringIO()):
            net = GeoNetwork(grid=grid, adjacency=A, directed=directed,
                             node_weight_type="surface", silence_level=1)
        for k, wt in enumerate(weight_types):
            tag = f"switch{N}_{int(directed)}_{k}"
            attempt(tag, net.set_node_weight_type, wt)
            state(tag, net)
            attempt(tag + ".nsi", net.nsi_degree)
            attempt(tag + ".awc", net.area_weighted_connectivity)
        for k, answers in enumerate([(True,), (False, True), (False, False),
                                     (1, 1), (0, "yes"), ([], [0]),
                                     (np.array([True, False]),)]):
            probe = Eq(answers)
            tag = f"probe{N}_{int(directed)}_{k}"
            attempt(tag, net.set_node_weight_type, probe)
            feed(tag + ".log", probe.log)
            feed(tag + ".w", net.node_weights)
        # a network whose adjacency changes afterwards
        attempt(f"mut{N}.before", net.area_weighted_connectivity)
        B = A.T.copy() if directed else A
        with contextlib.redirect_stdout(io.StringIO()):
            net.adjacency = B
        attempt(f"mut{N}.after_in", net.inarea_weighted_connectivity)
        attempt(f"mut{N}.after_out", net.outarea_weighted_connectivity)
        attempt(f"mut{N}.after", net.area_weighted_connectivity)
        net.directed = not net.directed
        attempt(f"mut{N}.flipped", net.area_weighted_connectivity)

small = GeoNetwork.SmallTestNetwork()
attempt("small.awc", small.area_weighted_connectivity)
attempt("small.in", small.inarea_weighted_connectivity)
attempt("small.out", small.outarea_weighted_connectivity)
state("small", small)


# grid whose cos_lat misbehaves
class BadGrid(GeoGrid):
    n = 0

    def cos_lat(self):
        BadGrid.n += 1
        if BadGrid.n % 3 == 0:
            raise RuntimeError(f"cos_lat call {BadGrid.n}")
        return GeoGrid.cos_lat(self)


bg = BadGrid(np.arange(2.), rng.uniform(-90, 90, 5), rng.uniform(0, 360, 5),
             2)
A = (rng.uniform(size=(5, 5)) < 0.5).astype(np.int8)
np.fill_diagonal(A, 0)
with contextlib.redirect_stdout(io.StringIO()):
    bn = GeoNetwork(grid=bg, adjacency=A, directed=True,
                    node_weight_type=None, silence_level=0)
for k in range(7):
    attempt(f"bad.awc{k}", bn.area_weighted_connectivity)
    attempt(f"bad.set{k}", bn.set_node_weight_type,
            ("surface", "irrigation", "x")[k % 3])
    state(f"bad{k}", bn)
feed("bad.n", BadGrid.n)

print(h.hexdigest())
