"""Equivalence digest for the geographical rewiring models (compiled core)
and the cache coherence of the rewired networks."""
import contextlib
import hashlib
import io
import warnings

import numpy as np

warnings.filterwarnings("ignore")

from pyunicorn.core.grid import Grid
from pyunicorn.core.network import Network
from pyunicorn.core.spatial_network import SpatialNetwork
from pyunicorn.core.geo_network import GeoNetwork
from pyunicorn.core._ext.types import ADJ, FIELD, NODE, DEGREE, to_cy
from pyunicorn.core._ext.numerics import (
    _randomly_rewire_geomodel_I, _randomly_rewire_geomodel_II,
    _randomly_rewire_geomodel_III)

OUT = []


def rec(tag, val):
    if isinstance(val, np.ndarray):
        val = (str(val.dtype), val.shape, val.tobytes().hex())
    OUT.append(f"{tag}={val!r}")


MEASURES = ("degree", "nsi_degree", "local_clustering", "closeness",
            "betweenness", "transitivity", "average_path_length")


def snapshot(net):
    res = []
    for m in MEASURES:
        v = np.asarray(getattr(net, m)(), dtype=float).round(12).tolist()
        res.append((m, v))
    res.append((int(net.N), int(net.n_links),
                round(float(net.link_density), 12)))
    res.append((Network.__cache_state__(net), net._mut_A, net._mut_nw,
                net._mut_la))
    return res


def ring(n, k):
    A = np.zeros((n, n), dtype=int)
    for i in range(n):
        for j in range(1, k + 1):
            A[i, (i + j) % n] = A[(i + j) % n, i] = 1
    return A


def make_net(rng, n, kind):
    grid = Grid(time_seq=np.arange(3),
                space_seq=np.vstack([rng.rand(n) * 10, rng.rand(n) * 10]),
                silence_level=2)
    if kind == "ring":
        A = ring(n, 2)
    else:
        A = (rng.rand(n, n) < 0.35).astype(int)
        A = np.triu(A, 1)
        A = A + A.T
    return SpatialNetwork(grid=grid, adjacency=A, silence_level=2)


def high_level():
    rng = np.random.RandomState(3)
    for case, (n, kind, eps, its) in enumerate([
            (12, "ring", 1e6, 5), (12, "ring", 1e6, 0), (15, "rand", 1e6, 20),
            (20, "ring", 4.0, 6), (20, "rand", 50.0, 8), (9, "ring", 1e6, 3)]):
        for model in ("I", "II", "III"):
            net = make_net(rng, n, kind)
            before = snapshot(net)
            D = net.grid.distance()
            np.random.seed(100 + case)
            rewire = getattr(net, "randomly_rewire_geomodel_" + model)
            buf = io.StringIO()
            with contextlib.redirect_stdout(buf):
                rewire(distance_matrix=D, iterations=its, inaccuracy=eps)
            after = snapshot(net)
            fresh = SpatialNetwork(grid=net.grid, adjacency=net.adjacency,
                                   silence_level=2)
            rec(f"hl{case}{model}", (before, after, snapshot(fresh)[:-1],
                                     net.adjacency, buf.getvalue(),
                                     float(np.random.random())))
            # a second rewiring on the same live object
            np.random.seed(7)
            with contextlib.redirect_stdout(io.StringIO()):
                rewire(distance_matrix=D, iterations=min(its, 2),
                       inaccuracy=eps)
            rec(f"hl{case}{model}b", (snapshot(net), net.adjacency))
    gn = GeoNetwork.SmallTestNetwork()
    np.random.seed(1)
    with contextlib.redirect_stdout(io.StringIO()):
        gn.randomly_rewire_geomodel_I(distance_matrix=gn.grid.distance(),
                                      iterations=100, inaccuracy=100)
    rec("gn", (snapshot(gn), gn.adjacency))


def low_level():
    rng = np.random.RandomState(5)
    n = 14
    A0 = ring(n, 2)
    D0 = rng.rand(n, n) * 3
    D0 = D0 + D0.T
    edges0 = np.array([(i, j) for i in range(n) for j in range(i + 1, n)
                       if A0[i, j]])
    deg0 = A0.sum(axis=1)
    funcs = {"I": _randomly_rewire_geomodel_I,
             "II": _randomly_rewire_geomodel_II,
             "III": _randomly_rewire_geomodel_III}
    for name, f in funcs.items():
        for eps in (1e6, 2.5):
            for its in (0, 1, 7):
                A = to_cy(A0.copy(), ADJ)
                D = to_cy(D0.copy(), FIELD)
                edges = to_cy(edges0.copy(), NODE)
                extra = (to_cy(deg0.copy(), DEGREE),) if name == "III" else ()
                np.random.seed(42)
                r = f(its, eps, A, D, len(edges), edges, *extra)
                rec(f"ll{name}{eps}{its}",
                    (r, A, edges, D, float(np.random.random())))
    # error behaviour
    bad = []
    A = to_cy(A0.copy(), ADJ)
    D = to_cy(D0.copy(), FIELD)
    edges = to_cy(edges0.copy(), NODE)
    deg = to_cy(deg0.copy(), DEGREE)
    calls = {
        "E_too_large": lambda f, x: f(3, 1e6, A, D, 10 * len(edges), edges,
                                      *x),
        "A_dtype": lambda f, x: f(3, 1e6, A.astype(float), D, len(edges),
                                  edges, *x),
        "D_dtype": lambda f, x: f(3, 1e6, A, D.astype("float64"), len(edges),
                                  edges, *x),
        "edges_1d": lambda f, x: f(3, 1e6, A, D, len(edges), edges[:, 0], *x),
        "edges_none": lambda f, x: f(3, 1e6, A, D, len(edges), None, *x),
        "its_str": lambda f, x: f("a", 1e6, A, D, len(edges), edges, *x),
        "no_degree": lambda f, x: f(0, 1e6, A, D, len(edges), edges),
        "extra_arg": lambda f, x: f(0, 1e6, A, D, len(edges), edges, deg, 1),
        "small_D": lambda f, x: f(3, 1e6, A, D[:3, :3], len(edges), edges,
                                  *x),
        "short_deg": lambda f, x: f(3, 1e6, A, D, len(edges), edges,
                                    *[d[:2] for d in x]),
    }
    for cname, call in calls.items():
        for name, f in funcs.items():
            np.random.seed(9)
            x = (deg,) if name == "III" else ()
            try:
                r = ("OK", call(f, x))
            except Exception as e:  # pylint: disable=broad-except
                r = ("EXC", type(e).__name__)
            bad.append((cname, name, r, float(np.random.random())))
    rec("bad", bad)
    rec("bad.state", (A, edges))


high_level()
low_level()
blob = "\n".join(OUT).encode()
print(len(OUT), hashlib.sha256(blob).hexdigest())
