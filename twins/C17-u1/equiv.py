"""Equivalence digest for the geographical rewiring kernels (models I-III)."""
import hashlib
import io
import contextlib
import random as pyrandom

import numpy as np

from pyunicorn.core.grid import Grid
from pyunicorn.core.spatial_network import SpatialNetwork
from pyunicorn.core._ext.types import to_cy, ADJ, NODE, FIELD, DEGREE
from pyunicorn.core._ext import numerics as cy

H = hashlib.sha256()


def feed(tag, obj):
    H.update(tag.encode())
    if isinstance(obj, np.ndarray):
        H.update(str(obj.dtype).encode() + str(obj.shape).encode())
        H.update(np.ascontiguousarray(obj).tobytes())
    else:
        H.update(repr(obj).encode())


def random_net(N, p, seed, directed=False):
    rs = np.random.RandomState(seed)
    A = (rs.random_sample((N, N)) < p).astype(np.int8)
    A = np.triu(A, 1)
    if not directed:
        A = A + A.T
    else:
        A = A + np.tril((rs.random_sample((N, N)) < p).astype(np.int8), -1)
    pos = rs.random_sample((2, N)) * 10
    grid = Grid(np.arange(3.0), pos, silence_level=2)
    return SpatialNetwork(grid=grid, adjacency=A, directed=directed,
                          silence_level=2)


def run(tag, fn):
    buf = io.StringIO()
    try:
        with contextlib.redirect_stdout(buf):
            res = fn()
        feed(tag, res)
    except Exception as e:  # pylint: disable=broad-except
        feed(tag, (type(e).__name__, str(e)))
    feed(tag + ":out", buf.getvalue())


def method_case(model, N, p, seed, iters, eps, directed=False, D=None,
                silence=2):
    def fn():
        net = random_net(N, p, seed, directed)
        net.silence_level = silence
        dist = net.grid.distance() if D is None else D
        np.random.seed(seed + 1000)
        pyrandom.seed(seed + 2000)
        deg0 = net.degree().copy()
        mut0 = net._mut_A
        getattr(net, "randomly_rewire_geomodel_" + model)(
            distance_matrix=dist, iterations=iters, inaccuracy=eps)
        # state of the RNG after the call is part of the behaviour
        tail = np.random.random()
        return (net.adjacency, net.degree(), deg0, net.n_links,
                net.link_density, net._mut_A - mut0, tail,
                np.array(net.graph.get_edgelist()))
    return fn


# --- public methods ---------------------------------------------------------
k = 0
for model in ("I", "II", "III"):
    for (N, p, eps, iters) in [(12, 0.4, 100.0, 30), (25, 0.3, 4.0, 40),
                               (40, 0.2, 2.5, 25), (30, 0.5, 1e9, 60),
                               (15, 0.5, 50.0, 0)]:
        for seed in (1, 2, 3):
            if model == "III" and N == 12:
                continue
            k += 1
            run(f"m{model}-{N}-{seed}",
                method_case(model, N, p, seed, iters, eps))
# directed networks (kernel treats A symmetrically)
for model in ("I", "II"):
    run("dir" + model, method_case(model, 20, 0.25, 7, 15, 1e6,
                                   directed=True))
# verbose output
run("verbose", method_case("I", 10, 0.5, 5, 5, 1e6, silence=0))
run("verboseII", method_case("II", 10, 0.5, 5, 5, 1e6, silence=1))
run("verboseIII", method_case("III", 30, 0.4, 5, 5, 1e6, silence=1))
# too small distance matrix -> IndexError from the kernel
run("smallD-I", method_case("I", 12, 0.5, 4, 10, 1e6, D=np.zeros((3, 3))))
run("smallD-II", method_case("II", 12, 0.5, 4, 10, 1e6, D=np.zeros((3, 3))))
# 1d distance matrix -> buffer error
run("badD", method_case("I", 12, 0.5, 4, 10, 1e6, D=np.zeros(12)))
# integer distance matrix (same_kind cast fails)
run("intD", method_case("II", 12, 0.5, 4, 10, 1e6,
                        D=np.ones((12, 12), dtype=np.int64)))
# SmallTestNetwork as in the docs
for seed in range(5):
    def fn(seed=seed):
        net = SpatialNetwork.SmallTestNetwork()
        np.random.seed(seed)
        net.randomly_rewire_geomodel_I(distance_matrix=net.grid.distance(),
                                       iterations=100, inaccuracy=100)
        return net.adjacency, net.degree()
    run(f"small{seed}", fn)


# --- direct kernel calls ------------------------------------------------------
def kernel_case(name, seed, iters, eps, E_extra=0, with_deg=False,
                bad_dtype=False):
    def fn():
        net = random_net(18, 0.4, seed)
        A = to_cy(net.adjacency, ADJ)
        D = to_cy(net.grid.distance(), FIELD)
        edges = to_cy(np.array(net.graph.get_edgelist()), NODE)
        if bad_dtype:
            edges = edges.astype(np.int64)
        E = int(net.n_links) + E_extra
        np.random.seed(seed)
        args = [iters, eps, A, D, E, edges]
        if with_deg:
            args.append(to_cy(net.degree(), DEGREE))
        ret = getattr(cy, name)(*args)
        return ret, A, edges, D, np.random.random()
    return fn


for seed in (11, 12):
    run(f"k1-{seed}", kernel_case("_randomly_rewire_geomodel_I", seed, 20,
                                  5.0))
    run(f"k2-{seed}", kernel_case("_randomly_rewire_geomodel_II", seed, 20,
                                  5.0))
    run(f"k3-{seed}", kernel_case("_randomly_rewire_geomodel_III", seed, 10,
                                  1e6, with_deg=True))
run("kE", kernel_case("_randomly_rewire_geomodel_I", 13, 500, 5.0,
                      E_extra=3))
run("kdtype", kernel_case("_randomly_rewire_geomodel_II", 13, 5, 5.0,
                          bad_dtype=True))
run("kneg", kernel_case("_randomly_rewire_geomodel_I", 13, -5, 5.0))

print(k, H.hexdigest())
