"""Equivalence digest for twin 2 (interacting_networks.py: general average
path length / general closeness with temporary edits of path lengths)."""
import hashlib
import io
import contextlib
import numpy as np
from pyunicorn.core.interacting_networks import InteractingNetworks

H = hashlib.sha256()


def put(tag, obj):
    H.update(tag.encode())
    if isinstance(obj, np.ndarray):
        H.update(str(obj.dtype).encode() + str(obj.shape).encode())
        H.update(np.ascontiguousarray(obj).tobytes())
    else:
        H.update(repr(obj).encode())


def call(tag, f, *a, **k):
    buf = io.StringIO()
    try:
        with contextlib.redirect_stdout(buf), np.errstate(all="ignore"):
            res = f(*a, **k)
        if isinstance(res, (float, np.floating)):
            res = np.asarray(res, dtype=float)
        put(tag, res)
    except BaseException as e:  # noqa
        put(tag, "EXC:" + type(e).__name__)
    put(tag + ":out", buf.getvalue())


def make(seed, n, p, directed):
    rng = np.random.RandomState(seed)
    A = (rng.rand(n, n) < p).astype(int)
    np.fill_diagonal(A, 0)
    if not directed:
        A = np.triu(A, 1)
        A = A + A.T
    net = InteractingNetworks(adjacency=A, directed=directed,
                              silence_level=2)
    W = rng.rand(n, n) * 3
    W[rng.rand(n, n) < 0.15] = 0.0
    if not directed:
        W = np.triu(W, 1)
        W = W + W.T
    net.set_link_attribute("w", W * A)
    return net, rng


for s, (n, p) in enumerate([(4, 0.5), (6, 0.2), (9, 0.15), (12, 0.3),
                            (15, 0.08), (20, 0.12), (25, 0.5), (7, 0.0)]):
    for d in (False, True):
        tag = f"{s}-{n}-{p}-{d}"
        net, rng = make(s, n, p, d)
        perm = rng.permutation(n)
        k = max(1, n // 3)
        lists = [(list(perm[:k]), list(perm[k:])),
                 (list(perm[:1]), list(perm[1:])),
                 (list(perm[:n // 2]), list(perm[n // 2:])),
                 ([], list(perm)),
                 (list(perm[:k]), list(perm[:k]))]
        for li, (l1, l2) in enumerate(lists):
            for attr in (None, "w", "missing"):
                t = f"{tag}|{li}|{attr}"
                call(t + "pl0", net.path_lengths, attr)
                call(t + "capl", net.cross_average_path_length, l1, l2, attr)
                call(t + "iapl1", net.internal_average_path_length, l1, attr)
                call(t + "iapl2", net.internal_average_path_length, l2, attr)
                call(t + "pl1", net.path_lengths, attr)
                call(t + "cc", net.cross_closeness, l1, l2, attr)
                call(t + "cc'", net.cross_closeness, l2, l1, attr)
                call(t + "ic1", net.internal_closeness, l1, attr)
                call(t + "ic2", net.internal_closeness, l2, attr)
                call(t + "acc", net.average_cross_closeness, l1, l2, attr)
                call(t + "ge", net.global_efficiency, l1, l2, attr)
                call(t + "le", net.local_efficiency, l1, l2, attr)
                call(t + "pl2", net.path_lengths, attr)
                call(t + "capl2", net.cross_average_path_length, l1, l2, attr)

# direct calls of the private helpers: results, state of the argument after
# the call, odd `internal` flags and malformed arguments
net, rng = make(99, 8, 0.3, False)
rng = np.random.RandomState(7)
arrays = []
for shape in [(1, 1), (1, 4), (4, 1), (3, 3), (5, 2), (2, 7), (6, 6), (0, 3),
              (3, 0), (0, 0)]:
    a = rng.rand(*shape) * 4
    a[rng.rand(*shape) < 0.3] = np.inf
    a[rng.rand(*shape) < 0.2] = 0.0
    arrays.append(a)
arrays.append(np.zeros((3, 4)))
arrays.append(np.full((3, 3), np.inf))
arrays.append(np.array([[np.nan, 1.0], [np.inf, -np.inf]]))
arrays.append(np.arange(6).reshape(2, 3))            # integer dtype
arrays.append(np.arange(6.0).reshape(2, 3).astype("float32"))
arrays.append(np.arange(5.0))                        # 1d
arrays.append(np.zeros((2, 2, 2)))                   # 3d
arrays.append([[1.0, np.inf], [2.0, 3.0]])           # list
arrays.append(None)
for ai, a in enumerate(arrays):
    for flag in (True, False, 1, 0, None, "x", [], 2.5):
        t = f"direct{ai}|{flag!r}"
        b = a.copy() if isinstance(a, np.ndarray) else a
        call(t + "apl", InteractingNetworks.
             _calculate_general_average_path_length, b, internal=flag)
        call(t + "apl-arg", lambda: b)
        call(t + "apl-self", net._calculate_general_average_path_length, b,
             flag)
        c = a.copy() if isinstance(a, np.ndarray) else a
        call(t + "cl", net._calculate_general_closeness, c, internal=flag)
        call(t + "cl-arg", lambda: c)
    b = a.copy() if isinstance(a, np.ndarray) else a
    call(f"direct{ai}|default-apl",
         InteractingNetworks._calculate_general_average_path_length, b)
    call(f"direct{ai}|default-cl", net._calculate_general_closeness, b)
    call(f"direct{ai}|default-arg", lambda: b)

print(H.hexdigest())
