"""
Equivalence digest for property C05 (all representations of a network agree
and survive save/load).

Run as:  PYTHONPATH=<worktree>/src /venv/bin/python equiv.py
Prints a sha256 digest that must be identical on the pristine and on the
refactored tree.
"""
import contextlib
import hashlib
import io
import os
import random
import shutil
import sys
import warnings

import numpy as np
import scipy.sparse as sp
import igraph

from pyunicorn.core.network import Network, NetworkError
from pyunicorn.core.spatial_network import SpatialNetwork
from pyunicorn.core.geo_network import GeoNetwork
from pyunicorn.core.grid import Grid
from pyunicorn.core.geo_grid import GeoGrid
from pyunicorn.climate.climate_network import ClimateNetwork

warnings.simplefilter("ignore")

H = hashlib.sha256()
LOG = []
WORK = os.path.join(os.path.dirname(os.path.abspath(__file__)), "_equiv_work")


def clean(text):
    """Make messages independent of the location of the scratch files."""
    return text.replace(WORK, "<WORK>")


def feed(tag, obj):
    """Add a tagged, fully precise representation of obj to the digest."""
    if isinstance(obj, np.ndarray):
        s = f"ndarray|{obj.dtype}|{obj.shape}|".encode()
        if obj.dtype == object:
            s += repr(obj.tolist()).encode()
        else:
            s += np.ascontiguousarray(obj).tobytes()
    elif sp.issparse(obj):
        c = obj.tocoo()
        feed(tag + ".format", obj.format)
        feed(tag + ".dtype", str(obj.dtype))
        feed(tag + ".shape", obj.shape)
        feed(tag + ".dense", obj.toarray())
        feed(tag + ".nnz", int(c.nnz))
        return
    elif isinstance(obj, (float, np.floating)):
        s = f"{type(obj).__name__}|{float(obj).hex()}".encode()
    else:
        s = f"{type(obj).__name__}|{obj!r}".encode()
    H.update(tag.encode() + b"=" + s + b"\n")
    LOG.append(tag)


def describe(tag, net):
    feed(tag + ".class", type(net).__name__)
    feed(tag + ".directed", net.directed)
    feed(tag + ".N", net.N)
    feed(tag + ".n_links", net.n_links)
    feed(tag + ".link_density", net.link_density)
    feed(tag + ".sp_dtype", str(net.sp_dtype))
    feed(tag + ".sp_A", net.sp_A)
    feed(tag + ".adjacency", net.adjacency)
    feed(tag + ".muts", (net._mut_A, net._mut_nw, net._mut_la))
    nw = net.node_weights
    feed(tag + ".node_weights", nw)
    feed(tag + ".total_node_weight", net.total_node_weight)
    feed(tag + ".mean_node_weight", net.mean_node_weight)
    g = net.graph
    feed(tag + ".g.vcount", g.vcount())
    feed(tag + ".g.ecount", g.ecount())
    feed(tag + ".g.directed", g.is_directed())
    feed(tag + ".g.edges", g.get_edgelist())
    for a in sorted(g.vs.attributes()):
        vals = g.vs.get_attribute_values(a)
        feed(tag + f".g.vs[{a}]",
             [(type(v).__name__, v.hex() if isinstance(v, float) else v)
              for v in vals])
    for a in sorted(g.es.attributes()):
        vals = g.es.get_attribute_values(a)
        feed(tag + f".g.es[{a}]",
             [(type(v).__name__, v.hex() if isinstance(v, float) else v)
              for v in vals])
        try:
            feed(tag + f".link_attribute[{a}]", net.link_attribute(a))
        except Exception as e:  # pylint: disable=broad-except
            feed(tag + f".link_attribute[{a}].exc", type(e).__name__)
    for name in ("degree", "indegree", "nsi_degree", "edge_list", "__str__"):
        try:
            feed(tag + "." + name, getattr(net, name)())
        except Exception as e:  # pylint: disable=broad-except
            feed(tag + "." + name + ".exc", (type(e).__name__, clean(str(e))))


def attempt(tag, fn):
    """Run fn, describe its result or record the exception."""
    try:
        res = fn()
    except Exception as e:  # pylint: disable=broad-except
        feed(tag + ".exc", (type(e).__name__, clean(str(e))))
        return None
    if isinstance(res, Network):
        describe(tag, res)
    elif res is not None:
        feed(tag + ".result", res)
    return res


def state(tag, net):
    """Raw object state, also usable after a failed setter."""
    feed(tag + ".state",
         (net.N, net.n_links, repr(net.link_density), str(net.sp_dtype),
          None if net.sp_A is None else net.sp_A.toarray().tolist(),
          None if net.graph is None else net.graph.get_edgelist(),
          None if net._node_weights is None
          else (str(net._node_weights.dtype), net._node_weights.shape,
                net._node_weights.tobytes().hex()),
          float(net.mean_node_weight).hex(),
          float(net.total_node_weight).hex(),
          net._mut_A, net._mut_nw, net._mut_la))


def random_adjacency(rng, N, p, directed):
    A = (rng.random((N, N)) < p).astype(int)
    np.fill_diagonal(A, 0)
    if not directed:
        A = np.triu(A, 1)
        A = A + A.T
    return A


def main():
    tmp = WORK
    shutil.rmtree(tmp, ignore_errors=True)
    os.makedirs(tmp)
    rng = np.random.default_rng(20240505)
    random.seed(4242)
    try:
        run(tmp, rng)
    finally:
        shutil.rmtree(tmp, ignore_errors=True)


def run(tmp, rng):
    # ------------------------------------------------------------------
    # 1. adjacency (dense / sparse / list), edge list, igraph, copy
    # ------------------------------------------------------------------
    case = 0
    for directed in (False, True):
        for N, p in ((2, 1.0), (3, 0.0), (4, 0.3), (5, 0.5), (7, 0.2),
                     (9, 0.6), (12, 0.15), (6, 0.05)):
            case += 1
            t = f"c{case}"
            A = random_adjacency(rng, N, p, directed)
            w = rng.random(N) + 0.5
            dense = attempt(t + ".dense", lambda: Network(
                adjacency=A, directed=directed, node_weights=w,
                silence_level=2))
            attempt(t + ".list", lambda: Network(
                adjacency=A.tolist(), directed=directed, silence_level=2))
            for fmt in ("csc", "csr", "coo", "lil"):
                attempt(t + ".sparse." + fmt, lambda: Network(
                    adjacency=sp.csc_matrix(A).asformat(fmt),
                    directed=directed, node_weights=list(w), silence_level=2))
            #  edge lists
            if directed:
                el = np.argwhere(A)
            else:
                el = np.argwhere(np.triu(A))
            attempt(t + ".el.none", lambda: Network(
                edge_list=el, directed=directed, silence_level=2))
            attempt(t + ".el.N", lambda: Network(
                edge_list=el, n_nodes=N, directed=directed, node_weights=w,
                silence_level=2))
            attempt(t + ".el.list", lambda: Network(
                edge_list=el.tolist(), n_nodes=N, directed=directed,
                silence_level=2))
            attempt(t + ".el.tuples", lambda: Network(
                edge_list=[tuple(e) for e in el.tolist()], n_nodes=N + 2,
                directed=directed, silence_level=2))
            for dt in (np.int32, np.uint8, np.int16, np.float64):
                attempt(t + f".el.{np.dtype(dt).name}", lambda: Network(
                    edge_list=el.astype(dt), n_nodes=N, directed=directed,
                    silence_level=2))
            #  set_edge_list on a live object
            if dense is not None:
                perm = rng.permutation(len(el))
                attempt(t + ".set_el", lambda: (
                    dense.set_edge_list(el[perm], N), dense)[1])
                attempt(t + ".set_el.rev", lambda: (
                    dense.set_edge_list(el[:, ::-1]), dense)[1])
                attempt(t + ".set_el.dup", lambda: (
                    dense.set_edge_list(
                        np.concatenate((el, el[:2]), axis=0), N), dense)[1])
                attempt(t + ".copy", dense.copy)
                if directed:
                    attempt(t + ".ucopy", dense.undirected_copy)
            #  igraph
            g = igraph.Graph(n=N, edges=el.tolist(), directed=directed)
            attempt(t + ".ig.plain", lambda: Network.FromIGraph(g, 2))
            g2 = g.copy()
            g2.vs["node_weight_nsi"] = list(w)
            g2.vs["label"] = [f"v{i}" for i in range(N)]
            g2.es["weight"] = list(rng.random(g2.ecount()))
            g2.es["kind"] = [i % 3 for i in range(g2.ecount())]
            attempt(t + ".ig.attrs", lambda: Network.FromIGraph(
                graph=g2, silence_level=2))
            g3 = g.copy()
            g3.vs["node_weight_nsi"] = [int(i + 1) for i in range(N)]
            attempt(t + ".ig.intw", lambda: Network.FromIGraph(g3, 2))

    # ------------------------------------------------------------------
    # 2. odd / failing inputs
    # ------------------------------------------------------------------
    base = Network.SmallTestNetwork()
    describe("small", base)
    for name, el, n in (
            ("empty.none", [], None),
            ("empty.N", [], 4),
            ("empty.np02", np.zeros((0, 2), dtype=int), 3),
            ("empty.np0", np.zeros(0), 3),
            ("empty.str", np.array([], dtype=str), None),
            ("empty.obj", np.array([], dtype=object), None),
            ("empty.str.N", np.array([], dtype=str), 2),
            ("empty.np20", np.zeros((2, 0), dtype=int), 3),
            ("oned", [1, 2, 3], None),
            ("oned.N", [1, 2, 3], 5),
            ("three", [[0, 1, 2], [1, 2, 3]], None),
            ("ragged", [[0, 1], [1]], None),
            ("single", [[0, 1]], None),
            ("single.N", [[2, 0]], 5),
            ("selfloop", [[0, 0], [0, 1]], None),
            ("toosmall", [[0, 5]], 3),
            ("neg", [[0, -1]], 3),
            ("strs", [["a", "b"]], None),
            ("float", [[0.0, 1.0], [1.0, 2.0]], None),
            ("float.N", [[0.0, 1.0], [1.0, 2.0]], 3),
            ("bool", [[True, False]], 2),
            ("nodesNfloat", [[0, 1]], 3.0),
            ("scalar", 3, None)):
        for directed in (False, True):
            t = f"odd.{name}.{int(directed)}"
            attempt(t + ".ctor", lambda: Network(
                edge_list=el, n_nodes=n, directed=directed, silence_level=2))
            live = Network(adjacency=base.adjacency, directed=directed,
                           node_weights=base.node_weights, silence_level=2)
            attempt(t + ".live", lambda: live.set_edge_list(el, n))
            state(t + ".after", live)

    for name, A in (
            ("nonsquare", np.ones((2, 3), dtype=int)),
            ("one", [[0]]),
            ("one.loop", [[1]]),
            ("zero", np.zeros((0, 0))),
            ("oned", [0, 1, 1]),
            ("threed", np.zeros((2, 2, 2))),
            ("diag", [[1, 1], [1, 1]]),
            ("weighted", [[0, 3], [2, 0]]),
            ("float", [[0., .5], [.5, 0.]]),
            ("bool", np.array([[False, True], [True, False]])),
            ("asym", [[0, 1, 0], [0, 0, 1], [0, 0, 0]]),
            ("spnonsq", sp.csr_matrix(np.ones((3, 2)))),
            ("ragged", [[0, 1], [1]]),
            ("none", None)):
        for directed in (False, True):
            t = f"adj.{name}.{int(directed)}"
            live = Network(adjacency=base.adjacency, directed=directed,
                           node_weights=base.node_weights, silence_level=2)

            def setter(live=live, A=A):
                live.adjacency = A
            attempt(t + ".live", setter)
            state(t + ".after", live)
            attempt(t + ".nw", lambda: setattr(live, "node_weights", None))
            state(t + ".after2", live)

    #  node weights setter
    for name, w in (
            ("none", None), ("ones", [1] * 6), ("ints", np.arange(6)),
            ("short", [1, 2]), ("long", np.ones(7)), ("scalar", 2.0),
            ("float32", np.linspace(0, 1, 6).astype(np.float32)),
            ("2d", np.ones((6, 2))), ("strs", ["a"] * 6),
            ("tuple", (0.1, 0.2, 0.3, 0.4, 0.5, 0.6)),
            ("neg", -np.arange(6.)), ("empty", [])):
        t = f"nw.{name}"
        live = Network.SmallTestNetwork()
        attempt(t, lambda: setattr(live, "node_weights", w))
        state(t + ".after", live)
        attempt(t + ".ctor", lambda: Network(
            adjacency=base.adjacency, node_weights=w, silence_level=2))
        if isinstance(w, np.ndarray) and w.ndim == 1 and len(w) == 6:
            #  no aliasing with the input array
            w[0] = 99.
            feed(t + ".alias", live.node_weights)

    #  igraph oddities
    for name, g in (
            ("edgeless", igraph.Graph(n=4)),
            ("edgeless.d", igraph.Graph(n=3, directed=True)),
            ("null", igraph.Graph(n=0)),
            ("one", igraph.Graph(n=1)),
            ("multi", igraph.Graph(n=4, edges=[(0, 1), (0, 1), (1, 0),
                                               (2, 3)])),
            ("multi.d", igraph.Graph(n=4, edges=[(0, 1), (0, 1), (1, 0),
                                                 (2, 3)], directed=True)),
            ("loop", igraph.Graph(n=3, edges=[(0, 0), (0, 1), (2, 2)])),
            ("loop.d", igraph.Graph(n=3, edges=[(0, 0), (0, 1), (2, 2)],
                                    directed=True)),
            ("ring", igraph.Graph.Ring(7)),
            ("star.d", igraph.Graph.Star(6, mode="out")),
            ("full", igraph.Graph.Full(5)),
            ("tree", igraph.Graph.Tree(10, 3))):
        t = f"ig.{name}"
        attempt(t, lambda: Network.FromIGraph(g, silence_level=2))
        gw = g.copy()
        gw.vs["node_weight_nsi"] = [0.25 * (i + 1) for i in range(g.vcount())]
        gw.es["w"] = [1.5 * (i + 1) for i in range(g.ecount())]
        net = attempt(t + ".w", lambda: Network.FromIGraph(gw, 2))
        if net is not None:
            feed(t + ".w.same_graph", net.graph is gw)
        gb = g.copy()
        gb.vs["node_weight_nsi"] = [None] * g.vcount()
        attempt(t + ".nonew", lambda: Network.FromIGraph(gb, 2))
        if g.vcount() > 1:
            gs = g.copy()
            gs.vs["node_weight_nsi"] = ["x"] * g.vcount()
            attempt(t + ".strw", lambda: Network.FromIGraph(gs, 2))
    attempt("ig.notgraph", lambda: Network.FromIGraph("nope"))
    attempt("ig.none", lambda: Network.FromIGraph(None))

    #  rewiring goes through set_edge_list
    rnet = Network.SmallTestNetwork()
    random.seed(99)
    attempt("rewire", lambda: (rnet.randomly_rewire(5), rnet)[1])

    # ------------------------------------------------------------------
    # 3. save / Load round trips
    # ------------------------------------------------------------------
    nets = []
    for directed in (False, True):
        for N, p in ((2, 1.0), (4, 0.0), (5, 0.4), (8, 0.3), (6, 0.1)):
            A = random_adjacency(rng, N, p, directed)
            w = rng.random(N) + 0.1
            net = Network(adjacency=A, directed=directed, node_weights=w,
                          silence_level=2)
            W = rng.random((N, N))
            if not directed:
                W = W + W.T
            net.set_link_attribute("weight", W)
            net.set_link_attribute("flag", (W > W.mean()).astype(int))
            net.set_node_attribute("deg", net.degree())
            nets.append(net)
    nets.append(Network.SmallTestNetwork())
    no_w = Network.SmallTestNetwork()
    no_w._node_weights = None
    nets.append(no_w)

    for i, net in enumerate(nets):
        for fmt, ext in (("graphml", "graphml"), ("graphmlz", "graphmlz"),
                         ("gml", "gml"), ("pickle", "pickle"),
                         ("edgelist", "edges"), ("ncol", "ncol"),
                         ("lgl", "lgl"), ("net", "net"),
                         ("adjacency", "adj"), ("dot", "dot"),
                         ("nosuchformat", "xyz")):
            t = f"io{i}.{fmt}"
            fn = os.path.join(tmp, f"net{i}.{ext}")
            attempt(t + ".save", lambda: net.save(fn, fileformat=fmt))
            feed(t + ".vs_after_save",
                 sorted(net.graph.vs.attributes()))
            if "node_weight_nsi" in net.graph.vs.attributes():
                feed(t + ".stored",
                     [(type(v).__name__, float(v).hex())
                      for v in net.graph.vs["node_weight_nsi"]])
            attempt(t + ".load", lambda: Network.Load(
                fn, fileformat=fmt, silence_level=2))
            #  auto-detected format
            attempt(t + ".load.auto", lambda: Network.Load(fn))
        fn2 = os.path.join(tmp, f"auto{i}.graphml")
        attempt(f"io{i}.auto.save", lambda: net.save(fn2))
        attempt(f"io{i}.auto.load", lambda: Network.Load(
            filename=fn2, silence_level=1))
    attempt("io.missing", lambda: Network.Load(
        os.path.join(tmp, "does_not_exist.graphml")))

    #  SpatialNetwork / GeoNetwork / ClimateNetwork
    spatial = SpatialNetwork.SmallTestNetwork()
    geo = GeoNetwork.SmallTestNetwork()
    geo_d = GeoNetwork(grid=GeoGrid.SmallTestGrid(),
                       adjacency=random_adjacency(rng, 6, 0.4, True),
                       directed=True, node_weight_type="irrigation",
                       silence_level=2)
    geo_e = GeoNetwork(grid=GeoGrid.SmallTestGrid(), edge_list=[[0, 5]],
                       node_weight_type=None, silence_level=2)
    sp_e = SpatialNetwork(grid=Grid.SmallTestGrid(),
                          adjacency=np.zeros((6, 6), dtype=int),
                          silence_level=2)
    clim = ClimateNetwork.SmallTestNetwork()
    clim_d = ClimateNetwork(grid=GeoGrid.SmallTestGrid(),
                            similarity_measure=rng.random((6, 6)),
                            threshold=0.6, directed=True,
                            node_weight_type="irrigation", silence_level=2)
    describe("spatial", spatial)
    describe("geo", geo)
    describe("geo_d", geo_d)
    describe("geo_e", geo_e)
    describe("sp_e", sp_e)
    describe("clim", clim)
    describe("clim_d", clim_d)

    for name, net, cls in (("spatial", spatial, SpatialNetwork),
                           ("sp_e", sp_e, SpatialNetwork),
                           ("geo", geo, GeoNetwork),
                           ("geo_d", geo_d, GeoNetwork),
                           ("geo_e", geo_e, GeoNetwork),
                           ("geo_as_spatial", geo, SpatialNetwork),
                           ("spatial_as_geo", spatial, GeoNetwork)):
        W = rng.random((net.N, net.N))
        W = W + W.T
        net.set_link_attribute("dist", W)
        for fmt in ("graphml", "gml", "pickle", "edgelist"):
            t = f"sio.{name}.{fmt}"
            fn = os.path.join(tmp, f"{name}.{fmt}")
            fg = os.path.join(tmp, f"{name}.{fmt}.grid")
            attempt(t + ".save", lambda: net.save((fn, fg), fileformat=fmt))
            loaded = attempt(t + ".load", lambda: cls.Load(
                (fn, fg), fileformat=fmt, silence_level=2))
            if loaded is not None:
                feed(t + ".grid", type(loaded.grid).__name__)
                feed(t + ".gridN", loaded.grid.N)
                if isinstance(loaded, GeoNetwork):
                    feed(t + ".nwt", loaded.node_weight_type)
            attempt(t + ".load.list", lambda: cls.Load(
                [fn, fg], fmt, 2))
        attempt(f"sio.{name}.bad1", lambda: cls.Load("ab"))
        attempt(f"sio.{name}.bad3", lambda: cls.Load(("a", "b", "c")))
        attempt(f"sio.{name}.badsave", lambda: net.save(("a", "b", "c")))
        fn = os.path.join(tmp, f"{name}.nogrid.graphml")
        attempt(f"sio.{name}.nogrid.save", lambda: net.save((fn, None)))
        attempt(f"sio.{name}.nogrid.load", lambda: cls.Load((fn, None)))

    #  loading graphs without stored node weights into spatial classes
    g = igraph.Graph(n=6, edges=[(0, 1), (2, 3), (4, 5), (0, 5)])
    g.es["w"] = [1., 2., 3., 4.]
    fplain = os.path.join(tmp, "plain.graphml")
    g.write(fplain, format="graphml")
    fgrid = os.path.join(tmp, "plain.grid")
    GeoGrid.SmallTestGrid().save(fgrid)
    fsim = os.path.join(tmp, "sim.npy")
    sim = rng.random((6, 6))
    np.save(fsim, sim)
    attempt("plain.net", lambda: Network.Load(fplain, silence_level=2))
    attempt("plain.spatial", lambda: SpatialNetwork.Load(
        (fplain, fgrid), silence_level=2))
    attempt("plain.geo", lambda: GeoNetwork.Load(
        (fplain, fgrid), silence_level=2))
    attempt("plain.clim", lambda: ClimateNetwork.Load(
        (fplain, fgrid, fsim), silence_level=2))
    gd = igraph.Graph(n=6, edges=[(0, 1), (1, 0), (4, 5), (0, 5)],
                      directed=True)
    gd.vs["node_weight_nsi"] = [1., 2., 3., 4., 5., 6.]
    fdir = os.path.join(tmp, "dir.gml")
    gd.write(fdir, format="gml")
    attempt("dir.spatial", lambda: SpatialNetwork.Load((fdir, fgrid), "gml",
                                                       2))
    attempt("dir.geo", lambda: GeoNetwork.Load((fdir, fgrid), "gml", 2))
    attempt("dir.clim", lambda: ClimateNetwork.Load((fdir, fgrid, fsim),
                                                    "gml", 2))
    gbad = igraph.Graph(n=5, edges=[(0, 1)])
    fbad = os.path.join(tmp, "bad.graphml")
    gbad.write(fbad, format="graphml")
    attempt("badN.spatial", lambda: SpatialNetwork.Load((fbad, fgrid)))
    attempt("badN.geo", lambda: GeoNetwork.Load((fbad, fgrid)))
    attempt("badN.clim", lambda: ClimateNetwork.Load((fbad, fgrid, fsim)))
    gbw = igraph.Graph(n=6, edges=[(0, 1)])
    gbw.vs["node_weight_nsi"] = ["a", "b", "c", "d", "e", "f"]
    fbw = os.path.join(tmp, "badw.graphml")
    gbw.write(fbw, format="graphml")
    attempt("badw.net", lambda: Network.Load(fbw))
    attempt("badw.spatial", lambda: SpatialNetwork.Load((fbw, fgrid)))
    attempt("badw.geo", lambda: GeoNetwork.Load((fbw, fgrid)))
    attempt("badw.clim", lambda: ClimateNetwork.Load((fbw, fgrid, fsim)))

    for name, net in (("clim", clim), ("clim_d", clim_d)):
        for fmt in ("graphml", "gml", "pickle"):
            t = f"cio.{name}.{fmt}"
            fn = os.path.join(tmp, f"{name}.{fmt}")
            fg = os.path.join(tmp, f"{name}.{fmt}.grid")
            attempt(t + ".save", lambda: net.save((fn, fg, None),
                                                  fileformat=fmt))
            loaded = attempt(t + ".load", lambda: ClimateNetwork.Load(
                (fn, fg, fsim), fileformat=fmt, silence_level=2))
            if loaded is not None:
                feed(t + ".sim", loaded.similarity_measure())
                feed(t + ".nwt", loaded.node_weight_type)
                feed(t + ".thr", loaded.threshold())
        attempt(f"cio.{name}.bad2", lambda: ClimateNetwork.Load(("a", "b")))
        fdump = os.path.join(tmp, f"{name}.sim.dump")
        attempt(f"cio.{name}.fullsave", lambda: net.save(
            (os.path.join(tmp, f"{name}.full.graphml"),
             os.path.join(tmp, f"{name}.full.grid"), fdump)))
        attempt(f"cio.{name}.fullload", lambda: ClimateNetwork.Load(
            (os.path.join(tmp, f"{name}.full.graphml"),
             os.path.join(tmp, f"{name}.full.grid"), fdump)))

    # ------------------------------------------------------------------
    # 4. GeoNetwork.set_node_weight_type
    # ------------------------------------------------------------------
    for nwt in ("surface", "irrigation", None, "nonsense", "", 0, 1.5,
                ["surface"], ("irrigation",), b"surface", "Surface",
                np.str_("surface"), np.array(["surface"]),
                np.array(["surface", "irrigation"])):
        for sl in (0, 2):
            t = f"nwt.{nwt!r}.{sl}"
            live = GeoNetwork.SmallTestNetwork()
            live.silence_level = sl
            before = live._mut_nw
            attempt(t, lambda: live.set_node_weight_type(nwt))
            feed(t + ".type", repr(live.node_weight_type))
            feed(t + ".dmut", live._mut_nw - before)
            state(t + ".after", live)
            feed(t + ".nsi_degree", live.nsi_degree())
        attempt(f"nwt.{nwt!r}.ctor", lambda: GeoNetwork(
            grid=GeoGrid.SmallTestGrid(), adjacency=geo.adjacency,
            node_weight_type=nwt, silence_level=2))


if __name__ == "__main__":
    out = io.StringIO()
    with contextlib.redirect_stdout(out):
        main()
    H.update(b"STDOUT\n" + clean(out.getvalue()).encode())
    sys.stdout.write(f"entries={len(LOG)} stdout_chars={len(out.getvalue())} "
                     f"digest={H.hexdigest()}\n")
