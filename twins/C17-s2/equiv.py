"""Digest of the two RandomlySetCrossLinks models (dense and sparse)."""
import contextlib
import hashlib
import io
import warnings

import numpy as np

from pyunicorn.core.network import Network
from pyunicorn.core.interacting_networks import InteractingNetworks

h = hashlib.sha256()


def feed(*parts):
    for p in parts:
        if isinstance(p, np.ndarray):
            h.update(str(p.dtype).encode())
            h.update(str(p.shape).encode())
            h.update(np.ascontiguousarray(p).tobytes())
        else:
            h.update(repr(p).encode())
        h.update(b"|")


def base_network(N, p, seed, directed=False):
    rng = np.random.RandomState(seed)
    A = (rng.random_sample((N, N)) < p).astype(int)
    if not directed:
        A = np.triu(A, 1)
        A = A + A.T
    np.fill_diagonal(A, 0)
    return InteractingNetworks(
        adjacency=A, directed=directed,
        node_weights=rng.random_sample(N) + .5, silence_level=2)


def run(method, net, l1, l2, seed, **kw):
    np.random.seed(seed)
    out = io.StringIO()
    with warnings.catch_warnings(record=True) as w, \
            contextlib.redirect_stdout(out):
        warnings.simplefilter("always")
        try:
            res = getattr(InteractingNetworks, method)(net, l1, l2, **kw)
        except Exception as e:  # pylint: disable=broad-except
            feed("EXC", method, type(e).__name__, out.getvalue(),
                 [x.category.__name__ for x in w])
            feed(np.random.random_sample(2))
            return
    feed(method, out.getvalue(), [x.category.__name__ for x in w])
    feed(type(res).__name__, res.directed, res.N, res.n_links,
         res.silence_level, res.node_weights, res.adjacency)
    sp_A = res.sp_A
    feed(type(sp_A).__name__, sp_A.nnz, sp_A.data, sp_A.indices, sp_A.indptr)
    feed(sorted(res.graph.get_edgelist()))
    # the input network is left as it was
    feed(net.adjacency, net.sp_A.data, net.sp_A.indices, net.sp_A.indptr)
    feed(np.random.random_sample(2))


SPLITS = [
    ([0, 1, 2], [3, 4, 5]),
    ([5, 0, 3], [4, 1]),
    ([2], [0, 1, 3, 4, 5, 6]),
    ([0, 2, 4, 6, 8], [1, 3, 5]),
    (np.array([7, 3, 1]), (0, 2, 9)),
    # overlapping / repeated nodes: the order of the stores matters
    ([0, 1, 2, 3], [2, 3, 4]),
    ([1, 1, 4], [0, 5, 5]),
    ([0, 1], []),
    ([], [2, 3]),
]

for k, (l1, l2) in enumerate(SPLITS):
    for directed in (False, True):
        net = base_network(10, .35, 40 + k, directed)
        n_max = len(l1) * len(l2)
        for method in ("RandomlySetCrossLinks",
                       "RandomlySetCrossLinks_sparse"):
            seed = 100 * k + 3
            run(method, net, l1, l2, seed)
            run(method, net, l1, l2, seed + 1, cross_link_density=.4)
            run(method, net, l1, l2, seed + 2, cross_link_density=0.)
            run(method, net, l1, l2, seed + 3, cross_link_density=1.)
            run(method, net, l1, l2, seed + 4, cross_link_density=1.3)
            run(method, net, l1, l2, seed + 5, number_cross_links=0)
            run(method, net, l1, l2, seed + 6,
                number_cross_links=n_max // 2)
            run(method, net, l1, l2, seed + 7, number_cross_links=n_max)
            run(method, net, l1, l2, seed + 8,
                number_cross_links=n_max + 1)
            run(method, net, l1, l2, seed + 9, cross_link_density=.5,
                number_cross_links=1)
            run(method, net, l1, l2, seed + 10, number_cross_links=2.0)
            run(method, net, l1, l2, seed + 11, number_cross_links="2")

# bad node lists and a base object that is no InteractingNetworks
net = base_network(8, .4, 77)
for method in ("RandomlySetCrossLinks", "RandomlySetCrossLinks_sparse"):
    run(method, net, [0, 1], [2, 11], 5, number_cross_links=1)
    run(method, net, [0, 1], [2, 11], 5, number_cross_links=0)
    run(method, net, [0., 1.], [2, 3], 5, number_cross_links=1)
    run(method, net, [[0], [1]], [2, 3], 5, number_cross_links=0)
    run(method, net, [[0], [1]], [2, 3], 5, number_cross_links=1)
    run(method, net, [[0, 1], [4, 5]], [2, 3], 5, number_cross_links=0)
    run(method, net, [0, 1], [[2, 3]], 5, number_cross_links=0)
    run(method, net, [-1, -2], [2, 3], 5, number_cross_links=2)
    run(method, Network.SmallTestNetwork(), [0, 1], [2, 3], 5,
        number_cross_links=1)
    run(method, InteractingNetworks.SmallTestNetwork(), [0, 3, 5],
        [1, 2, 4], 6)
    run(method, InteractingNetworks.SmallDirectedTestNetwork(), [0, 3, 5],
        [1, 2, 4], 7, number_cross_links=4)

print(h.hexdigest())
