"""Equivalence digest for twin_2: ClimateData.phase_mean / anomaly (and their
users) and the GeoNetwork coordinate conversion helpers."""
import hashlib
import io
import contextlib

import numpy as np

from pyunicorn.core.geo_grid import GeoGrid
from pyunicorn.core.geo_network import GeoNetwork
from pyunicorn.climate.climate_data import ClimateData

H = hashlib.sha256()


def put(tag, val):
    H.update(tag.encode())
    if isinstance(val, np.ndarray):
        H.update(str(val.dtype).encode() + str(val.shape).encode())
        H.update(np.ascontiguousarray(val).tobytes())
    elif isinstance(val, (list, tuple)):
        for k, x in enumerate(val):
            put(f"{tag}[{k}]", x)
        H.update(type(val).__name__.encode())
    elif isinstance(val, (str, bytes, int, float, bool, type(None),
                          np.generic)):
        H.update((type(val).__name__ + repr(val)).encode())
    else:
        H.update(type(val).__name__.encode())


def attempt(tag, fn):
    buf = io.StringIO()
    try:
        with contextlib.redirect_stdout(buf):
            res = fn()
    except Exception as e:  # pylint: disable=broad-except
        put(tag, ("EXC", type(e).__name__, str(e)))
        res = None
    else:
        put(tag, res)
    put(tag + "/out", buf.getvalue())
    return res


def make_data(seed, T, N, dtype, time_cycle, anomalies=False, silence=2):
    rng = np.random.RandomState(seed)
    obs = (10 * rng.randn(T, N)).astype(dtype)
    grid = GeoGrid(np.arange(T, dtype=float),
                   np.linspace(-60., 60., N), np.linspace(0., 300., N),
                   silence_level=2)
    return ClimateData(observable=obs, grid=grid, time_cycle=time_cycle,
                       anomalies=anomalies, silence_level=silence), obs


CASES = [
    (10, 6, 'float64', 5), (12, 4, 'float64', 12), (13, 3, 'float64', 4),
    (24, 5, 'float32', 12), (9, 4, 'int64', 3), (7, 2, 'float64', 1),
    (5, 3, 'float64', 8), (6, 3, 'float64', 0), (6, 3, 'float64', -2),
    (6, 3, 'float64', 2.0), (8, 1, 'float16', 4), (8, 3, 'complex128', 4),
    (20, 7, 'int32', 5), (6, 3, 'float64', None), (6, 3, 'float64', '2'),
]
for seed, (T, N, dtype, tc) in enumerate(CASES):
    for anomalies in (False, True, 0, 1, None, 'yes', np.array([1, 0])):
        for silence in (0, 2):
            data, obs = make_data(seed, T, N, dtype, tc, anomalies, silence)
            obs0 = obs.copy()
            tag = f"cd/{seed}/{anomalies!r}/{silence}"
            pm1 = attempt(tag + "/pm1", data.phase_mean)
            an1 = attempt(tag + "/an1", data.anomaly)
            pm2 = attempt(tag + "/pm2", data.phase_mean)
            an2 = attempt(tag + "/an2", data.anomaly)
            put(tag + "/pm_same", pm1 is pm2)
            put(tag + "/an_same", an1 is an2)
            put(tag + "/an_is_obs", an1 is data.observable())
            put(tag + "/an_shares", None if an1 is None else
                bool(np.shares_memory(an1, data.observable())))
            put(tag + "/obs_unchanged", bool(
                (data.observable() == obs0).all()
                and data.observable() is obs))
            if silence == 2 and isinstance(anomalies, bool):
                np.random.seed(3)
                attempt(tag + "/shuf", data.shuffled_anomaly)
                attempt(tag + "/an3", data.anomaly)
                attempt(tag + "/selm", lambda: data.anomaly_selected_months(
                    [0, 2]))
                # window change invalidates, then global window restores
                attempt(tag + "/setw", lambda: data.set_window(
                    {"time_min": 1., "time_max": float(T - 2),
                     "lat_min": -30., "lat_max": 60.,
                     "lon_min": 0., "lon_max": 300.}))
                attempt(tag + "/pm_w", data.phase_mean)
                attempt(tag + "/an_w", data.anomaly)
                attempt(tag + "/glob", data.set_global_window)
                attempt(tag + "/pm_g", data.phase_mean)
                attempt(tag + "/an_g", data.anomaly)

# SmallTestData round trip
d = ClimateData.SmallTestData()
put("small/pm", d.phase_mean())
put("small/an", d.anomaly())
put("small/pi", d.phase_indices())

# ---- coordinate helpers -----------------------------------------------------
rng = np.random.RandomState(11)
LATLON = [
    (rng.uniform(-90, 90, 7), rng.uniform(-180, 180, 7)),
    (rng.uniform(-90, 90, (3, 4)), rng.uniform(0, 360, (3, 4))),
    (np.array([90., -90., 0.]), np.array([0., 180., 360.])),
    (np.arange(-90, 91, 30), np.arange(0, 350, 50)),
    (np.float32(12.5), np.float32(-77.25)),
    (45.0, 30.0), (45, 30), (True, False),
    (rng.uniform(-90, 90, 5).astype('float32'),
     rng.uniform(-180, 180, 5).astype('float32')),
    (rng.uniform(-90, 90, 5), 10.0),
    (rng.uniform(-90, 90, 5), rng.uniform(0, 1, 4)),
    ([10., 20.], [30., 40.]), ("a", "b"), (None, 3.0), (3.0, None),
    (np.array([np.nan, np.inf, -np.inf]), np.array([1., 2., 3.])),
    (np.array([1 + 2j, 3.]), np.array([0.5, 4.])),
]
for k, (lat, lon) in enumerate(LATLON):
    lat0 = lat.copy() if isinstance(lat, np.ndarray) else lat
    lon0 = lon.copy() if isinstance(lon, np.ndarray) else lon
    with np.errstate(all='ignore'):
        pos = attempt(f"l2c/{k}", lambda: GeoNetwork.latlon2cartesian(
            lat, lon))
    if isinstance(lat, np.ndarray):
        put(f"l2c/{k}/lat_unchanged", bool(
            np.array_equal(lat, lat0, equal_nan=not np.iscomplexobj(lat))))
    if isinstance(lon, np.ndarray):
        put(f"l2c/{k}/lon_unchanged", bool(np.array_equal(lon, lon0)))
    if pos is not None:
        put(f"l2c/{k}/type", type(pos).__name__ + str(len(pos)))
        pos0 = [p.copy() if isinstance(p, np.ndarray) else p for p in pos]
        with np.errstate(all='ignore'):
            back = attempt(f"c2l/{k}", lambda: GeoNetwork.cartesian2latlon(
                pos))
            attempt(f"c2l_arr/{k}", lambda: GeoNetwork.cartesian2latlon(
                np.array(pos)))
        put(f"c2l/{k}/pos_unchanged", all(
            np.array_equal(a, b, equal_nan=not np.iscomplexobj(a))
            for a, b in zip(pos, pos0)))
        if back is not None:
            put(f"c2l/{k}/type", type(back).__name__ + str(len(back)))

for k, pos in enumerate([
        (0., 0., 1.), [1, 0, 0], np.array([0.6, 0.8, 0.]), (0.1, 0.2),
        np.array([[0.1, 0.2], [0.3, 0.4], [0.5, 0.6], [9., 9.]]),
        (0., 0., 2.), "xyz", None, np.float32([0.5, 0.5, 0.70710678]),
        (np.float32(0.5), np.float32(0.5), np.float32(0.70710678))]):
    with np.errstate(all='ignore'):
        attempt(f"c2l_x/{k}", lambda: GeoNetwork.cartesian2latlon(pos))

print(H.hexdigest())
