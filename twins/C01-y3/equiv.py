"""Equivalence digest for Surrogates.twins() / _twins_s()."""
import contextlib
import hashlib
import io
import random
import warnings

import numpy as np

from pyunicorn.timeseries.surrogates import Surrogates
from pyunicorn.timeseries._ext.numerics import _twins_s

warnings.simplefilter("ignore")
H = hashlib.sha256()
N_TWINS = [0]


def feed(tag, value):
    if isinstance(value, np.ndarray):
        H.update(f"{tag}:{value.dtype}:{value.shape}:".encode())
        H.update(np.ascontiguousarray(value).tobytes())
    else:
        H.update(f"{tag}:{type(value).__name__}:{value!r};".encode())


def call(tag, fn, *args, **kwds):
    out = io.StringIO()
    res = None
    try:
        with contextlib.redirect_stdout(out):
            res = fn(*args, **kwds)
        feed(tag, res)
    except Exception as e:  # pylint: disable=broad-except
        feed(tag + "!exc", type(e).__name__)
    feed(tag + ":stdout", out.getvalue())
    return res


def count(twins):
    if isinstance(twins, list):
        N_TWINS[0] += sum(len(t) for ts in twins for t in ts)


def make_data(rng, kind, N, T):
    t = np.arange(T)
    if kind == "noise":
        return rng.standard_normal((N, T))
    if kind == "periodic":
        # exactly repeating patterns -> many twins
        period = rng.integers(3, 9, size=N)
        base = rng.integers(0, 4, size=(N, 9)).astype(float)
        return np.array([base[i, t % period[i]] for i in range(N)])
    if kind == "coarse":
        return np.round(np.sin(0.37 * t[None, :] * (1 + np.arange(N)[:, None]))
                        * 2) / 2
    if kind == "const":
        return np.ones((N, T))
    if kind == "nan":
        d = rng.standard_normal((N, T))
        d[:, ::5] = np.nan
        return d
    raise ValueError(kind)


def main():
    rng = np.random.default_rng(424242)
    k = 0
    for kind in ("noise", "periodic", "coarse", "const", "nan"):
        for (N, T) in ((1, 12), (3, 30), (4, 61)):
            data = make_data(rng, kind, N, T)
            tag = f"{kind}-{N}-{T}"
            with contextlib.redirect_stdout(io.StringIO()):
                s = Surrogates(data.copy(), silence_level=k % 3)
            k += 1
            # no embedding yet
            call(tag + "/noemb", s.twins, 0.1)
            for (dim, delay) in ((1, 1), (2, 1), (3, 2)):
                emb = call(tag + f"/emb{dim}{delay}",
                           Surrogates.embed_time_series_array,
                           s.original_data, dim, delay, silence_level=2)
                s.embedding = emb
                feed(tag + "/mut", s._mut_embedding)
                for thr in (0.0, 0.05, 0.6, 2.5):
                    for md in (7, 0, 2, -3):
                        tw = call(tag + f"/tw{dim}{delay}-{thr}-{md}",
                                  s.twins, thr, md)
                        count(tw)
                        tw2 = call(tag + f"/tw{dim}{delay}-{thr}-{md}b",
                                   s.twins, thr, min_dist=md)
                        count(tw2)
                feed(tag + "/embstate", s.embedding)
            # in-place edit of the embedding is invisible, a new one is not
            tw = call(tag + "/cached", s.twins, 0.6, 2)
            s.embedding = s.embedding[:, ::-1, :]
            tw = call(tag + "/reversed", s.twins, 0.6, 2)
            count(tw)
            # twin surrogates (seeded), twice: second call re-embeds
            random.seed(1234 + k)
            np.random.seed(1234 + k)
            call(tag + "/ts1", s.twin_surrogates, 2, 1, 0.6, 3)
            call(tag + "/ts2", s.twin_surrogates, 3, 1, 0.3)
            feed(tag + "/mut2", s._mut_embedding)
            with contextlib.redirect_stdout(io.StringIO()):
                s.normalize_original_data()
            call(tag + "/ts3", s.twin_surrogates, 2, 2, 0.6, 3)
            tw = call(tag + "/norm", s.twins, 0.6, 3)
            count(tw)
            # degenerate embeddings
            s.embedding = np.zeros((2, 0, 3))
            call(tag + "/empty_t", s.twins, 0.5)
            s.embedding = np.zeros((0, 4, 2))
            call(tag + "/empty_n", s.twins, 0.5)
            s.embedding = np.zeros((2, 5, 0))
            call(tag + "/empty_d", s.twins, 0.5, 1)
            s._embedding = np.zeros((4, 3))
            s._mut_embedding += 1
            call(tag + "/2d", s.twins, 0.5)
            s._embedding = np.zeros((2, 3, 2, 2))
            s._mut_embedding += 1
            call(tag + "/4d", s.twins, 0.5)
            call(tag + "/badthr", s.twins, "x")

    # the compiled routine directly, including inconsistent work space
    emb = np.ascontiguousarray(
        np.round(rng.standard_normal((3, 20, 2)), 0))
    for (nt, rshape, nrlen, md, pre) in (
            (20, (20, 20), 20, 2, []), (20, (20, 20), 20, -4, []),
            (20, (10, 20), 20, 2, []), (20, (20, 20), 5, 2, []),
            (25, (25, 25), 25, 2, []), (20, (20, 20), 20, 2, [[[5]], 7]),
            (0, (0, 0), 0, 2, [])):
        R = np.full(rshape, 3, dtype="int8")
        nR = np.full(nrlen, -2, dtype="int16")
        twins = list(pre)
        tag = f"direct-{nt}-{rshape}-{nrlen}-{md}-{len(pre)}"
        call(tag, _twins_s, 3, nt, 2, 1.0, md, emb, R, nR, twins)
        feed(tag + "/twins", twins)
        feed(tag + "/R", R)
        feed(tag + "/nR", nR)
        count(twins[len(pre):] if not pre else [])
    print(N_TWINS[0], H.hexdigest())


main()
