"""Digest of Arenas-type random walk betweenness on a spread of graphs."""
import hashlib
import io
import contextlib

import numpy as np

from pyunicorn.core.network import Network

h = hashlib.sha256()


def put(tag, val):
    h.update(tag.encode())
    if isinstance(val, np.ndarray):
        h.update(str(val.dtype).encode())
        h.update(str(val.shape).encode())
        h.update(np.ascontiguousarray(val).tobytes())
    else:
        h.update(repr(val).encode())


def sym(rng, n, p):
    a = (rng.random((n, n)) < p).astype(np.int8)
    a = np.triu(a, 1)
    return a + a.T


rng = np.random.default_rng(4242)
out = io.StringIO()
with contextlib.redirect_stdout(out), np.errstate(all="ignore"):
    g = 0
    for n in (2, 3, 4, 5, 7, 10, 14, 20, 28):
        for p in (0.0, 0.1, 0.25, 0.5, 0.8, 1.0):
            g += 1
            A = sym(rng, n, p)
            for sl in (1, 2):
                net = Network(adjacency=A, directed=False, silence_level=sl)
                try:
                    res = net.arenas_betweenness()
                    put(f"g{g}s{sl}", res)
                    # second call is served from the cache
                    put(f"g{g}s{sl}again", net.arenas_betweenness())
                    put(f"g{g}s{sl}state", net.adjacency)
                except Exception as e:  # pylint: disable=broad-except
                    put(f"g{g}s{sl}", type(e).__name__ + str(e))
    # directed networks (components of the underlying igraph object)
    for n in (4, 6, 9, 13):
        for p in (0.15, 0.4):
            g += 1
            A = (rng.random((n, n)) < p).astype(np.int8)
            np.fill_diagonal(A, 0)
            net = Network(adjacency=A, directed=True, silence_level=2)
            try:
                put(f"d{g}", net.arenas_betweenness())
            except Exception as e:  # pylint: disable=broad-except
                put(f"d{g}", type(e).__name__ + str(e))
    for net in (Network.SmallTestNetwork(),
                Network.SmallTestNetwork().splitted_copy(),
                Network.SmallDirectedTestNetwork()):
        try:
            put("named", net.arenas_betweenness())
        except Exception as e:  # pylint: disable=broad-except
            put("named", type(e).__name__ + str(e))
# printed messages are part of the behaviour (timing line is not printed at
# silence levels >= 1)
put("stdout", out.getvalue())
print(h.hexdigest())
