"""Equivalence digest for twin_3 (climate/_ext: mutual information kernel
that reads the normalised anomaly)."""
import hashlib
import io
import contextlib
import warnings

import numpy as np

from pyunicorn.core._ext.types import to_cy, FIELD
from pyunicorn.climate._ext.numerics import mutual_information
from pyunicorn.climate.climate_data import ClimateData
from pyunicorn.climate.mutual_info import MutualInfoClimateNetwork

warnings.simplefilter("ignore")
H = hashlib.sha256()


def feed(tag, value):
    H.update(tag.encode())
    if isinstance(value, np.ndarray):
        H.update(str(value.dtype).encode())
        H.update(repr(value.shape).encode())
        H.update(np.ascontiguousarray(value).tobytes())
    else:
        H.update(repr(value).encode())


def attempt(tag, f, *args, **kwargs):
    try:
        res = f(*args, **kwargs)
    except Exception as e:  # pylint: disable=broad-except
        feed(tag, "EXC:" + type(e).__name__)
        return None
    feed(tag, res)
    return res


def kernel(anomaly, n_bins, scaling=None, range_min=None):
    """anomaly: [index, time] float32, C-contiguous"""
    (N, n_samples) = anomaly.shape
    if range_min is None:
        range_min = float(anomaly.min())
    if scaling is None:
        scaling = 1. / (float(anomaly.max()) - range_min)
    before = anomaly.copy()
    res = mutual_information(anomaly, n_samples, N, n_bins, scaling,
                             range_min)
    feed("input-unchanged", bool(
        np.array_equal(before, anomaly, equal_nan=True)))
    feed("input", anomaly)
    return res


out = io.StringIO()
with contextlib.redirect_stdout(out):
    rng = np.random.RandomState(20240607)
    #  the kernel on its own
    for (N, T) in ((1, 1), (1, 7), (2, 1), (2, 2), (2, 50), (3, 10), (5, 33),
                   (8, 100), (13, 64), (21, 365), (40, 30)):
        for kind in range(6):
            if kind == 0:
                x = rng.randn(N, T)
            elif kind == 1:
                x = np.cumsum(rng.randn(N, T), axis=1)
            elif kind == 2:
                x = rng.randint(0, 3, size=(N, T)).astype(float)
            elif kind == 3:
                x = rng.randn(N, T)
                x[N // 2, :] = 0.0           # constant series
            elif kind == 4:
                x = rng.randn(N, T)
                x[1:] = x[:-1] * 0.5 + x[1:] * 0.5   # dependent series
            else:
                x = rng.rand(N, T)
                x[0, 0] = np.nan
            a = to_cy(x, FIELD)
            for n_bins in (1, 2, 3, 8, 32, 64):
                t = f"k/{N}/{T}/{kind}/{n_bins}"
                attempt(t, kernel, a, n_bins)
                #  repeated call: same value, input untouched
                attempt(t + "r", kernel, a, n_bins)
            if kind in (0, 2):
                #  out-of-sample scaling (values above 1 go to the last bin)
                spread = float(np.nanmax(a)) - float(np.nanmin(a))
                attempt("k/s", kernel, a, 8, 2. / spread if spread else 1.0,
                        float(np.nanmin(a)))
    for n_bins in (0, -1):
        attempt(f"k/bad{n_bins}", kernel, to_cy(rng.randn(3, 5), FIELD),
                n_bins)
    attempt("k/none", mutual_information, None, 1, 1, 4, 1.0, 0.0)
    attempt("k/f64", mutual_information, rng.randn(3, 5), 5, 3, 4, 1.0, 0.0)
    attempt("k/empty", kernel, np.zeros((0, 5), dtype=FIELD), 4, 1.0, 0.0)
    attempt("k/empty2", kernel, np.zeros((3, 0), dtype=FIELD), 4, 1.0, 0.0)

    #  through the public classes: shared ClimateData, caller-owned arrays
    data = ClimateData.SmallTestData()
    data.silence_level = 2
    anomaly0 = data.anomaly().copy()
    net = MutualInfoClimateNetwork(data, threshold=0.3, winter_only=False,
                                   silence_level=2)
    feed("mi", net.mutual_information(data.anomaly(), dump=False))
    feed("sim", net.similarity_measure())
    feed("adj", net.adjacency)
    feed("anomaly-kept", bool(np.array_equal(anomaly0, data.anomaly())))
    feed("anomaly", data.anomaly())
    for T in (4, 17, 60):
        own = rng.randn(T, 6) * 3 + 1
        own0 = own.copy()
        for n_bins in (2, 32):
            feed("own-mi", net._cython_calculate_mutual_information(
                own, n_bins=n_bins))
        feed("own-sim", net.calculate_similarity_measure(own))
        feed("own-kept", bool(np.array_equal(own, own0)))
        feed("own", own)
    net2 = MutualInfoClimateNetwork(data, threshold=0.05, winter_only=False,
                                    silence_level=2)
    feed("mi2", net2.mutual_information(data.anomaly(), dump=False))
    feed("sim2", net2.similarity_measure())
    feed("adj2", net2.adjacency)
    feed("anomaly-kept", bool(np.array_equal(anomaly0, data.anomaly())))

feed("stdout", out.getvalue())
print(H.hexdigest())
