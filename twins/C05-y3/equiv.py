"""
Equivalence digest for property C05 (network representations agree and
survive save/load).  Run as

    PYTHONPATH=<worktree>/src /venv/bin/python equiv.py

Prints one sha256 digest; it must be identical on the pristine and on the
refactored tree.
"""
import contextlib
import hashlib
import io
import os
import tempfile

import numpy as np
import scipy.sparse as sp
import igraph

from pyunicorn.core.network import Network, NetworkError
from pyunicorn.core.spatial_network import SpatialNetwork
from pyunicorn.core.geo_network import GeoNetwork
from pyunicorn.core.grid import Grid
from pyunicorn.core.geo_grid import GeoGrid

H = hashlib.sha256()
LOG = []
TMP = [None]


def emit(*items):
    for it in items:
        if isinstance(it, np.ndarray):
            s = f"nd:{it.dtype}:{it.shape}:" + \
                hashlib.sha256(np.ascontiguousarray(it).tobytes()).hexdigest()
        elif sp.issparse(it):
            s = f"sp:{it.format}:{it.dtype}:{it.shape}:" + \
                hashlib.sha256(it.toarray().tobytes()).hexdigest()
        elif isinstance(it, float):
            s = "f:" + repr(float(it)) + ":" + type(it).__name__
        else:
            s = type(it).__name__ + ":" + repr(it)
        if TMP[0]:
            s = s.replace(TMP[0], "<TMP>")
        LOG.append(s)
        H.update(s.encode())
        H.update(b"\x00")


def graph_state(g):
    if g is None:
        emit("graph None")
        return
    emit(g.vcount(), g.ecount(), g.is_directed(), g.get_edgelist(),
         sorted(g.vs.attribute_names()), sorted(g.es.attribute_names()))
    for a in sorted(g.vs.attribute_names()):
        vals = g.vs.get_attribute_values(a)
        emit(a, [type(v).__name__ for v in vals], vals)
    for a in sorted(g.es.attribute_names()):
        vals = g.es.get_attribute_values(a)
        emit(a, [type(v).__name__ for v in vals], vals)


def state(net, tag):
    emit("STATE", tag, type(net).__name__, net.directed, net.silence_level,
         net.N, type(net.N).__name__, net.n_links, type(net.n_links).__name__,
         net.link_density, type(net.link_density).__name__,
         net.sp_dtype.__name__ if net.sp_dtype is not None else None,
         net._mut_A, net._mut_nw, net._mut_la)
    emit(net.sp_A)
    if net.sp_A is not None:
        emit(net.adjacency)
    emit(net.node_weights, net.total_node_weight, net.mean_node_weight,
         type(net.total_node_weight).__name__,
         type(net.mean_node_weight).__name__)
    graph_state(net.graph)
    if hasattr(net, "node_weight_type"):
        emit(net.node_weight_type)
    if hasattr(net, "grid"):
        emit(type(net.grid).__name__, str(net.grid))
    try:
        emit(net.degree(), str(net))
    except Exception as e:                       # pylint: disable=W0718
        emit("degree/str raised", type(e).__name__, str(e))
    for a in sorted(net.graph.es.attribute_names()):
        emit(a, net.link_attribute(a))


def attempt(tag, fun, *args, **kwds):
    """Run fun, record result or exception type/message and stdout."""
    out = io.StringIO()
    res = None
    try:
        with contextlib.redirect_stdout(out):
            res = fun(*args, **kwds)
        emit("OK", tag)
    except Exception as e:                       # pylint: disable=W0718
        cause = e.__cause__
        emit("EXC", tag, type(e).__name__, str(e),
             type(cause).__name__ if cause is not None else None)
    emit("stdout", out.getvalue())
    return res


def random_adjacency(rng, N, p, directed):
    A = (rng.random((N, N)) < p).astype(int)
    np.fill_diagonal(A, 0)
    if not directed:
        A = np.triu(A, 1)
        A = A + A.T
    return A


def make_networks():
    rng = np.random.default_rng(20240605)
    nets = []
    for N, p, directed in [(2, 1.0, False), (2, 0.0, False), (3, 0.4, True),
                           (5, 0.0, True), (6, 0.3, False), (7, 0.5, True),
                           (9, 0.15, False), (12, 0.25, True),
                           (15, 0.1, False)]:
        A = random_adjacency(rng, N, p, directed)
        w = rng.random(N) * 3 + 0.1
        nets.append((f"dense{N}{directed}", dict(adjacency=A,
                                                 directed=directed,
                                                 node_weights=w,
                                                 silence_level=2)))
        nets.append((f"sparse{N}{directed}",
                     dict(adjacency=sp.csr_matrix(A), directed=directed,
                          silence_level=1)))
        nets.append((f"lil{N}{directed}",
                     dict(adjacency=sp.lil_matrix(A), directed=directed,
                          node_weights=list(w), silence_level=0)))
        edges = np.array(np.nonzero(A)).T
        if not directed:
            edges = edges[edges[:, 0] < edges[:, 1]]
        nets.append((f"edges{N}{directed}",
                     dict(edge_list=edges, n_nodes=N, directed=directed,
                          node_weights=w, silence_level=2)))
        nets.append((f"edgesNoN{N}{directed}",
                     dict(edge_list=edges.tolist(), directed=directed,
                          silence_level=2)))
    # single link, isolated nodes
    A = np.zeros((5, 5), dtype=int)
    A[1, 3] = A[3, 1] = 1
    nets.append(("single", dict(adjacency=A, node_weights=[1, 2, 3, 4, 5])))
    A = np.zeros((4, 4), dtype=int)
    A[2, 0] = 1
    nets.append(("singledir", dict(adjacency=A, directed=True)))
    nets.append(("edgelist_single", dict(edge_list=[[0, 3]], n_nodes=6)))
    nets.append(("edgelist_empty_n", dict(edge_list=[], n_nodes=4)))
    nets.append(("edgelist_empty", dict(edge_list=[])))
    nets.append(("edgelist_empty_dir", dict(edge_list=[], n_nodes=3,
                                            directed=True)))
    nets.append(("nothing", dict()))
    nets.append(("nonsquare", dict(adjacency=np.zeros((2, 3)))))
    nets.append(("one_node", dict(adjacency=[[0]])))
    nets.append(("bad_weights", dict(adjacency=[[0, 1], [1, 0]],
                                     node_weights=[1, 2, 3])))
    nets.append(("loops", dict(adjacency=[[1, 1, 0], [1, 0, 1], [0, 1, 1]])))
    nets.append(("multi_edges", dict(edge_list=[[0, 1], [0, 1], [1, 2],
                                                [2, 2]], directed=True)))
    nets.append(("float_adj", dict(adjacency=[[0, .5, 0], [.5, 0, 2.],
                                              [0, 2., 0]])))
    return nets


FORMATS = [("graphml", "graphml"), ("graphmlz", "graphmlz"), ("gml", "gml"),
           ("pickle", "pickle"), ("edgelist", "edgelist"), ("net", "pajek"),
           ("ncol", "ncol"), ("adjacency", "adjacency")]


def roundtrip(net, tag, tmp):
    for ext, fmt in FORMATS:
        path = os.path.join(tmp, f"{tag}.{ext}")
        before = net.graph.vs.attribute_names()
        attempt(f"save {tag} {fmt}", net.save, path)
        emit(before, net.graph.vs.attribute_names())
        state(net, f"{tag} after save {fmt}")
        loaded = attempt(f"Load {tag} {fmt}", Network.Load, path,
                         silence_level=2)
        if loaded is not None:
            state(loaded, f"{tag} loaded {fmt}")
            # representations agree with each other
            emit(loaded.N == net.N, loaded.n_links == net.n_links,
                 bool((loaded.adjacency == net.adjacency).all())
                 if loaded.N == net.N else None)
            c = attempt("copy loaded", loaded.copy)
            state(c, f"{tag} loaded {fmt} copy")
        # explicit fileformat and positional arguments
        path2 = os.path.join(tmp, f"{tag}.{ext}.dat")
        attempt(f"save2 {tag} {fmt}", net.save, path2, fmt)
        loaded = attempt(f"Load2 {tag} {fmt}", Network.Load, path2, fmt, 1)
        if loaded is not None:
            state(loaded, f"{tag} loaded2 {fmt}")
    attempt("save bad format", net.save, os.path.join(tmp, "x.unknownfmt"))
    attempt("Load missing", Network.Load, os.path.join(tmp, "missing.graphml"))
    attempt("Load bad kw", Network.Load, os.path.join(tmp, f"{tag}.graphml"),
            nonsense=3)
    attempt("save bad kw", net.save, os.path.join(tmp, f"{tag}.graphml"),
            nonsense=3)


def part_network(tmp):
    for tag, kwds in make_networks():
        net = attempt(f"build {tag}", Network, **kwds)
        if net is None:
            continue
        state(net, tag)
        c = attempt(f"copy {tag}", net.copy)
        state(c, tag + " copy")
        emit(c.sp_A is net.sp_A, c.node_weights is net.node_weights,
             c.graph is net.graph)
        u = attempt(f"undirected copy {tag}", net.undirected_copy)
        state(u, tag + " undirected copy")
        perm = np.random.default_rng(net.N).permutation(net.N)
        pc = attempt(f"permuted copy {tag}", net.permuted_copy, perm)
        state(pc, tag + " permuted copy")
        attempt(f"bad permuted copy {tag}", net.permuted_copy,
                np.zeros(net.N, dtype=int))
        attempt(f"short permuted copy {tag}", net.permuted_copy, [0])
        sc = attempt(f"splitted copy {tag}", net.splitted_copy)
        if sc is not None:
            state(sc, tag + " splitted copy")
        # copies are independent
        c.node_weights = np.arange(c.N) + 1.0
        state(net, tag + " after copy modified")
        # from igraph object of the network
        g = net.graph.copy()
        f = attempt(f"FromIGraph {tag}", Network.FromIGraph, g)
        state(f, tag + " from igraph")
        emit(f.graph is g)
        g = net.graph.copy()
        g.vs["node_weight_nsi"] = list(np.arange(net.N) * 0.5 + 0.25)
        g.vs["other"] = ["a"] * net.N
        if g.ecount():
            g.es["lw"] = list(np.arange(g.ecount()) * 1.5)
        f = attempt(f"FromIGraph w {tag}", Network.FromIGraph, g, 2)
        state(f, tag + " from igraph with weights")
        emit(f.graph is g)
        if net.N in (2, 5, 6, 7, 12) and "lil" not in tag:
            if net.graph.ecount():
                rng = np.random.default_rng(net.N)
                W = rng.random((net.N, net.N))
                if not net.directed:
                    W = W + W.T
                net.set_link_attribute("link_weights", W)
                net.set_node_attribute("label", [f"n{i}" for i in
                                                 range(net.N)])
            roundtrip(net, tag, tmp)
        # setters on a live object
        attempt("set adjacency", setattr, net, "adjacency",
                [[0, 1, 1], [1, 0, 0], [1, 0, 0]])
        state(net, tag + " new adjacency")
        attempt("set edge list", net.set_edge_list, [[0, 1], [3, 1]])
        state(net, tag + " new edge list")
        attempt("set edge list n", net.set_edge_list, [(0, 2)], 5)
        state(net, tag + " new edge list n")
        attempt("set edge list empty", net.set_edge_list, [])
        attempt("set edge list empty n", net.set_edge_list, [], 3)
        state(net, tag + " empty edge list n")
        attempt("set nonsquare", setattr, net, "adjacency", np.ones((2, 3)))
        emit(net.N, net.n_links, net.link_density, net.sp_A, net._mut_A)
        attempt("set 1x1", setattr, net, "adjacency", [[1]])
        emit(net.N, net.n_links, net.link_density, net.sp_A, net._mut_A,
             net.sp_dtype.__name__)
        attempt("set 0x0", setattr, net, "adjacency", np.zeros((0, 0)))
        emit(net.N, net.n_links, net.link_density, net.sp_A, net._mut_A)
        attempt("set weights none", setattr, net, "node_weights", None)
        emit(net.node_weights, net._mut_nw)
        attempt("set weights bad", setattr, net, "node_weights", [1.0])
        emit(net.node_weights, net._mut_nw)

    # igraph objects that were never networks
    graphs = [
        ("empty0", igraph.Graph(n=0)),
        ("empty3", igraph.Graph(n=3)),
        ("empty3d", igraph.Graph(n=3, directed=True)),
        ("ring", igraph.Graph.Ring(7)),
        ("star", igraph.Graph.Star(5, mode="out")),
        ("tree", igraph.Graph.Tree(10, 3)),
        ("multi", igraph.Graph(n=4, edges=[(0, 1), (0, 1), (2, 2), (3, 1)])),
        ("full", igraph.Graph.Full(4, directed=True)),
    ]
    for tag, g in graphs:
        f = attempt(f"FromIGraph {tag}", Network.FromIGraph, graph=g,
                    silence_level=1)
        if f is not None:
            state(f, "igraph " + tag)
            emit(f.graph is g)
            roundtrip(f, "ig_" + tag, tmp)
    g = igraph.Graph.Ring(4)
    g.vs["node_weight_nsi"] = ["a", "b", "c", "d"]
    attempt("FromIGraph string weights", Network.FromIGraph, g)
    g = igraph.Graph.Ring(4)
    g.vs["node_weight_nsi"] = [1, 2, 3, 4]
    f = attempt("FromIGraph int weights", Network.FromIGraph, g)
    state(f, "int weights")
    g = igraph.Graph.Ring(4)
    g.vs["node_weight_nsi"] = [1.0, None, 3.0, 4.0]
    f = attempt("FromIGraph none weights", Network.FromIGraph, g)
    if f is not None:
        state(f, "none weights")
    attempt("FromIGraph not a graph", Network.FromIGraph, 5)

    # a network whose weights were removed behind the setter's back
    net = Network.SmallTestNetwork()
    net._node_weights = None
    attempt("save without weights", net.save, os.path.join(tmp, "now.graphml"))
    emit(net.graph.vs.attribute_names())
    f = attempt("load without weights", Network.Load,
                os.path.join(tmp, "now.graphml"))
    state(f, "no weights loaded")
    c = attempt("copy without weights", net.copy)
    state(c, "copy without weights")
    c = attempt("undirected copy without weights", net.undirected_copy)
    state(c, "undirected copy without weights")
    attempt("permuted copy without weights", net.permuted_copy,
            [5, 4, 3, 2, 1, 0])

    for name in ("SmallTestNetwork", "SmallDirectedTestNetwork"):
        net = getattr(Network, name)()
        state(net, name)
        roundtrip(net, name, tmp)
        state(net.copy(), name + " copy")


def part_spatial(tmp):
    rng = np.random.default_rng(77)
    cases = []
    for cls, gridcls in ((SpatialNetwork, Grid), (GeoNetwork, GeoGrid)):
        cases.append((cls, gridcls, "small", cls.SmallTestNetwork()))
        grid = gridcls.SmallTestGrid()
        A = random_adjacency(rng, 6, 0.4, True)
        cases.append((cls, gridcls, "dir",
                      cls(grid=grid, adjacency=A, directed=True,
                          silence_level=2)))
        cases.append((cls, gridcls, "empty",
                      cls(grid=grid, adjacency=np.zeros((6, 6), dtype=int),
                          silence_level=2)))
        cases.append((cls, gridcls, "edges",
                      cls(grid=grid, edge_list=[[0, 5], [2, 5], [1, 4]],
                          silence_level=2)))
    geo = GeoNetwork(grid=GeoGrid.SmallTestGrid(),
                     adjacency=random_adjacency(rng, 6, 0.5, False),
                     node_weight_type="irrigation", silence_level=2)
    cases.append((GeoNetwork, GeoGrid, "irrig", geo))
    geo = attempt("geo verbose", GeoNetwork, grid=GeoGrid.SmallTestGrid(),
                  adjacency=random_adjacency(rng, 6, 0.5, False),
                  node_weight_type=None, silence_level=0)
    cases.append((GeoNetwork, GeoGrid, "unit", geo))

    for cls, gridcls, tag, net in cases:
        tag = cls.__name__ + "_" + tag
        state(net, tag)
        if net.graph.ecount():
            W = rng.random((net.N, net.N))
            if not net.directed:
                W = W + W.T
            net.set_link_attribute("dist", W)
        if tag.endswith("dir"):
            net.node_weights = rng.random(net.N) + 0.5
        for ext in ("graphml", "gml", "pickle", "edgelist"):
            fn = os.path.join(tmp, f"{tag}.{ext}")
            fg = os.path.join(tmp, f"{tag}.{ext}.grid")
            attempt(f"save {tag} {ext}", net.save, (fn, fg))
            state(net, f"{tag} after save {ext}")
            emit(os.path.exists(fn), os.path.exists(fg))
            for sl in (0, 2):
                loaded = attempt(f"Load {tag} {ext}", cls.Load, [fn, fg],
                                 silence_level=sl)
                if loaded is not None:
                    state(loaded, f"{tag} loaded {ext} {sl}")
                    state(loaded.copy(), f"{tag} loaded {ext} {sl} copy")
            loaded = attempt(f"Load {tag} {ext} fmt", cls.Load, (fn, fg), ext,
                             2)
            if loaded is not None:
                state(loaded, f"{tag} loaded {ext} fmt")
            # grid not stored
            fn2 = os.path.join(tmp, f"{tag}.nogrid.{ext}")
            attempt(f"save nogrid {tag}", net.save, (fn2, None), ext)
            emit(os.path.exists(fn2))
            attempt(f"Load nogrid {tag}", cls.Load, (fn2, None))
            attempt(f"Load missing grid {tag}", cls.Load,
                    (fn2, os.path.join(tmp, "nosuch.grid")))
            attempt(f"Load missing net {tag}", cls.Load,
                    (os.path.join(tmp, "nosuch." + ext), fg))
            # as plain network
            plain = attempt(f"Load plain {tag}", Network.Load, fn)
            if plain is not None:
                state(plain, f"{tag} plain {ext}")
        # malformed file name arguments
        for bad in ("ab", "abc", ("a",), ("a", "b", "c"), 5, None, [],
                    {"a": 1, "b": 2}):
            attempt(f"save bad {bad!r}", net.save, bad)
            attempt(f"Load bad {bad!r}", cls.Load, bad)
        attempt("save bad format", net.save,
                (os.path.join(tmp, "x.unknownfmt"), None))
        attempt("Load bad kw", cls.Load, (fn, fg), nonsense=1)
        attempt("save bad kw", net.save, (fn, fg), nonsense=1)
        # weight types
        if cls is GeoNetwork:
            for t in ("surface", "irrigation", None, "bogus", "surface"):
                attempt(f"weight type {t}", net.set_node_weight_type, t)
                emit(net.node_weight_type, net.node_weights,
                     net.total_node_weight, net.mean_node_weight, net._mut_nw)
        c = attempt("copy", net.copy)
        state(c, tag + " copy")
        c = attempt("undirected copy", net.undirected_copy)
        state(c, tag + " undirected copy")
        c = attempt("permuted copy", net.permuted_copy, [3, 1, 2, 5, 0, 4])
        state(c, tag + " permuted copy")

    # cross loading: geo file into spatial loader and vice versa
    g = GeoNetwork.SmallTestNetwork()
    fn, fg = os.path.join(tmp, "x.graphml"), os.path.join(tmp, "x.grid")
    g.save((fn, fg))
    s = attempt("spatial load of geo", SpatialNetwork.Load, (fn, fg))
    state(s, "spatial load of geo")
    s = SpatialNetwork.SmallTestNetwork()
    fn, fg = os.path.join(tmp, "y.graphml"), os.path.join(tmp, "y.grid")
    s.save((fn, fg))
    attempt("geo load of spatial", GeoNetwork.Load, (fn, fg))
    # file without the node weight attribute
    ig = igraph.Graph.Ring(6)
    fn = os.path.join(tmp, "ring.graphml")
    ig.write(fn)
    for cls, fg in ((SpatialNetwork, os.path.join(tmp, "y.grid")),
                    (GeoNetwork, os.path.join(tmp, "x.grid"))):
        n = attempt("load ring", cls.Load, (fn, fg), silence_level=2)
        state(n, cls.__name__ + " ring")
    # file with a node weight attribute of the wrong length cannot exist,
    # but one with non-numeric values can
    ig.vs["node_weight_nsi"] = list("abcdef")
    fn = os.path.join(tmp, "ringbad.graphml")
    ig.write(fn)
    for cls, fg in ((SpatialNetwork, os.path.join(tmp, "y.grid")),
                    (GeoNetwork, os.path.join(tmp, "x.grid"))):
        attempt("load ring bad", cls.Load, (fn, fg), silence_level=2)
    attempt("load ring bad plain", Network.Load, fn)
    # more nodes in the file than in the grid
    ig = igraph.Graph.Ring(8)
    fn = os.path.join(tmp, "ring8.graphml")
    ig.write(fn)
    for cls, fg in ((SpatialNetwork, os.path.join(tmp, "y.grid")),
                    (GeoNetwork, os.path.join(tmp, "x.grid"))):
        n = attempt("load ring8", cls.Load, (fn, fg), silence_level=2)
        if n is not None:
            state(n, cls.__name__ + " ring8")


def part_edge_lists():
    weird = [[1, 2], [[0, 1, 2]], [[0, 1], [2, 3]], [[0, 5]], [[-1, 2]],
             [[0.0, 1.0]], [[0, 1], [1, 0], [0, 1]], [[3, 3]], [[]], [[0]],
             np.zeros((0, 2)), np.zeros((2, 0)), [[[0, 1]]], "ab",
             [(2, 1), (1, 0)], np.array([[0, 4], [4, 2]], dtype=np.uint8)]
    for directed in (False, True):
        for n_nodes in (None, 3, 6):
            for k, el in enumerate(weird):
                tag = f"weird {k} {directed} {n_nodes}"
                net = attempt(tag, Network, edge_list=el, n_nodes=n_nodes,
                              directed=directed)
                if net is not None:
                    state(net, tag)
                live = Network(adjacency=[[0, 1], [0, 0]], directed=directed)
                attempt(tag + " live", live.set_edge_list, el, n_nodes)
                emit(live.N, live.n_links, live.link_density, live.sp_A,
                     live._mut_A, live.sp_dtype.__name__)
                graph_state(live.graph)
    # large node numbers switch the sparse data type (setter only, the
    # constructor would build dense matrices)
    for N in (32766, 32767, 32768):
        for directed in (False, True):
            net = Network(adjacency=[[0, 1], [1, 0]], directed=directed)
            net.set_edge_list([[0, N - 1], [5, 7]], N)
            emit(net.N, net.n_links, net.link_density, net.sp_dtype.__name__,
                 net.sp_A.dtype.name, net.sp_A.nnz, net.graph.get_edgelist(),
                 net._mut_A)
            A = sp.lil_matrix((N, N))
            A[3, N - 1] = A[N - 1, 3] = 1
            net.adjacency = A
            emit(net.N, net.n_links, net.link_density, net.sp_dtype.__name__,
                 net.sp_A.dtype.name, net.sp_A.nnz, net.graph.get_edgelist(),
                 net._mut_A)


def main():
    with tempfile.TemporaryDirectory() as tmp:
        TMP[0] = tmp
        part_network(tmp)
        part_spatial(tmp)
    part_edge_lists()
    text = "\n".join(LOG)
    # temp directory names are random
    if os.environ.get("EQUIV_DUMP"):
        with open(os.environ["EQUIV_DUMP"], "w", encoding="utf8") as f:
            f.write(text)
    print(len(LOG), H.hexdigest())


if __name__ == "__main__":
    main()
