"""Digest of the visibility-graph and adaptive-neighbourhood kernels."""
import hashlib

import numpy as np

from pyunicorn.timeseries._ext.numerics import (
    _visibility_relations_missingvalues,
    _visibility_relations_no_missingvalues,
    _visibility_relations_horizontal,
    _set_adaptive_neighborhood_size)
from pyunicorn.timeseries import VisibilityGraph, RecurrencePlot

h = hashlib.sha256()


def feed(tag, value):
    if isinstance(value, np.ndarray):
        h.update(f"{tag}:{value.dtype}:{value.shape}:".encode())
        h.update(np.ascontiguousarray(value).tobytes())
    else:
        h.update(f"{tag}:{value!r}".encode())


def run(tag, fun, *args, out=None):
    try:
        fun(*args)
        feed(tag, "ok")
    except Exception as e:  # pylint: disable=broad-except
        feed(tag, type(e).__name__ + ":" + str(e))
    if out is not None:
        feed(tag + "/out", out)


rng = np.random.RandomState(2020)

# --- visibility kernels, called directly ---------------------------------
for n in (0, 1, 2, 3, 4, 7, 20, 61):
    for variant in range(4):
        x = rng.standard_normal(n).astype(np.float32)
        t = np.arange(n, dtype=np.float32)
        if variant == 1:                      # ties and plateaus
            x = rng.randint(0, 3, n).astype(np.float32)
        elif variant == 2 and n > 2:          # irregular sampling, NaN / inf
            t = np.sort(rng.random_sample(n)).astype(np.float32)
            x[rng.randint(n)] = np.nan
            x[rng.randint(n)] = np.inf
        elif variant == 3 and n > 3:          # repeated time stamps
            t[n // 2] = t[n // 2 - 1]
        mv = rng.random_sample(n) < 0.2
        for N in sorted({n, max(n - 1, 0), n + 1, n + 3}):
            A = np.zeros((n, n), dtype=np.int8)
            run(f"vm{n},{variant},{N}", _visibility_relations_missingvalues,
                x, t, N, A, mv, out=A)
            A = np.zeros((n, n), dtype=np.int8)
            run(f"vn{n},{variant},{N}",
                _visibility_relations_no_missingvalues, x, t, N, A, out=A)
            A = np.zeros((n, n), dtype=np.int8)
            run(f"vh{n},{variant},{N}", _visibility_relations_horizontal,
                x, N, A, out=A)
        # short auxiliary arrays
        if n > 3:
            A = np.zeros((n, n), dtype=np.int8)
            run(f"vns{n},{variant}", _visibility_relations_no_missingvalues,
                x, t[:n - 2], n, A, out=A)
            A = np.zeros((n - 1, n), dtype=np.int8)
            run(f"vhs{n},{variant}", _visibility_relations_horizontal,
                x, n, A, out=A)
            A = np.zeros((n, n), dtype=np.int8)
            run(f"vms{n},{variant}", _visibility_relations_missingvalues,
                x, t, n, A, mv[:n // 2], out=A)

# --- visibility through the public class ---------------------------------
for n in (3, 10, 50):
    ts = rng.standard_normal(n)
    for kw in ({}, {"missing_values": True},
               {"timings": np.cumsum(rng.random_sample(n) + 0.1)},
               {"horizontal": True}):
        ts2 = ts.copy()
        if kw.get("missing_values"):
            ts2[n // 2] = np.nan
        try:
            vg = VisibilityGraph(ts2, silence_level=2, **kw)
            feed(f"VG{n},{sorted(kw)}", np.asarray(vg.adjacency))
        except Exception as e:  # pylint: disable=broad-except
            feed(f"VG{n},{sorted(kw)}", type(e).__name__)

# --- adaptive neighbourhood kernel ---------------------------------------
for n in (0, 1, 2, 5, 12, 30):
    d = rng.random_sample((n, n))
    d = d + d.T
    np.fill_diagonal(d, 0.0)
    sn = d.argsort(axis=1).astype(np.int32)
    for ans in (0, 1, 2, n // 2, n - 1, n, n + 2):
        if ans < 0:
            continue
        for order in (np.arange(n, dtype=np.int32),
                      rng.permutation(n).astype(np.int32)):
            R = np.zeros((n, n), dtype=np.int8)
            run(f"an{n},{ans}", _set_adaptive_neighborhood_size,
                n, ans, sn, order, R, out=R)
    # inconsistent sizes: n_time larger than the arrays, bad neighbour index
    R = np.zeros((n, n), dtype=np.int8)
    run(f"anb{n}", _set_adaptive_neighborhood_size,
        n + 2, 1, sn, np.arange(n + 2, dtype=np.int32), R, out=R)
    if n > 2:
        bad = sn.copy()
        bad[1, 1] = n + 5
        bad[2, 1] = -1
        R = np.zeros((n, n), dtype=np.int8)
        run(f"anc{n}", _set_adaptive_neighborhood_size,
            n, 2, bad, np.arange(n, dtype=np.int32), R, out=R)

for n, ans in ((20, 3), (40, 10), (15, 14)):
    ts = rng.standard_normal(n)
    try:
        rp = RecurrencePlot(ts, dim=2, tau=1, metric="supremum",
                            adaptive_neighborhood_size=ans, silence_level=2)
        feed(f"RP{n},{ans}", np.asarray(rp.R))
    except Exception as e:  # pylint: disable=broad-except
        feed(f"RP{n},{ans}", type(e).__name__)

print(h.hexdigest())
