"""Equivalence digest for twin_2 (mutual information: C kernel and
MutualInfoClimateNetwork._cython_calculate_mutual_information)."""
import hashlib
import io
import contextlib
import warnings

import numpy as np

from pyunicorn.core._ext.types import to_cy, FIELD
from pyunicorn.climate import ClimateData, MutualInfoClimateNetwork
from pyunicorn.climate._ext.numerics import mutual_information

warnings.simplefilter("ignore")
H = hashlib.sha256()
COUNT = [0]


def feed(tag, value):
    if isinstance(value, np.ndarray):
        payload = (str(value.dtype) + str(value.shape)).encode() \
            + np.ascontiguousarray(value).tobytes()
    else:
        payload = repr(value).encode()
    H.update(tag.encode() + b"|" + payload + b"\n")
    COUNT[0] += 1


def call(tag, fn, *args, **kwargs):
    out = io.StringIO()
    try:
        with contextlib.redirect_stdout(out):
            res = fn(*args, **kwargs)
    except Exception as e:  # pylint: disable=broad-except
        res = "EXC:" + type(e).__name__
    feed(tag, res)
    feed(tag + ":stdout", out.getvalue())
    return res


rng = np.random.default_rng(606)

# 1. the compiled kernel on its own ------------------------------------------
for N in (0, 1, 2, 3, 7, 16):
    for n_samples in (1, 2, 5, 33, 200):
        for n_bins in (0, 1, 2, 5, 32, 64):
            kind = (N + n_samples + n_bins) % 3
            if kind == 0:
                x = rng.standard_normal((N, n_samples))
            elif kind == 1:
                x = rng.integers(-3, 4, (N, n_samples)).astype(float)
            else:
                x = rng.random((N, n_samples)) ** 3
            if x.size:
                lo, hi = float(x.min()), float(x.max())
            else:
                lo, hi = 0.0, 1.0
            scaling = 1. / (hi - lo) if hi > lo else 1.0
            arr = to_cy(x, FIELD)
            before = arr.copy()
            tag = f"k:{N}:{n_samples}:{n_bins}"
            call(tag, mutual_information, arr, n_samples, N, n_bins,
                 scaling, lo)
            # repeated on the same input: equal value, input untouched
            call(tag + ":again", mutual_information, arr, n_samples, N,
                 n_bins, scaling, lo)
            feed(tag + ":input", np.array_equal(arr, before))
            feed(tag + ":inputbytes", arr)

# 2. the method, through a real network object --------------------------------
with contextlib.redirect_stdout(io.StringIO()):
    cd = ClimateData.SmallTestData()
    net = MutualInfoClimateNetwork(cd, threshold=0.2, winter_only=False,
                                   silence_level=0)
    quiet = MutualInfoClimateNetwork(cd, threshold=0.2, winter_only=False,
                                     silence_level=2)

feed("net:similarity", net.similarity_measure())
feed("net:adjacency", net.adjacency)
anom0 = cd.anomaly().copy()
for n_time in (2, 3, 10, 57):
    for n_nodes in (1, 2, 6, 11):
        for order in ("C", "F"):
            for dtype in ("float64", "float32"):
                a = np.asarray(rng.standard_normal((n_time, n_nodes)),
                               dtype=dtype, order=order)
                if (n_time + n_nodes) % 4 == 0:
                    a[:, 0] = 1.5      # zero variance series
                keep = a.copy()
                for obj, name in ((net, "loud"), (quiet, "quiet")):
                    for nb in (None, 1, 4, 32):
                        tag = f"m:{n_time}:{n_nodes}:{order}:{dtype}:" \
                              f"{name}:{nb}"
                        if nb is None:
                            call(tag, obj._cython_calculate_mutual_information,
                                 a)
                            call(tag + ":sim",
                                 obj.calculate_similarity_measure, a)
                        else:
                            call(tag, obj._cython_calculate_mutual_information,
                                 a, n_bins=nb)
                        feed(tag + ":input", np.array_equal(a, keep))
                        feed(tag + ":flags", (a.flags.c_contiguous,
                                              a.flags.f_contiguous))
# non-contiguous view, shared anomaly of the data object, odd inputs
big = rng.standard_normal((40, 12))
view = big[::2, ::3]
call("view", net._cython_calculate_mutual_information, view)
feed("view:base", big)
call("anomaly", net._cython_calculate_mutual_information, cd.anomaly())
feed("anomaly:unchanged", np.array_equal(cd.anomaly(), anom0))
feed("anomaly:value", cd.anomaly())
call("const", net._cython_calculate_mutual_information, np.ones((5, 3)))
call("nan", net._cython_calculate_mutual_information,
     np.array([[np.nan, 1.0], [2.0, 3.0], [0.5, 0.1]]))
call("1d", net._cython_calculate_mutual_information, np.arange(5.0))
call("3d", net._cython_calculate_mutual_information, np.ones((2, 2, 2)))
call("empty", net._cython_calculate_mutual_information, np.zeros((0, 3)))
call("empty2", net._cython_calculate_mutual_information, np.zeros((3, 0)))
call("list", net._cython_calculate_mutual_information, [[1.0, 2.0]])
call("int", net._cython_calculate_mutual_information,
     np.arange(12).reshape(4, 3))
call("zero_bins", net._cython_calculate_mutual_information,
     rng.standard_normal((6, 3)), n_bins=0)
feed("net:similarity:after", net.similarity_measure())
feed("net:adjacency:after", net.adjacency)

print(COUNT[0], H.hexdigest())
