"""Equivalence digest for twin_3 (pairwise ES and ECA kernels)."""
import hashlib
import warnings

import numpy as np

from pyunicorn.eventseries import EventSeries

H = hashlib.sha256()


def put(tag, val):
    if isinstance(val, np.ndarray):
        H.update(f"{tag}|{val.dtype}|{val.shape}|".encode())
        H.update(np.ascontiguousarray(val).tobytes())
    elif isinstance(val, tuple):
        H.update(f"{tag}|tuple{len(val)}".encode())
        for k, v in enumerate(val):
            put(f"{tag}.{k}", v)
    elif isinstance(val, (float, np.floating)):
        H.update(f"{tag}|{type(val).__name__}|{float(val).hex()}".encode())
    else:
        H.update(f"{tag}|{type(val).__name__}|{val!r}".encode())


def attempt(tag, fun):
    with warnings.catch_warnings():
        warnings.simplefilter("ignore")
        try:
            put(tag, fun())
        except Exception as exc:  # pylint: disable=broad-except
            put(tag + "!exc", (type(exc).__name__, str(exc)))


ES = EventSeries.event_synchronization
ECA = EventSeries.event_coincidence_analysis
rng = np.random.RandomState(31616)


def series_pairs():
    for T, px, py in [(30, .3, .3), (60, .2, .4), (100, .1, .1),
                      (50, .6, .5), (40, .9, .9), (80, .05, .3),
                      (25, .4, .04)]:
        for _ in range(4):
            yield ((rng.rand(T) < px).astype(int),
                   (rng.rand(T) < py).astype(int))
    # identical series -> many equal-time events and double counts
    x = (rng.rand(45) < .4).astype(int)
    yield x, x.copy()
    yield x, np.roll(x, 1)
    yield x, 1 - x
    # alternating
    a = np.zeros(40, dtype=int)
    a[::2] = 1
    yield a, 1 - a
    yield a, a
    # few events
    for nx in range(0, 5):
        for ny in range(0, 5):
            x = np.zeros(20, dtype=int)
            y = np.zeros(20, dtype=int)
            x[rng.choice(20, nx, replace=False)] = 1
            y[rng.choice(20, ny, replace=False)] = 1
            yield x, y
    # other dtypes
    x = rng.rand(35) < .3
    y = rng.rand(35) < .3
    yield x, y
    yield x.astype(float), y.astype(np.int8)


case = 0
for x, y in series_pairs():
    case += 1
    T = len(x)
    ts_sets = [(None, None),
               (np.arange(T, dtype=float), np.arange(T, dtype=float)),
               (np.cumsum(rng.randint(1, 4, T)).astype(float),
                np.cumsum(rng.randint(1, 4, T)).astype(float)),
               (np.sort(rng.rand(T)) * 50, np.sort(rng.rand(T)) * 50),
               (np.arange(T), None),
               (np.repeat(np.arange(T // 2 + 1), 2)[:T].astype(float),
                np.repeat(np.arange(T // 2 + 1), 2)[:T].astype(float))]
    for k, (t1, t2) in enumerate(ts_sets):
        for taumax, lag in [(np.inf, 0.0), (3.0, 0.0), (1, 0), (2, 1),
                            (0.5, 0.25), (0, 0), (4.0, -1.0), (10, 2.5),
                            (0.0, 1.0)]:
            tag = f"{case}/{k}/{taumax}/{lag}"
            attempt("ES" + tag, lambda: ES(x, y, ts1=t1, ts2=t2,
                                           taumax=taumax, lag=lag))
            attempt("ESr" + tag, lambda: ES(y, x, ts1=t2, ts2=t1,
                                            taumax=taumax, lag=lag))
            attempt("ECA" + tag, lambda: ECA(x, y, taumax, ts1=t1, ts2=t2,
                                             lag=lag))
            attempt("ECAr" + tag, lambda: ECA(y, x, taumax, ts1=t2, ts2=t1,
                                              lag=lag))
    put(f"{case}/untouched", (x.copy(), y.copy()))

# defaults
x = (rng.rand(50) < .3).astype(int)
y = (rng.rand(50) < .3).astype(int)
attempt("ESdefault", lambda: ES(x, y))
attempt("ECAdefault", lambda: ECA(x, y, 2))
# malformed input: exception types must agree as well
attempt("ES2d", lambda: ES(np.eye(6, dtype=int), np.eye(6, dtype=int)))
attempt("ES2d1d", lambda: ES(np.ones((4, 5), dtype=int), x))
attempt("ECA2d", lambda: ECA(np.eye(6, dtype=int), np.eye(6, dtype=int), 1))
attempt("ESstr", lambda: ES(x, y, taumax='a'))
attempt("ECAstr", lambda: ECA(x, y, 'a'))
attempt("ESts2d", lambda: ES(x, y, ts1=np.arange(100.).reshape(50, 2),
                             ts2=np.arange(100.).reshape(50, 2)))
attempt("ECAempty", lambda: ECA(np.zeros(5, int), np.zeros(5, int), 0))
attempt("ECAemptyx", lambda: ECA(np.zeros(5, int), np.ones(5, int), 0))

# matrix level (uses both kernels through the instance)
for T, N, p in [(40, 4, .3), (70, 5, .2), (30, 3, .5)]:
    mat = (rng.rand(T, N) < p).astype(int)
    ts = np.cumsum(rng.randint(1, 3, T)).astype(float)
    for taumax, lag in [(np.inf, 0.0), (3.0, 1.0), (2.0, 0.0)]:
        es = EventSeries(mat, timestamps=ts, taumax=taumax, lag=lag)
        for sym in ('directed', 'symmetric', 'antisym', 'mean', 'max',
                    'min'):
            attempt(f"M{T}{taumax}{lag}{sym}", lambda: (
                es.event_series_analysis(method='ES', symmetrization=sym)))
        for w in ('retarded', 'advanced', 'symmetric'):
            attempt(f"M{T}{taumax}{lag}{w}", lambda: (
                es.event_series_analysis(method='ECA', window_type=w)))
        np.random.seed(7)
        attempt(f"S{T}{taumax}{lag}", lambda: es.event_analysis_significance(
            method='ES', n_surr=5))

print(H.hexdigest())
