"""Equivalence digest for the compiled embedding and distance kernels."""
import hashlib
import io
import contextlib

import numpy as np

from pyunicorn.timeseries import RecurrencePlot, RecurrenceNetwork, \
    JointRecurrencePlot
from pyunicorn.timeseries._ext import numerics as ext

H = hashlib.sha256()


def put(tag, obj):
    H.update(tag.encode())
    if isinstance(obj, np.ndarray):
        H.update(str(obj.dtype).encode())
        H.update(str(obj.shape).encode())
        H.update(np.ascontiguousarray(obj).tobytes())
    else:
        H.update(repr(obj).encode())


def attempt(tag, fn):
    out = io.StringIO()
    try:
        with contextlib.redirect_stdout(out):
            res = fn()
    except BaseException as e:  # noqa
        put(tag + ".exc", type(e).__name__ + ":" + str(e))
        res = None
    put(tag + ".out", out.getvalue())
    return res


rng = np.random.RandomState(987654321)
kernels = ("_manhattan_distance_matrix_rp", "_euclidean_distance_matrix_rp",
           "_supremum_distance_matrix_rp")

#  1. distance kernels called directly
case = 0
for n in (0, 1, 2, 3, 17, 64):
    for d in (0, 1, 2, 5):
        case += 1
        emb = rng.standard_normal((n, d)) * 10.0 ** rng.randint(-3, 4)
        variants = {"c": emb,
                    "f": np.asfortranarray(emb),
                    "strided": np.repeat(np.repeat(emb, 2, 0), 3, 1)[::2, ::3],
                    "nan": emb.copy(), "inf": emb.copy(),
                    "tiny": emb * 1e-310, "huge": emb * 1e300}
        if emb.size:
            variants["nan"].flat[rng.randint(emb.size)] = np.nan
            variants["inf"].flat[rng.randint(emb.size)] = np.inf
            variants["inf"].flat[rng.randint(emb.size)] = -np.inf
        for vn, v in variants.items():
            for kn in kernels:
                tag = f"k{case}{vn}{kn}"
                res = attempt(tag, lambda: getattr(ext, kn)(n, d, v))
                put(tag, res)
        #  n_time / dim arguments that disagree with the array
        for kn in kernels:
            for (nn, dd) in ((n + 1, d), (n, d + 1), (n - 1, d), (n, d - 1),
                             (-1, d), (n, -2)):
                tag = f"m{case}{kn}{nn},{dd}"
                res = attempt(tag, lambda: getattr(ext, kn)(nn, dd, emb))
                put(tag, res)
    #  wrong dtypes / ranks
    for kn in kernels:
        attempt(f"dt{n}{kn}", lambda: getattr(ext, kn)(
            n, 1, np.zeros((n, 1), dtype="float32")))
        attempt(f"rk{n}{kn}", lambda: getattr(ext, kn)(n, 1, np.zeros(n)))
        attempt(f"none{n}{kn}", lambda: getattr(ext, kn)(n, 1, None))

#  2. embedding kernel called directly
for n in (1, 2, 10, 33):
    ts = rng.standard_normal(n).astype("float32")
    for dim in (0, 1, 2, 3, 6):
        for tau in (-2, -1, 0, 1, 2, 5):
            for extra in (0, 1, -1):
                rows = n - (dim - 1) * tau + extra
                if rows < 0:
                    continue
                tag = f"e{n},{dim},{tau},{extra}"
                out = np.full((rows, max(dim, 0)), -7.0, dtype="float32")
                attempt(tag, lambda: ext._embed_time_series(
                    n, dim, tau, ts, out))
                put(tag, out)
                out = np.full((rows, max(dim, 0)), -7.0, dtype="float32")
                attempt(tag + "s", lambda: ext._embed_time_series(
                    n, dim, tau, np.repeat(ts, 2)[::2], out))
                put(tag + "s", out)
            tag = f"E{n},{dim},{tau}"
            res = attempt(tag,
                          lambda: RecurrencePlot.embed_time_series(ts, dim, tau))
            put(tag, res)

#  3. through the public classes
metrics = ("manhattan", "euclidean", "supremum")
modes = (dict(threshold=0.8), dict(threshold_std=0.4),
         dict(recurrence_rate=0.2), dict(local_recurrence_rate=0.1),
         dict(adaptive_neighborhood_size=2))
case = 0
for n in (4, 25, 70):
    for d in (1, 4):
        ts = rng.standard_normal((n, d))
        tsn = ts.copy()
        tsn[rng.randint(0, n, size=2)] = np.nan
        for metric in metrics:
            for mode in modes:
                for missing in (False, True):
                    case += 1
                    tag = f"p{case}"
                    kw = dict(metric=metric, silence_level=2,
                              missing_values=missing, **mode)
                    if d == 1 and n > 4:
                        kw.update(dim=3, tau=case % 4 + 1)
                    src = tsn if missing else ts
                    rp = attempt(tag, lambda: RecurrencePlot(src, **kw))
                    if rp is None:
                        continue
                    put(tag + "R", rp.R)
                    put(tag + "E", rp.embedding)
                    put(tag + "D", rp.distance_matrix(metric))
                    attempt(tag + "q", lambda: put(tag + "q", (
                        rp.recurrence_rate(), rp.determinism(),
                        rp.laminarity(), rp.diag_entropy())))
            rn = attempt(f"n{n}{d}{metric}", lambda: RecurrenceNetwork(
                ts, metric=metric, recurrence_rate=0.1, silence_level=2))
            put(f"n{n}{d}{metric}A", rn.adjacency)
        j = attempt(f"j{n}{d}", lambda: JointRecurrencePlot(
            ts, ts[::-1].copy(), metric=("euclidean", "manhattan"),
            threshold=(0.9, 1.2), lag=1, silence_level=2))
        put(f"j{n}{d}", j.JR)

print(H.hexdigest())
