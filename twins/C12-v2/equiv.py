"""Equivalence digest for Grid / GeoGrid python level geometry (C12)."""
import hashlib
import warnings
from fractions import Fraction
import numpy as np

from pyunicorn.core.grid import Grid
from pyunicorn.core.geo_grid import GeoGrid

warnings.simplefilter("ignore")
h = hashlib.sha256()


def feed(tag, obj):
    h.update(tag.encode())
    if isinstance(obj, (tuple, list)):
        h.update(type(obj).__name__.encode())
        for k, o in enumerate(obj):
            feed(f"{tag}[{k}]", o)
    elif isinstance(obj, np.ndarray):
        h.update(str(obj.dtype).encode())
        h.update(str(obj.shape).encode())
        h.update(np.ascontiguousarray(obj).tobytes())
    else:
        h.update((type(obj).__name__ + repr(obj)).encode())


def attempt(tag, fn, *args, **kwargs):
    try:
        res = fn(*args, **kwargs)
    except Exception as e:  # pylint: disable=broad-except
        feed(tag + ":exc", (type(e).__name__, str(e)))
        return None
    feed(tag, res)
    return res


rng = np.random.RandomState(1212)

# --- rectangular grids ---------------------------------------------------
axes_sets = [
    [np.array([0., 5.]), np.array([1., 2.])],
    [np.linspace(-90, 90, 5), np.linspace(0, 357.5, 7)],
    [np.array([3.])],
    [np.arange(3), np.arange(4.), np.array([7, 8], dtype=np.float32)],
    [np.arange(2), np.arange(3), np.arange(2), np.arange(5)],
    [np.array([]), np.arange(3.)],
    np.array([[0., 5.], [1., 2.]]),
    [[1, 2, 3], (4., 5.)],
    [],
    [np.arange(4).reshape(2, 2), np.arange(3)],
]
for k, axes in enumerate(axes_sets):
    attempt(f"rect{k}", Grid.coord_sequence_from_rect_grid, axes)
    attempt(f"rectkw{k}", Grid.coord_sequence_from_rect_grid, space_grid=axes)
    if len(axes) == 2:
        attempt(f"georect{k}", GeoGrid.coord_sequence_from_rect_grid,
                axes[0], axes[1])
        g = attempt(f"RegularGrid{k}", lambda a=axes: GeoGrid.RegularGrid(
            np.arange(2.), a[0], a[1], 2).grid()["lat"])
    g = attempt(f"GridRegular{k}", lambda a=axes: Grid.RegularGrid(
        np.arange(2.), a, 2).grid()["space"])
attempt("rectnone", Grid.coord_sequence_from_rect_grid, None)

# --- Grid.node_number -------------------------------------------------------
for d in (1, 2, 3, 5):
    for N in (1, 2, 9, 50):
        space = rng.standard_normal((d, N)) * 30
        if N >= 9:
            space[:, 4] = space[:, 2]          # tie
        g = Grid(np.arange(3.), space, 2)
        pts = [tuple(rng.standard_normal(d) * 30) for _ in range(6)]
        pts.append(tuple(g._grid["space"][:, min(2, N - 1)]))  # exact node
        pts.append(list(rng.standard_normal(d)))
        pts.append(np.array(rng.standard_normal(d), dtype=np.float32))
        pts.append(tuple([np.nan] * d))
        pts.append(tuple([np.inf] * d))
        pts.append(tuple(int(v) for v in rng.randint(-40, 40, d)))
        for k, p in enumerate(pts):
            attempt(f"nn{d}_{N}_{k}", g.node_number, p)
            attempt(f"nnkw{d}_{N}_{k}", g.node_number, x=p)
        attempt(f"nnbad{d}_{N}", g.node_number, tuple(range(d + 1)))
        attempt(f"nnscalar{d}_{N}", g.node_number, 1.5)
        attempt(f"nnstr{d}_{N}", g.node_number, "ab")
        attempt(f"nnnone{d}_{N}", g.node_number, None)
        attempt(f"nn2d{d}_{N}", g.node_number, np.zeros((N, d)))
        attempt(f"euc{d}_{N}", g.euclidean_distance)
attempt("nnsmall", Grid.SmallTestGrid().node_number, x=(14., 9.))

# --- GeoGrid -------------------------------------------------------------
grids = [GeoGrid.SmallTestGrid()]
for N in (1, 2, 7, 60):
    lat = rng.uniform(-90, 90, N)
    lon = rng.uniform(-180, 180, N) if N % 2 else rng.uniform(0, 360, N)
    if N >= 7:
        lat[3], lon[3] = lat[1], lon[1]                 # tie
        lat[5], lon[5] = -lat[1], lon[1] + 180          # antipode
    grids.append(GeoGrid(np.arange(3.), lat, lon, 2))
lat_g, lon_g = GeoGrid.coord_sequence_from_rect_grid(
    np.linspace(-90, 90, 7), np.linspace(0, 330, 12))
grids.append(GeoGrid(np.arange(2.), lat_g, lon_g, 2))

regions = [
    np.array([0., 0., 0., 11., 11., 11., 11., 0.]),
    np.array([-170., -80., -170., 80., 170., 80., 170., -80.]),
    np.array([-30., -20., 40., -25., 60., 50., -10., 60., -50., 10.]),
    np.array([-30, -20, 40, -25, 60, 50, -10, 60]),
    np.array([10., 10., 200., 10., 200., 80., 10., 80., 5.]),   # odd length
    np.array([]),
    np.array([-1., 2.]),
    [0., 0., 0., 11., 11., 11., 11., 0.],
    np.array([[-5., 0.], [0., 11.], [11., 11.], [11., 0.]]),
    None,
]

for gi, gg in enumerate(grids):
    N = gg.N
    pts = [(14., 9.), (0., 0.), (90., 0.), (-90., 123.), (45, -170),
           (np.float32(12.5), np.float64(200.)), (Fraction(1, 3), 2),
           (100., 400.), (np.nan, 0.), (0., np.inf), (True, False)]
    pts += [tuple(p) for p in np.c_[rng.uniform(-90, 90, 8),
                                    rng.uniform(-180, 360, 8)]]
    pts.append((float(gg.lat_sequence()[N // 2]),
                float(gg.lon_sequence()[N // 2])))
    for k, (la, lo) in enumerate(pts):
        attempt(f"gnn{gi}_{k}", gg.node_number, la, lo)
        attempt(f"gnnkw{gi}_{k}", gg.node_number, lon_node=lo, lat_node=la)
    attempt(f"gnnstr{gi}", gg.node_number, "a", 1.)
    attempt(f"gnnstr2{gi}", gg.node_number, 1., "a")
    attempt(f"gnnnone{gi}", gg.node_number, None, None)
    attempt(f"gnnlist{gi}", gg.node_number, [1., 2.], 3.)
    attempt(f"gnnarr{gi}", gg.node_number, np.full(N, 10.), np.full(N, 20.))
    attempt(f"gnnarr2{gi}", gg.node_number, np.full((2, N), 10.), 5.)
    attempt(f"gnnarrbad{gi}", gg.node_number, np.full(N + 1, 10.), 5.)
    attempt(f"gnncplx{gi}", gg.node_number, 1 + 2j, 5.)
    attempt(f"gang{gi}", gg.angular_distance)
    attempt(f"gang_again{gi}", gg.angular_distance)
    attempt(f"gdist{gi}", gg.distance)
    attempt(f"gcos{gi}", gg.cos_lat)
    attempt(f"gsin{gi}", gg.sin_lat)
    attempt(f"gcosl{gi}", gg.cos_lon)
    attempt(f"gsinl{gi}", gg.sin_lon)
    for ri, reg in enumerate(regions):
        before = None if not isinstance(reg, np.ndarray) else reg.copy()
        attempt(f"reg{gi}_{ri}", gg.region_indices, reg)
        if before is not None:
            feed(f"reg_unchanged{gi}_{ri}", reg)   # input must not be edited
            assert np.array_equal(before, reg)
    feed(f"state{gi}", sorted(gg.__dict__))
    feed(f"space{gi}", gg._grid["space"])


# subclasses overriding the public trigonometric accessors
class Odd(GeoGrid):
    calls = []

    def cos_lat(self):
        Odd.calls.append("cos_lat")
        return GeoGrid.cos_lat(self)

    def sin_lat(self):
        Odd.calls.append("sin_lat")
        return GeoGrid.sin_lat(self)

    def cos_lon(self):
        Odd.calls.append("cos_lon")
        return GeoGrid.cos_lon(self)

    def sin_lon(self):
        Odd.calls.append("sin_lon")
        return GeoGrid.sin_lon(self)


odd = Odd(np.arange(2.), rng.uniform(-90, 90, 5), rng.uniform(0, 360, 5), 2)
attempt("odd_nn", odd.node_number, 10., 20.)
attempt("odd_ang", odd.angular_distance)
attempt("odd_nn_bad", odd.node_number, "x", 20.)
feed("odd_calls", Odd.calls)


class Broken(GeoGrid):
    def sin_lat(self):
        return [0.] * self.N          # not an array

    def cos_lon(self):
        raise RuntimeError("cos_lon")


br = Broken(np.arange(2.), rng.uniform(-90, 90, 4), rng.uniform(0, 360, 4), 2)
attempt("br_nn", br.node_number, 10., 20.)
attempt("br_ang", br.angular_distance)

print(h.hexdigest())
