"""Equivalence digest for the twin search and twin walk kernels.

Run as:  PYTHONPATH=<worktree>/src /venv/bin/python equiv.py
Prints one sha256 digest; must be identical on pristine and refactored tree.
"""
import contextlib
import hashlib
import io
import os
import random as pyrandom
import sys
import warnings

import numpy as np

from pyunicorn.core._ext.types import ADJ, DEGREE, LAG, NODE, DFIELD
from pyunicorn.timeseries._ext.numerics import \
    _twins_s, _twin_surrogates_s, _twins_r, _twin_surrogates_r
from pyunicorn.timeseries.surrogates import Surrogates
from pyunicorn.timeseries.recurrence_plot import RecurrencePlot

warnings.simplefilter("ignore")
H = hashlib.sha256()

# `_twin_surrogates_r` re-seeds Python's generator from OS entropy; make that
# deterministic (and count the calls) so that results can be compared.
_orig_seed = pyrandom.seed
SEED_CALLS = [0]


def _fixed_seed(*args, **kwargs):
    SEED_CALLS[0] += 1
    if args or kwargs:
        return _orig_seed(*args, **kwargs)
    return _orig_seed(99991 + SEED_CALLS[0])


pyrandom.seed = _fixed_seed


def feed(tag, obj):
    H.update(repr(tag).encode())
    if isinstance(obj, tuple):
        H.update(b"tuple%d" % len(obj))
        for k, o in enumerate(obj):
            feed((tag, k), o)
    elif isinstance(obj, np.ndarray):
        H.update(str(obj.dtype).encode())
        H.update(repr(obj.shape).encode())
        H.update(repr((obj.flags.c_contiguous, obj.flags.writeable)).encode())
        H.update(np.ascontiguousarray(obj).tobytes())
    else:
        H.update(repr(obj).encode())


def rng_state(tag):
    feed((tag, "py-state"), pyrandom.getstate()[1][:6])
    feed((tag, "py-pos"), pyrandom.getstate()[1][-1])
    feed((tag, "np-pos"), int(np.random.get_state()[2]))
    feed((tag, "seed-calls"), SEED_CALLS[0])


def attempt(tag, fn):
    try:
        res = fn()
    except BaseException as exc:  # pylint: disable=broad-except
        feed((tag, "exc"), type(exc).__name__)
        if os.environ.get("EQUIV_VERBOSE"):
            print("EXC", tag, type(exc).__name__, exc, file=sys.stderr)
        return None
    feed((tag, "ok"), res)
    return res


def series():
    rs = np.random.RandomState(777)
    t = np.arange(120)
    yield "sine", np.vstack([np.sin(t * np.pi / 10. + p) for p in (0., .7)])
    yield "small", Surrogates.SmallTestData().original_data[:3, :90]
    yield "steps", rs.randint(0, 3, size=(3, 70)).astype(float)
    yield "noise", rs.randn(2, 50)
    yield "const", np.ones((2, 30))
    yield "single", np.sin(np.arange(40.) / 3.)[None, :]
    yield "tiny", rs.randn(2, 3)
    yield "ints", rs.randint(0, 5, size=(2, 45))


def fresh_rp(n_time):
    return (np.empty((n_time, n_time), dtype=ADJ),
            np.empty(n_time, dtype=DEGREE))


# ---------------------------------------------------------------------------
# 1. twin search kernel of Surrogates, direct calls
# ---------------------------------------------------------------------------
for name, data in series():
    data = np.asarray(data, dtype=DFIELD)
    for (dim, delay) in ((1, 0), (2, 1), (3, 2)):
        if data.shape[1] - (dim - 1) * delay < 1:
            continue
        emb = Surrogates.embed_time_series_array(data, dim, delay,
                                                 silence_level=2)
        N, n_time = emb.shape[0], emb.shape[1]
        for thr in (0., .05, .3, 1.5, np.inf, np.nan, -1.):
            for min_dist in (7, 0, 1, 3, n_time, n_time + 5, -1, -3):
                R, nR = fresh_rp(n_time)
                R[:] = 5
                nR[:] = -7
                tw = ["sentinel"] if (min_dist == 3) else []
                tag = (name, "twins_s", dim, delay, thr, min_dist)
                attempt(tag, lambda: _twins_s(N, n_time, dim, thr, min_dist,
                                              emb, R, nR, tw))
                feed((tag, "twins"), tw)
                feed((tag, "R"), R)
                feed((tag, "nR"), nR)

    # inconsistent sizes passed to the kernel
    emb = Surrogates.embed_time_series_array(data, 1, 0, silence_level=2)
    N, n_time = emb.shape[0], emb.shape[1]
    cases = {
        "N+1": (N + 1, n_time, 1, n_time, n_time),
        "T+1": (N, n_time + 1, 1, n_time, n_time),
        "T-1": (N, n_time - 1, 1, n_time, n_time),
        "D+1": (N, n_time, 2, n_time, n_time),
        "D0": (N, n_time, 0, n_time, n_time),
        "R-small": (N, n_time, 1, n_time - 1, n_time),
        "nR-small": (N, n_time, 1, n_time, n_time - 1),
        "N0": (0, n_time, 1, n_time, n_time),
        "T0": (N, 0, 1, n_time, n_time),
        "neg": (N, -2, 1, n_time, n_time),
    }
    for cname, (a_N, a_T, a_D, r_len, nr_len) in cases.items():
        R = np.full((max(r_len, 0), max(r_len, 0)), 3, dtype=ADJ)
        nR = np.full(max(nr_len, 0), 9, dtype=DEGREE)
        tw = []
        tag = (name, "twins_s-bad", cname)
        attempt(tag, lambda: _twins_s(a_N, a_T, a_D, .3, 2, emb, R, nR, tw))
        feed((tag, "twins"), tw)
        feed((tag, "R"), R)
        feed((tag, "nR"), nR)
    attempt((name, "twins_s-notlist"),
            lambda: _twins_s(N, n_time, 1, .3, 2, emb, *fresh_rp(n_time),
                             None))
    attempt((name, "twins_s-tuple"),
            lambda: _twins_s(N, n_time, 1, .3, 2, emb, *fresh_rp(n_time),
                             ()))

# ---------------------------------------------------------------------------
# 2. twin search kernel of RecurrencePlot, direct calls
# ---------------------------------------------------------------------------
rs = np.random.RandomState(31337)
for name, n in (("rp-a", 30), ("rp-b", 61), ("rp-1", 1), ("rp-2", 2)):
    for variant in ("blocks", "random", "ones", "eye", "asym"):
        if variant == "blocks":
            lab = rs.randint(0, 3, size=n)
            Rm = (lab[:, None] == lab[None, :])
        elif variant == "random":
            Rm = rs.rand(n, n) < .5
            Rm = Rm | Rm.T | np.eye(n, dtype=bool)
        elif variant == "ones":
            Rm = np.ones((n, n), dtype=bool)
        elif variant == "eye":
            Rm = np.eye(n, dtype=bool)
        else:
            Rm = rs.rand(n, n) < .7
        Rm = Rm.astype(LAG)
        nRm = Rm.sum(axis=0).astype(NODE)
        for min_dist in (7, 0, 2, n, -1, -4):
            for n_arg in (n, n - 1, n + 1, 0):
                tw = []
                tag = (name, variant, "twins_r", min_dist, n_arg)
                Rc, nRc = Rm.copy(), nRm.copy()
                attempt(tag, lambda: _twins_r(min_dist, n_arg, Rc, nRc, tw))
                feed((tag, "twins"), tw)
                feed((tag, "R"), Rc)
                feed((tag, "nR"), nRc)
        # wrong neighbour counts (kernel must behave identically anyway)
        tw = []
        bad = np.full(n, 4, dtype=NODE)
        attempt((name, variant, "twins_r-badnR"),
                lambda: _twins_r(1, n, Rm.copy(), bad, tw))
        feed((name, variant, "twins_r-badnR", "twins"), tw)
        short = nRm[:max(n - 2, 0)].copy()
        tw = [[1, 2]]
        attempt((name, variant, "twins_r-short"),
                lambda: _twins_r(1, n, Rm.copy(), short, tw))
        feed((name, variant, "twins_r-short", "twins"), tw)

# ---------------------------------------------------------------------------
# 3. twin walk kernels, direct calls with hand-made twin lists
# ---------------------------------------------------------------------------


def twin_lists(n, kind, rs_):
    if kind == "none":
        return [[] for _ in range(n)]
    if kind == "pairs":
        tw = [[] for _ in range(n)]
        for a in range(0, n - 9, 5):
            tw[a].append(a + 8)
            tw[a + 8].append(a)
        return tw
    if kind == "dense":
        return [[int(x) for x in rs_.choice(n, size=rs_.randint(0, 4))]
                for _ in range(n)]
    if kind == "last":
        # every state is "twin" of the final state: walks run off the end
        return [[n - 1] for _ in range(n)]
    if kind == "short":
        return [[] for _ in range(max(n - 3, 0))]
    if kind == "bad-index":
        return [[n + 4] for _ in range(n)]
    if kind == "negative":
        return [[-5] for _ in range(n)]
    if kind == "tuple":
        return tuple((i,) for i in range(n))
    if kind == "strings":
        return [["x"] for _ in range(n)]
    if kind == "numpy":
        return [np.array([i, (i + 3) % n]) for i in range(n)]
    raise ValueError(kind)


KINDS = ("none", "pairs", "dense", "last", "short", "bad-index", "negative",
         "tuple", "strings", "numpy")
for n in (1, 2, 12, 40):
    for kind in KINDS:
        rs_ = np.random.RandomState(n * 13 + len(kind))
        data = rs_.randn(3, n + 4)
        emb = rs_.randn(n, 2)
        for (n_surr, n_arg) in ((3, n), (1, n), (0, n), (3, n - 1),
                                (3, n + 4), (4, n), (3, 0), (-1, n)):
            tw_s = [twin_lists(n, kind, rs_) for _ in range(3)]
            pyrandom.seed(2468)
            tag = (n, kind, "walk_s", n_surr, n_arg)
            attempt(tag, lambda: _twin_surrogates_s(n_surr, n_arg, tw_s,
                                                    data))
            rng_state(tag)
            feed((tag, "twins"), repr(tw_s))
            feed((tag, "data"), data)

            tw_r = twin_lists(n, kind, rs_)
            pyrandom.seed(1357)
            tag = (n, kind, "walk_r", n_surr, n_arg)
            attempt(tag, lambda: _twin_surrogates_r(n_surr, n_arg, 2, tw_r,
                                                    emb))
            rng_state(tag)
            feed((tag, "twins"), repr(tw_r))
            feed((tag, "emb"), emb)
        pyrandom.seed(11)
        attempt((n, kind, "walk_r-dim1"),
                lambda: _twin_surrogates_r(2, n, 1, tw_r, emb))
        attempt((n, kind, "walk_r-dim3"),
                lambda: _twin_surrogates_r(2, n, 3, tw_r, emb))
        attempt((n, kind, "walk_s-none"),
                lambda: _twin_surrogates_s(2, n, None, data))
        rng_state((n, kind, "tail"))

# ---------------------------------------------------------------------------
# 4. public API, repeated generation
# ---------------------------------------------------------------------------
for name, data in series():
    pyrandom.seed(5)
    np.random.seed(5)
    s = Surrogates(original_data=np.array(data), silence_level=2)
    before = s.original_data.copy()
    chatter = io.StringIO()
    _stdout, sys.stdout = sys.stdout, chatter
    for (dim, delay, thr, md) in ((1, 0, .2, 7), (1, 0, .2, 7), (3, 2, .4, 2),
                                  (2, 1, 0., 0), (1, 0, .2, -2), (5, 30, .3, 1),
                                  (1, 0, .2, 7)):
        tag = (name, "S.twin_surrogates", dim, delay, thr, md)
        attempt(tag, lambda: s.twin_surrogates(dim, delay, thr, md))
        rng_state(tag)
        attempt((tag, "twins"), lambda: s.twins(thr, md))
        attempt((tag, "twins-default"), lambda: s.twins(thr))
        feed((tag, "embedding"), s.embedding)
        feed((tag, "mut"), (s._mut_data, s._mut_embedding, s._normalized))
    feed((name, "data-unchanged"), bool(np.array_equal(before,
                                                       s.original_data)))
    feed((name, "attrs"), sorted(vars(s)))
    # the memoised twin lists must not be modified by the walk
    tw1 = attempt((name, "memo-1"), lambda: repr(s.twins(.2, 7)))
    attempt((name, "walk-after"), lambda: s.twin_surrogates(1, 0, .2, 7))
    tw2 = attempt((name, "memo-2"), lambda: repr(s.twins(.2, 7)))
    feed((name, "memo-equal"), tw1 == tw2)
    sys.stdout = _stdout
    feed((name, "S-stdout"), chatter.getvalue())

    if data.dtype.kind != "f":
        continue
    for kw in (dict(threshold=.3), dict(threshold=.3, dim=2, tau=2),
               dict(recurrence_rate=.2, metric="euclidean"),
               dict(threshold=.5, metric="manhattan", dim=3, tau=1)):
        out = io.StringIO()
        with contextlib.redirect_stdout(out):
            rp = attempt((name, "rp", repr(kw)),
                         lambda: str(RecurrencePlot(data[0], silence_level=0,
                                                    **kw)))
            rp = RecurrencePlot(data[0], silence_level=0, **kw)
            for md in (7, 0, 3, -1):
                tag = (name, "RP", repr(kw), md)
                attempt((tag, "twins"), lambda: rp.twins(md))
                for ns in (1, 3, 0):
                    attempt((tag, "surr", ns),
                            lambda: rp.twin_surrogates(ns, md))
                    attempt((tag, "surr-again", ns),
                            lambda: rp.twin_surrogates(n_surrogates=ns,
                                                       min_dist=md))
                    rng_state((tag, ns))
            attempt((name, "RP-default", repr(kw)), rp.twin_surrogates)
            feed((name, "RP-R", repr(kw)), rp.recurrence_matrix())
            feed((name, "RP-emb", repr(kw)), rp.embedding)
        feed((name, "RP-stdout", repr(kw)), out.getvalue())

print(H.hexdigest())
