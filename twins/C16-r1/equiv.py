"""Deterministic digest of the event-series mechanism (ES / ECA / matrix
assembly / thresholding).  Run as
    PYTHONPATH=<worktree>/src /venv/bin/python equiv.py
"""
import hashlib
import itertools
import warnings

import numpy as np

from pyunicorn.eventseries import EventSeries

H = hashlib.sha256()
NREC = [0]


def enc(obj):
    """Canonical byte encoding incl. types, dtypes and shapes."""
    if isinstance(obj, np.ndarray):
        if obj.dtype == object:
            return (b"objarr" + repr(obj.shape).encode()
                    + b"[" + b",".join(enc(o) for o in obj.ravel()) + b"]")
        return (b"arr" + str(obj.dtype).encode() + repr(obj.shape).encode()
                + np.ascontiguousarray(obj).tobytes())
    if isinstance(obj, np.generic):
        return (b"npscalar" + type(obj).__name__.encode()
                + np.asarray(obj).tobytes())
    if isinstance(obj, (tuple, list)):
        return (type(obj).__name__.encode() + b"("
                + b",".join(enc(o) for o in obj) + b")")
    if isinstance(obj, float):
        return b"float" + np.float64(obj).tobytes()
    return type(obj).__name__.encode() + repr(obj).encode()


def record(label, func, *args, **kwargs):
    NREC[0] += 1
    with warnings.catch_warnings(record=True) as wlist:
        warnings.simplefilter("always")
        try:
            with np.errstate(all="ignore"):
                res = func(*args, **kwargs)
            payload = b"ok" + enc(res)
        except Exception as exc:  # pylint: disable=broad-except
            payload = (b"exc" + type(exc).__name__.encode()
                       + str(exc).encode())
    wmsgs = sorted((w.category.__name__ + ":" + str(w.message))
                   for w in wlist if "pyunicorn" in str(w.filename))
    H.update(label.encode() + b"|" + payload + b"|"
             + "||".join(wmsgs).encode() + b"\n")


def rand_series(rng, T, p):
    return (rng.random(T) < p).astype(int)


# ---------------------------------------------------------------------------
# 1. make_event_matrix
# ---------------------------------------------------------------------------
rng = np.random.default_rng(1601)
datasets = {
    "gauss": rng.normal(size=(40, 4)),
    "ties": rng.integers(0, 4, size=(30, 3)).astype(float),
    "ints": rng.integers(-5, 6, size=(25, 3)),
    "nan": np.where(rng.random((20, 3)) < 0.1, np.nan,
                    rng.normal(size=(20, 3))),
    "single": rng.normal(size=(12, 1)),
    "const": np.ones((10, 2)),
}
for name, data in datasets.items():
    n = data.shape[1]
    methods = ["quantile", "value", np.array(["quantile", "value"] * n)[:n],
               ["value"] * n, "median", ["quantile"] * (n + 1), 3]
    values = [None, 0.5, 0.2, 0.9, 1, 0, 1.5, -0.1,
              [0.3] * n, list(np.linspace(0.1, 0.95, n)), [0.5] * (n + 1),
              "a", [1] * n, [[0.5] * n]]
    types = [None, "above", "below", ["above", "below"] * n, "up",
             (["below", "above"] * n)[:n], ["up"] * n, [["above"] * n]]
    for mi, vi, ti in itertools.product(range(len(methods)),
                                        range(len(values)),
                                        range(len(types))):
        record(f"mem/{name}/{mi}/{vi}/{ti}", EventSeries.make_event_matrix,
               data.copy(), threshold_method=methods[mi],
               threshold_values=values[vi], threshold_types=types[ti])
    record(f"mem/{name}/default", EventSeries.make_event_matrix, data.copy())
    # value thresholds given in data units
    lo, hi = np.nanmin(data), np.nanmax(data)
    for v in (lo, hi, 0.5 * (lo + hi), hi + 1.0, lo - 1.0):
        for t in (None, "above", "below"):
            record(f"mem/{name}/val/{v!r}/{t}", EventSeries.make_event_matrix,
                   data.copy(), threshold_method="value",
                   threshold_values=float(v), threshold_types=t)

# ---------------------------------------------------------------------------
# 2. pairwise event synchronisation and coincidence analysis
# ---------------------------------------------------------------------------
rng = np.random.default_rng(1602)
pairs = []
for T, p in [(10, 0.3), (25, 0.2), (40, 0.5), (60, 0.1), (60, 0.8),
             (15, 0.95), (100, 0.3), (8, 0.1)]:
    for _ in range(4):
        pairs.append((rand_series(rng, T, p), rand_series(rng, T, p)))
# hand-made edge cases
z = np.zeros(12, dtype=int)
o1 = z.copy(); o1[3] = 1
o2 = z.copy(); o2[[2, 7]] = 1
o3 = z.copy(); o3[[1, 5, 9]] = 1
o4 = z.copy(); o4[[1, 4, 5, 9, 10]] = 1
full = np.ones(12, dtype=int)
edge = [z, o1, o2, o3, o4, full]
for a, b in itertools.product(edge, repeat=2):
    pairs.append((a, b))
pairs.append((o4.astype(bool), o3.astype(bool)))
pairs.append((o4.astype(float), full.astype(float)))

for k, (x, y) in enumerate(pairs):
    T = len(x)
    ts_lin = np.linspace(0.0, T - 1, T)
    ts_irr = np.cumsum(np.random.default_rng(k).random(T) + 0.01)
    ts_int = np.arange(T) * 3
    for ts in (None, ts_lin, ts_irr, ts_int):
        tsl = "n" if ts is None else repr(float(ts[-1]))
        for taumax in (np.inf, 0.0, 1.0, 2.5, 7):
            for lag in (0.0, 1.0, -2.0, 0.5):
                record(f"es/{k}/{tsl}/{taumax}/{lag}",
                       EventSeries.event_synchronization, x, y,
                       ts1=ts, ts2=ts, taumax=taumax, lag=lag)
                record(f"eca/{k}/{tsl}/{taumax}/{lag}",
                       EventSeries.event_coincidence_analysis, x, y, taumax,
                       ts1=ts, ts2=ts, lag=lag)
    # mixed: only one timestamp array, integer lag
    record(f"es/{k}/mixed1", EventSeries.event_synchronization, x, y,
           ts1=ts_irr, taumax=3.0, lag=1)
    record(f"es/{k}/mixed2", EventSeries.event_synchronization, x, y,
           ts2=ts_irr)
    record(f"es/{k}/defaults", EventSeries.event_synchronization, x, y)
    record(f"eca/{k}/mixed1", EventSeries.event_coincidence_analysis, x, y,
           2, ts1=ts_irr, lag=1)
    record(f"eca/{k}/mixed2", EventSeries.event_coincidence_analysis, x, y,
           1.5, ts2=ts_int)
    record(f"eca/{k}/inf", EventSeries.event_coincidence_analysis, x, y,
           np.inf)
# series of different length
xs = rand_series(rng, 30, 0.4)
ys = rand_series(rng, 45, 0.4)
record("es/unequal", EventSeries.event_synchronization, xs, ys, taumax=4.0)
record("eca/unequal", EventSeries.event_coincidence_analysis, xs, ys, 3.0)
record("es/unequal2", EventSeries.event_synchronization, ys, xs, lag=2.0)
record("eca/unequal2", EventSeries.event_coincidence_analysis, ys, xs, 0.0)

# ---------------------------------------------------------------------------
# 3. EventSeries objects: matrix assembly, symmetrisation, ECA windows
# ---------------------------------------------------------------------------
rng = np.random.default_rng(1603)


def describe(obj):
    opts = obj.symmetrization_options
    return (str(obj), list(opts.keys()),
            [opts[k] is getattr(EventSeries, "_symmetrization_" + k)
             for k in opts],
            type(opts).__name__, obj.get_event_matrix(),
            sorted(k for k in vars(obj)))


SYMS = ["directed", "symmetric", "antisym", "mean", "max", "min", "other",
        None, ["mean"], 3]
WINS = ["symmetric", "advanced", "retarded", "both", None, ["advanced"]]
objects = []
for T, N, p in [(30, 4, 0.3), (50, 3, 0.15), (20, 5, 0.6), (40, 2, 0.4),
                (12, 3, 0.9)]:
    em = (rng.random((T, N)) < p).astype(int)
    em[0, 0], em[1, 0] = 0, 1  # make sure both values occur
    ts = np.cumsum(rng.random(T) + 0.05)
    for kw in ({}, {"taumax": 3.0}, {"taumax": 2, "lag": 1.0},
               {"taumax": 0.0, "lag": 0.0}, {"taumax": np.inf, "lag": 0.5},
               {"taumax": 4.0, "timestamps": ts},
               {"taumax": 1.5, "lag": -1.0, "timestamps": ts},
               {"taumax": float("inf")}):
        label = f"obj/{T}x{N}/{sorted(kw)}/{kw.get('taumax')}/{kw.get('lag')}"
        try:
            obj = EventSeries(em.copy(), **kw)
        except Exception as exc:  # pylint: disable=broad-except
            record(label + "/ctor", lambda e=exc: (type(e).__name__, str(e)))
            continue
        objects.append(obj)
        record(label + "/describe", describe, obj)
        for method in ("ES", "ECA", "XY", None):
            for sym in SYMS:
                for win in WINS:
                    record(f"{label}/esa/{method}/{sym}/{win}",
                           obj.event_series_analysis, method=method,
                           symmetrization=sym, window_type=win)
        record(label + "/esa/defaults", obj.event_series_analysis)
        # call twice: cached ES matrix must be stable and not aliased away
        first = obj.event_series_analysis(method="ES")
        first_copy = first.copy()
        second = obj.event_series_analysis(method="ES",
                                           symmetrization="mean")
        record(label + "/cache", lambda a=first, b=first_copy, c=second, o=obj:
               (np.array_equal(a, b, equal_nan=True), c,
                o._ndim_event_synchronization()
                is o._ndim_event_synchronization()))
        record(label + "/ndim_es", obj._ndim_event_synchronization)
        for win in WINS:
            record(f"{label}/ndim_eca/{win}",
                   obj._ndim_event_coincidence_analysis, window_type=win)
        record(label + "/ndim_eca/default",
               obj._ndim_event_coincidence_analysis)
        # private ECA rate helper called directly
        for i, j in ((0, 1), (1, 0), (0, 0)):
            for win in WINS + [np.array(["advanced"]), ("retarded",), 7]:
                for tsarg in (None, ts):
                    record(f"{label}/rate/{i}{j}/{win!r}/{tsarg is None}",
                           obj._eca_coincidence_rate, em[:, i], em[:, j],
                           window_type=win, ts1=tsarg, ts2=tsarg)
            record(f"{label}/rate/{i}{j}/default",
                   obj._eca_coincidence_rate, em[:, i], em[:, j])
            record(f"{label}/rate/{i}{j}/positional",
                   obj._eca_coincidence_rate, em[:, i], em[:, j],
                   "advanced", ts, None)
        # edge-case series through the private helper
        for a, b in itertools.product(
                [np.zeros(T, dtype=int), np.eye(1, T, 2, dtype=int)[0],
                 np.ones(T, dtype=int), em[:, 0]], repeat=2):
            for win in ("symmetric", "advanced", "retarded", "bad"):
                record(f"{label}/rate_edge/{a.sum()}/{b.sum()}/{win}",
                       obj._eca_coincidence_rate, a, b, window_type=win)

# constructor paths (thresholding inside the constructor, bad input)
rng = np.random.default_rng(1604)
cont = rng.normal(size=(30, 3))
for kw in ({"threshold_method": "quantile", "threshold_values": 0.8,
            "threshold_types": "above"},
           {"threshold_method": "quantile"},
           {"threshold_method": "value", "threshold_values": 0.1},
           {"threshold_method": ["quantile", "value", "quantile"],
            "threshold_values": [0.7, 0.0, 0.2],
            "threshold_types": ["above", "below", "below"], "taumax": 2.0},
           {"threshold_method": "foo"},
           {},
           {"threshold_method": "quantile", "threshold_values": 0.9,
            "timestamps": np.arange(29)}):
    for data in (cont, cont.T.copy(), cont.tolist()):
        def build(d=data, k=kw):
            o = EventSeries(d, **k)
            return (describe(o), o.event_series_analysis(method="ES",
                                                         symmetrization="max"),
                    o.event_series_analysis(method="ECA",
                                            symmetrization="min",
                                            window_type="advanced")
                    if "taumax" in k else None)
        record(f"ctor/{sorted(kw.items())!r}/{type(data).__name__}"
               f"/{np.shape(data)}", build)

# ---------------------------------------------------------------------------
# 4. significance (Monte-Carlo with fixed seed, analytic)
# ---------------------------------------------------------------------------
for idx in (1, 5, 9):
    obj = objects[idx]
    for method, sym, win in (("ES", "directed", "symmetric"),
                             ("ES", "antisym", "symmetric"),
                             ("ECA", "mean", "retarded"),
                             ("ECA", "directed", "advanced"),
                             ("ECA", "max", "symmetric")):
        def mc(o=obj, m=method, s=sym, w=win):
            np.random.seed(77)
            return o.event_analysis_significance(
                method=m, surrogate="shuffle", n_surr=6, symmetrization=s,
                window_type=w)
        record(f"sig/{idx}/{method}/{sym}/{win}", mc)
    for win in ("advanced", "retarded", "symmetric"):
        record(f"sig/{idx}/analytic/{win}", obj.event_analysis_significance,
               method="ECA", surrogate="analytic", window_type=win)

print("records:", NREC[0])
print("digest:", H.hexdigest())
