"""Equivalence digest for pyunicorn.eventseries.EventSeries (property C16).

Run as:  PYTHONPATH=<worktree>/src /venv/bin/python equiv.py
Prints a sha256 digest over results (full precision via float.hex / tobytes),
result types/dtypes, emitted warnings and raised exception types.
"""
import hashlib
import itertools
import warnings

import numpy as np

from pyunicorn.eventseries import EventSeries

H = hashlib.sha256()
NREC = [0]


def enc(obj):
    if isinstance(obj, np.ndarray):
        return ("nd", str(obj.dtype), obj.shape,
                np.ascontiguousarray(obj).tobytes().hex()
                if obj.dtype != object else repr(obj.tolist()))
    if isinstance(obj, (tuple, list)):
        return (type(obj).__name__, [enc(o) for o in obj])
    if isinstance(obj, (float, np.floating)):
        return (type(obj).__name__, float(obj).hex())
    if isinstance(obj, (int, np.integer, bool, np.bool_)):
        return (type(obj).__name__, int(obj))
    return (type(obj).__name__, repr(obj))


def rec(tag, fn):
    with warnings.catch_warnings(record=True) as wl:
        warnings.simplefilter("always")
        with np.errstate(all="ignore"):
            try:
                out = ("ok", enc(fn()))
            except Exception as e:  # pylint: disable=broad-except
                out = ("exc", type(e).__name__, str(e))
    ws = [(w.category.__name__, str(w.message)) for w in wl]
    H.update(repr((tag, out, ws)).encode())
    NREC[0] += 1


rng = np.random.RandomState(20240916)


def series(n, p):
    return (rng.rand(n) < p).astype(int)


# ---------------------------------------------------------------- pair level
pairs = []
for n, p in [(0, .5), (1, 1.), (3, 1.), (5, 0.), (6, .5), (10, .3), (10, .9),
             (25, .2), (40, .5), (60, .15), (60, .6), (80, .35)]:
    for _ in range(3):
        pairs.append((series(n, p), series(n, rng.choice([p, .5, .1]))))
# hand-made edge cases: 0/1/2/3 events
for kx, ky in itertools.product(range(5), repeat=2):
    x = np.zeros(12, dtype=int)
    y = np.zeros(12, dtype=int)
    x[rng.choice(12, kx, replace=False)] = 1
    y[rng.choice(12, ky, replace=False)] = 1
    pairs.append((x, y))
pairs.append((np.ones(9, dtype=bool), np.ones(9, dtype=bool)))
pairs.append((np.ones(9), np.array([1, 0, 1, 0, 1, 1, 0, 1, 1.])))

for k, (x, y) in enumerate(pairs):
    n = len(x)
    tss = [None,
           np.arange(n, dtype=float) * 0.5 + 3.0,
           np.sort(rng.rand(n) * 10.0),
           np.arange(n) * 2]
    for ti, ts in enumerate(tss):
        for taumax in (np.inf, 0, 1, 2.5, 7.0):
            for lag in (0.0, 0, 1, 1.5, -2.0):
                rec(("ES", k, ti, taumax, lag),
                    lambda: EventSeries.event_synchronization(
                        x, y, ts1=ts, ts2=ts, taumax=taumax, lag=lag))
                rec(("ECA", k, ti, taumax, lag),
                    lambda: EventSeries.event_coincidence_analysis(
                        x, y, taumax, ts1=ts, ts2=ts, lag=lag))
    # mixed: only one timestamps array
    ts = tss[2]
    rec(("ESm1", k), lambda: EventSeries.event_synchronization(
        x, y, ts1=ts, taumax=3.0))
    rec(("ESm2", k), lambda: EventSeries.event_synchronization(
        x, y, ts2=ts, lag=0.5))
    rec(("ECAm1", k), lambda: EventSeries.event_coincidence_analysis(
        x, y, 2.0, ts1=ts))
    rec(("ECAm2", k), lambda: EventSeries.event_coincidence_analysis(
        x, y, 2.0, ts2=ts, lag=1))

# ------------------------------------------------------------ instance level
SYMS = ['directed', 'symmetric', 'antisym', 'mean', 'max', 'min', 'bogus']
WINS = ['symmetric', 'advanced', 'retarded', 'bogus']
mats = []
for T, N, p in [(12, 2, .5), (30, 3, .4), (50, 5, .2), (50, 4, .7),
                (20, 1, .5), (80, 6, .3)]:
    m = (rng.rand(T, N) < p).astype(int)
    m[0, 0], m[1, 0] = 0, 1       # guarantee both values are present
    mats.append(m)
sparse = np.zeros((15, 3), dtype=int)
sparse[3, 0] = sparse[7, 0] = sparse[9, 1] = 1
mats.append(sparse)

for k, m in enumerate(mats):
    T = m.shape[0]
    for ti, ts in enumerate([None, np.sort(rng.rand(T) * 20.0),
                             np.arange(T) * 3]):
        for taumax, lag in [(np.inf, 0.0), (float('inf'), 0.0), (3, 0),
                            (0, 0), (2.5, 1.0), (4.0, -1.5), (1e9, 0.0)]:
            def build():
                return EventSeries(m, timestamps=ts, taumax=taumax, lag=lag)
            rec(("ctor", k, ti, taumax, lag), lambda: str(build()))
            try:
                es = build()
            except Exception:  # pylint: disable=broad-except
                continue
            rec(("nev", k, ti), lambda: es._EventSeries__nrofevents)
            rec(("symkeys", k), lambda: [
                (key, val is getattr(EventSeries, '_symmetrization_' + key))
                for key, val in es.symmetrization_options.items()])
            for method in ('ES', 'ECA', 'XX'):
                for sym in SYMS:
                    for win in WINS:
                        rec(("esa", k, ti, taumax, lag, method, sym, win),
                            lambda: es.event_series_analysis(
                                method=method, symmetrization=sym,
                                window_type=win))
            # aliasing / caching behaviour of the directed ES matrix
            rec(("alias", k, ti), lambda: (
                es.event_series_analysis('ES', 'directed')
                is es._ndim_event_synchronization(),
                es.event_series_analysis('ES', 'directed')
                is es.event_series_analysis('ES', 'directed'),
                es.event_series_analysis('ECA', 'directed')
                is es.event_series_analysis('ECA', 'directed')
                if np.isfinite(taumax) else None))
            rec(("ndimES", k, ti), es._ndim_event_synchronization)
            for win in WINS:
                rec(("ndimECA", k, ti, win),
                    lambda: es._ndim_event_coincidence_analysis(
                        window_type=win))
                for i in range(m.shape[1]):
                    for j in range(m.shape[1]):
                        rec(("rate", k, ti, win, i, j),
                            lambda: es._eca_coincidence_rate(
                                m[:, i], m[:, j], window_type=win))
                        rec(("ratets", k, ti, win, i, j),
                            lambda: es._eca_coincidence_rate(
                                m[:, i], m[:, j], window_type=win,
                                ts1=es._EventSeries__timestamps,
                                ts2=es._EventSeries__timestamps))
    es = EventSeries(m, taumax=3.0, lag=0.0)
    for method, sym, win, sur in [
            ('ES', 'directed', 'symmetric', 'shuffle'),
            ('ES', 'mean', 'symmetric', 'shuffle'),
            ('ES', 'antisym', 'symmetric', 'analytic'),
            ('ECA', 'directed', 'advanced', 'analytic'),
            ('ECA', 'directed', 'retarded', 'analytic'),
            ('ECA', 'max', 'symmetric', 'shuffle'),
            ('ECA', 'directed', 'retarded', 'shuffle'),
            ('ECA', 'symmetric', 'retarded', 'shuffle')]:
        def sig():
            np.random.seed(7 + k)
            return es.event_analysis_significance(
                method=method, surrogate=sur, n_surr=6,
                symmetrization=sym, window_type=win)
        rec(("sig", k, method, sym, win, sur), sig)

# bad constructor input
rec("ctor-bad1", lambda: str(EventSeries(np.array([[0, 2], [1, 0]]))))
rec("ctor-bad2", lambda: str(EventSeries(np.zeros((4, 2)))))
rec("ctor-bad3", lambda: str(EventSeries(mats[0], timestamps=np.arange(3))))
rec("ctor-bad4", lambda: str(EventSeries([[0, 1], [1, 0]],
                                         threshold_method='quantile')))

# ------------------------------------------------------- make_event_matrix
datas = [rng.randn(20, 3), rng.rand(7, 2) * 5 - 1,
         np.round(rng.randn(15, 4), 1),          # ties
         rng.randint(-3, 4, size=(12, 3)),       # integer data with ties
         rng.randn(9, 1), rng.randn(1, 3), np.zeros((5, 2))]
nan = rng.randn(10, 3)
nan[2, 1] = np.nan
datas.append(nan)

for k, d in enumerate(datas):
    N = d.shape[1]
    methods = ['quantile', 'value', 'bogus', None,
               ['quantile'] * N, ['value'] * N,
               (['quantile', 'value'] * N)[:N], ['bogus'] * N,
               ['quantile'] * (N + 1), [['quantile'] * N] * 2,
               np.array(['value'] * N)]
    values = [None, 0.5, 0.9, 0.1, 0.0, 1.0, 1.5, -0.2, 0, 1, 'a', 100.0,
              float(np.nanmedian(d)), float(np.nanmin(d)),
              float(np.nanmax(d)),
              [0.3] * N, list(np.linspace(0.1, 0.8, N)),
              [float(x) for x in np.nanmean(d, axis=0)],
              ['a'] * N, [0.5] * (N + 1), [[0.5] * N] * 2,
              np.full(N, 0.25), [1] * N, [None] * N, True]
    types = [None, 'above', 'below', 'bogus',
             ['above'] * N, ['below'] * N, (['above', 'below'] * N)[:N],
             ['bogus'] * N, ['above'] * (N + 1), [['above'] * N] * 2,
             ([None, 'above'] * N)[:N]]
    for (mi, me), (vi, va), (ti, ty) in itertools.product(
            enumerate(methods), enumerate(values), enumerate(types)):
        rec(("mem", k, mi, vi, ti),
            lambda: EventSeries.make_event_matrix(
                d, threshold_method=me, threshold_values=va,
                threshold_types=ty))
    rec(("mem-default", k), lambda: EventSeries.make_event_matrix(d))
    rec(("mem-signbit", k), lambda: np.signbit(
        EventSeries.make_event_matrix(d, threshold_values=0.6)))
    # input arguments must not be modified
    va = [0.3] * N
    ty = ['above'] * N
    me = ['quantile'] * N
    dc = d.copy()
    rec(("mem-noalias", k), lambda: (
        EventSeries.make_event_matrix(dc, me, va, ty), va, ty, me, dc))
    for me, va, ty in [('quantile', 0.8, 'above'), ('value', None, None),
                       ('quantile', None, 'below'), ('quantile', 2.0, None)]:
        rec(("ctor-thr", k, me, va, ty), lambda: (
            lambda e: (str(e), e.get_event_matrix(),
                       e._EventSeries__nrofevents,
                       e.event_series_analysis('ES', 'mean')))(
            EventSeries(d, threshold_method=me, threshold_values=va,
                        threshold_types=ty, taumax=4.0)))
    rec(("ctor-thr-T", k), lambda: (
        lambda e: (str(e), e.get_event_matrix()))(
        EventSeries(d.T, threshold_method='quantile', threshold_values=0.7,
                    threshold_types='above')))

rec("mem-matrix", lambda: EventSeries.make_event_matrix(
    np.matrix(rng.randn(6, 2)), 'quantile', 0.5, 'above'))
rec("mem-list", lambda: EventSeries.make_event_matrix(
    [[0.1, 0.2], [0.3, 0.1]], 'quantile', 0.5, 'above'))
rec("mem-1d", lambda: EventSeries.make_event_matrix(
    rng.randn(6), 'quantile', 0.5, 'above'))
rec("mem-empty", lambda: EventSeries.make_event_matrix(
    np.zeros((0, 2)), 'quantile', 0.5, 'above'))
rec("mem-novar", lambda: EventSeries.make_event_matrix(
    np.zeros((3, 0)), 'quantile', 0.5, 'above'))

print(NREC[0], "records")
print("DIGEST", H.hexdigest())
