"""Digest of the climate mutual-information kernel on a spread of inputs."""
import hashlib
import io
import contextlib

import numpy as np

from pyunicorn.climate._ext.numerics import mutual_information, spearman_corr
from pyunicorn.core._ext.types import FIELD, MASK

h = hashlib.sha256()


def feed(tag, obj):
    h.update(tag.encode())
    if isinstance(obj, np.ndarray):
        h.update(str(obj.dtype).encode())
        h.update(str(obj.shape).encode())
        h.update(np.ascontiguousarray(obj).tobytes())
    else:
        h.update(repr(obj).encode())


def run_mi(tag, anomaly, n_bins):
    anomaly = np.ascontiguousarray(anomaly, dtype=FIELD)
    N, n_samples = anomaly.shape
    try:
        if anomaly.size:
            range_min = float(anomaly.min())
            range_max = float(anomaly.max())
        else:
            range_min, range_max = 0.0, 1.0
        with np.errstate(all="ignore"):
            scaling = float(np.float64(1.) / np.float64(range_max - range_min))
        before = anomaly.copy()
        mi = mutual_information(anomaly, n_samples, N, n_bins, scaling,
                                range_min)
        feed(tag, mi)
        feed(tag + ":input-untouched",
             bool(np.array_equal(before, anomaly, equal_nan=True)))
    except Exception as e:  # noqa
        feed(tag, type(e).__name__ + ":" + str(e))


rng = np.random.RandomState(20)
case = 0
for N in (0, 1, 2, 3, 5, 8, 13):
    for n_samples in (0, 1, 2, 7, 40, 257):
        for n_bins in (1, 2, 5, 32):
            case += 1
            a = rng.standard_normal((N, n_samples))
            run_mi(f"rand{case}", a, n_bins)

# more nodes than samples, integer valued data with many ties and the maximum
# attained several times (rescaled == 1.0 branch)
for n_bins in (1, 3, 4, 16, 64):
    a = rng.randint(0, 4, size=(20, 6)).astype(float)
    run_mi(f"ties{n_bins}", a, n_bins)
    a = rng.randint(-3, 9, size=(4, 300)).astype(float)
    run_mi(f"ties_long{n_bins}", a, n_bins)

# constant rows together with varying rows
a = rng.standard_normal((6, 50))
a[2] = 0.25
a[4] = a.max()
run_mi("constrows", a, 8)

# NaN data: every sample falls into the last bin
a = rng.standard_normal((4, 30))
a[1, 3] = np.nan
run_mi("nan", a, 8)

# rejected bin numbers
a = rng.standard_normal((3, 10))
for n_bins in (0, -1, -32):
    run_mi(f"badbins{n_bins}", a, n_bins)

# wrong dtypes / layouts are rejected by the wrapper
for tag, arr in (("f64", a.astype(np.float64)),
                 ("fortran", np.asfortranarray(a.astype(FIELD))),
                 ("1d", a.astype(FIELD).ravel())):
    try:
        mutual_information(arr, 10, 3, 4, 1.0, 0.0)
        feed(tag, "no error")
    except Exception as e:  # noqa
        feed(tag, type(e).__name__)
try:
    mutual_information(None, 10, 3, 4, 1.0, 0.0)
    feed("none", "no error")
except Exception as e:  # noqa
    feed("none", type(e).__name__)

# through the public class
from pyunicorn.climate import ClimateData, MutualInfoClimateNetwork  # noqa
import os, tempfile  # noqa
cwd = os.getcwd()
with tempfile.TemporaryDirectory() as tmp:
    os.chdir(tmp)
    try:
        with contextlib.redirect_stdout(io.StringIO()):
            data = ClimateData.SmallTestData()
            net = MutualInfoClimateNetwork(data, threshold=0.01,
                                           winter_only=False,
                                           silence_level=2)
            feed("class-sim", np.asarray(net.similarity_measure()))
            feed("class-adj", np.asarray(net.adjacency))
            for nb in (1, 4, 32, 100):
                feed(f"class-mi{nb}",
                     net._cython_calculate_mutual_information(
                         data.anomaly(), n_bins=nb))
    finally:
        os.chdir(cwd)

# control: the neighbouring kernel of the same C file
for m, tmax in ((0, 5), (1, 1), (3, 9), (7, 4), (5, 40)):
    mask = (rng.rand(m, tmax) < 0.7).astype(MASK)
    ranked = (rng.standard_normal((m, tmax)).argsort(axis=1).argsort(axis=1)
              + 1.0).astype(FIELD)
    with np.errstate(all="ignore"):
        feed(f"spearman{m}x{tmax}", spearman_corr(m, tmax, mask, ranked))

print(h.hexdigest())
