"""Equivalence digest for twin_1 (Cython kernels: cliquishness 4/5, Newman
n.s.i. betweenness).  Run as
    PYTHONPATH=<worktree>/src /venv/bin/python equiv.py
"""
import hashlib
import io
import contextlib

import numpy as np

from pyunicorn.core.network import Network
from pyunicorn.core._ext.types import to_cy, ADJ, DEGREE, NODE, MASK, DWEIGHT
from pyunicorn.core._ext.numerics import (
    _local_cliquishness_4thorder, _local_cliquishness_5thorder,
    _nsi_betweenness)

H = hashlib.sha256()


def feed(tag, value):
    H.update(tag.encode())
    if isinstance(value, BaseException):
        H.update(("EXC:" + type(value).__name__).encode())
    else:
        a = np.asarray(value)
        H.update(repr((a.dtype.str, a.shape)).encode())
        H.update(np.ascontiguousarray(a).tobytes())


def attempt(tag, fun, *args, **kwargs):
    try:
        with contextlib.redirect_stdout(io.StringIO()):
            res = fun(*args, **kwargs)
    except Exception as e:  # pylint: disable=broad-except
        res = e
    feed(tag, res)


def random_adjacency(rng, N, p, directed=False):
    A = (rng.random((N, N)) < p).astype(np.int8)
    np.fill_diagonal(A, 0)
    if not directed:
        A = np.triu(A, 1)
        A = A + A.T
    return A


rng = np.random.default_rng(20240303)
cases = []
for N, p in [(2, 0.0), (2, 1.0), (4, 1.0), (5, 1.0), (6, 1.0), (7, 0.3),
             (9, 0.5), (12, 0.7), (15, 0.2), (20, 0.45), (25, 0.1),
             (30, 0.6), (40, 0.15)]:
    cases.append((N, p, random_adjacency(rng, N, p)))
# block graph with isolated nodes and two components
B = np.zeros((14, 14), dtype=np.int8)
B[:6, :6] = 1
B[6:11, 6:11] = random_adjacency(rng, 5, 0.8)
np.fill_diagonal(B, 0)
cases.append((14, -1, B))

for idx, (N, p, A) in enumerate(cases):
    net = Network(adjacency=A, directed=False, silence_level=3)
    w = rng.random(N) + 0.25
    for order in (3, 4, 5):
        attempt(f"lc{idx}-{order}", net.local_cliquishness, order)
    for order in (0, 2, 6, -1):
        attempt(f"lcx{idx}-{order}", net.local_cliquishness, order)

    # direct kernel calls, also with degree arrays that do not match A
    A_cy = to_cy(A, ADJ)
    deg = to_cy(A.sum(axis=1), DEGREE)
    for name, kern in (("k4", _local_cliquishness_4thorder),
                       ("k5", _local_cliquishness_5thorder)):
        attempt(f"{name}-{idx}", kern, N, A_cy, deg)
        capped = np.minimum(deg + (rng.integers(0, 3, N)).astype(DEGREE),
                            N).astype(DEGREE)
        attempt(f"{name}c-{idx}", kern, N, A_cy, capped)
        lower = np.maximum(deg - 1, 0).astype(DEGREE)
        attempt(f"{name}l-{idx}", kern, N, A_cy, lower)

    # betweenness family through the public API
    attempt(f"b{idx}", net.nsi_betweenness)
    attempt(f"ib{idx}", net.interregional_betweenness)
    net.node_weights = w
    attempt(f"nb{idx}", net.nsi_betweenness)
    if N >= 3:
        src = sorted(rng.choice(N, size=max(1, N // 3), replace=False))
        tgt = sorted(rng.choice(N, size=max(1, N // 2), replace=False))
        attempt(f"ibs{idx}", net.interregional_betweenness,
                sources=src, targets=tgt)
        attempt(f"nibs{idx}", net.nsi_interregional_betweenness,
                sources=src, targets=tgt)
        attempt(f"ibr{idx}", net.interregional_betweenness,
                sources=src, targets=list(reversed(tgt)))
        # direct kernel call with repeated targets
        links = np.argwhere(A != 0)
        flat = to_cy(links[:, 1], NODE) if len(links) else \
            np.zeros(0, dtype=NODE)
        is_source = np.zeros(N, dtype=MASK)
        is_source[src] = 1
        attempt(f"kb{idx}", _nsi_betweenness, N, to_cy(w, DWEIGHT),
                deg, flat, is_source,
                np.array(list(tgt) + list(tgt[:1]), dtype=NODE))

# directed networks: cliquishness must raise, betweenness asserts
for idx in range(3):
    A = random_adjacency(rng, 8 + idx, 0.4, directed=True)
    net = Network(adjacency=A, directed=True, silence_level=3)
    attempt(f"dlc{idx}", net.local_cliquishness, 4)
    attempt(f"dnb{idx}", net.nsi_betweenness)

print(H.hexdigest())
