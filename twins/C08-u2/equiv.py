"""
Equivalence digest for property C08 (RQA line statistics).

Run as:  PYTHONPATH=<worktree>/src /venv/bin/python equiv.py
Prints one deterministic sha256 digest over
  * the raw outputs of all ten compiled line-distribution kernels on random
    recurrence matrices / embeddings / missing-value masks (incl. edge cases
    and error cases),
  * all histogram-based RQA measures of RecurrencePlot (matrix mode, sequential
    mode, missing values, resampled distributions, subclasses),
  * the types of all raised exceptions and the relevant object state.
"""
import contextlib
import hashlib
import io
import random

import numpy as np

from pyunicorn.timeseries import RecurrencePlot, CrossRecurrencePlot, \
    JointRecurrencePlot, RecurrenceNetwork
from pyunicorn.timeseries._ext import numerics as nm

H = hashlib.sha256()


def feed(tag, val):
    """Feed a tagged value into the digest at full precision."""
    H.update(repr(tag).encode())
    if isinstance(val, np.ndarray):
        H.update(str(val.dtype).encode())
        H.update(repr(val.shape).encode())
        H.update(np.ascontiguousarray(val).tobytes())
    elif isinstance(val, (np.generic,)):
        H.update(type(val).__name__.encode())
        H.update(np.asarray(val).tobytes())
    elif isinstance(val, float):
        H.update(b"float" + float(val).hex().encode())
    elif isinstance(val, dict):
        for k in sorted(val):
            feed((tag, k), val[k])
    else:
        H.update(type(val).__name__.encode())
        H.update(repr(val).encode())


def attempt(tag, fun, *args, **kwargs):
    """Call and digest either the result or the exception type."""
    try:
        res = fun(*args, **kwargs)
    except BaseException as exc:  # pylint: disable=broad-except
        feed(tag, "EXC:" + type(exc).__name__)
        return None
    feed(tag, res)
    return res


# -----------------------------------------------------------------------------
# 1. compiled kernels, called directly
# -----------------------------------------------------------------------------

def kernels():
    rng = np.random.RandomState(20240508)
    sizes = [0, 1, 2, 3, 5, 8, 13, 21, 34]
    for N in sizes:
        for density in (0.0, 0.2, 0.5, 0.8, 1.0):
            R = (rng.rand(N, N) < density).astype(np.int8)
            # symmetric and asymmetric variants, plus non-0/1 entries
            variants = [R, np.maximum(R, R.T)]
            if N > 2:
                R2 = R.copy()
                R2[rng.randint(N), rng.randint(N)] = 2
                R2[rng.randint(N), rng.randint(N)] = -1
                variants.append(R2)
            for v, Rv in enumerate(variants):
                for name in ("_vertline_dist", "_diagline_dist",
                             "_white_vertline_dist"):
                    hist = np.zeros(N, dtype=np.int32)
                    attempt((name, N, density, v), getattr(nm, name),
                            N, hist, Rv)
                    feed((name, N, density, v, "hist"), hist)
                for mfrac in (0.0, 0.15, 0.5, 1.0):
                    M = rng.rand(N) < mfrac
                    for Mv in (M, M.astype(np.int8)):
                        for name in ("_vertline_dist_missingvalues",
                                     "_diagline_dist_missingvalues"):
                            hist = np.zeros(N, dtype=np.int32)
                            attempt((name, N, density, v, mfrac),
                                    getattr(nm, name), N, hist, Rv, Mv)
                            feed((name, N, density, v, mfrac, "hist"), hist)
        for dim in (1, 2, 4):
            E = rng.randn(N, dim)
            for eps in (0.0, 0.3, 1.0, 2.5, 100.0):
                for name in ("_vertline_dist_sequential",
                             "_diagline_dist_sequential"):
                    hist = np.zeros(N, dtype=np.int32)
                    attempt((name, N, dim, eps), getattr(nm, name),
                            N, hist, E, eps, dim)
                    feed((name, N, dim, eps, "hist"), hist)
                for mfrac in (0.0, 0.2, 1.0):
                    M = rng.rand(N) < mfrac
                    for name in ("_vertline_dist_sequential_missingvalues",
                                 "_diagline_dist_sequential_missingvalues"):
                        hist = np.zeros(N, dtype=np.int32)
                        attempt((name, N, dim, eps, mfrac), getattr(nm, name),
                                N, hist, M, E, eps, dim)
                        feed((name, N, dim, eps, mfrac, "hist"), hist)

    # pre-filled histograms are accumulated into, not overwritten
    N = 12
    R = (rng.rand(N, N) < 0.5).astype(np.int8)
    M = rng.rand(N) < 0.2
    E = rng.randn(N, 2)
    for name, args in [
            ("_vertline_dist", (R,)), ("_diagline_dist", (R,)),
            ("_white_vertline_dist", (R,)),
            ("_vertline_dist_missingvalues", (R, M)),
            ("_diagline_dist_missingvalues", (R, M)),
            ("_vertline_dist_sequential", (E, 0.7, 2)),
            ("_diagline_dist_sequential", (E, 0.7, 2)),
            ("_vertline_dist_sequential_missingvalues", (M, E, 0.7, 2)),
            ("_diagline_dist_sequential_missingvalues", (M, E, 0.7, 2))]:
        hist = np.arange(N, dtype=np.int32)
        attempt((name, "prefilled"), getattr(nm, name), N, hist, *args)
        feed((name, "prefilled", "hist"), hist)

    # error behaviour and partial side effects: too small / ill-typed inputs
    for name, args in [
            ("_vertline_dist", (R[:5, :5],)), ("_diagline_dist", (R[:5],)),
            ("_white_vertline_dist", (R[:, :5],)),
            ("_vertline_dist", (R.astype(np.int32),)),
            ("_diagline_dist", (None,)),
            ("_vertline_dist_missingvalues", (R, M[:3])),
            ("_diagline_dist_missingvalues", (R, M[:3])),
            ("_vertline_dist_missingvalues", (R, M.astype(float))),
            ("_vertline_dist_sequential", (E[:4], 0.7, 2)),
            ("_diagline_dist_sequential", (E, 0.7, 3)),
            ("_diagline_dist_sequential", (E, 0.7, 0)),
            ("_vertline_dist_sequential", (E, 0.7, -1)),
            ("_vertline_dist_sequential", (E.astype(np.float32), 0.7, 2)),
            ("_vertline_dist_sequential_missingvalues", (M[:2], E, 0.7, 2)),
            ("_diagline_dist_sequential_missingvalues", (M, E[:6], 0.7, 2))]:
        hist = np.zeros(N, dtype=np.int32)
        attempt((name, "bad", repr([getattr(a, "shape", a) for a in args])),
                getattr(nm, name), N, hist, *args)
        feed((name, "bad", "hist"), hist)
    # too short histogram
    for name, args in [("_vertline_dist", (np.ones((N, N), dtype=np.int8),)),
                       ("_diagline_dist", (np.ones((N, N), dtype=np.int8),)),
                       ("_white_vertline_dist",
                        (np.zeros((N, N), dtype=np.int8),))]:
        hist = np.zeros(N - 4, dtype=np.int32)
        attempt((name, "shorthist"), getattr(nm, name), N, hist, *args)
        feed((name, "shorthist", "hist"), hist)
        attempt((name, "histtype"), getattr(nm, name), N,
                np.zeros(N, dtype=np.int64), *args)


# -----------------------------------------------------------------------------
# 2. RecurrencePlot API
# -----------------------------------------------------------------------------

def state(tag, rp):
    feed((tag, "state"), (rp.N, rp._mut_R, rp._mut_embedding,
                          rp.sparse_rqa, rp.missing_values, rp.metric,
                          repr(rp.threshold), rp._epsilon))
    if rp.R is not None:
        feed((tag, "R"), rp.R)
    feed((tag, "emb"), rp.embedding)


def measures(tag, rp):
    """All histogram-derived measures, incl. repeated (cached) calls."""
    state((tag, "before"), rp)
    for rep in range(2):
        t = (tag, rep)
        attempt((t, "RR"), rp.recurrence_rate)
        dd = attempt((t, "diagline_dist"), rp.diagline_dist)
        vd = attempt((t, "vertline_dist"), rp.vertline_dist)
        wd = attempt((t, "white_vertline_dist"), rp.white_vertline_dist)
        # identity of cached objects
        feed((t, "cache-id"), (dd is attempt((t, "dd2"), rp.diagline_dist),
                               vd is attempt((t, "vd2"), rp.vertline_dist)))
        attempt((t, "max_diag"), rp.max_diaglength)
        attempt((t, "max_vert"), rp.max_vertlength)
        attempt((t, "max_white"), rp.max_white_vertlength)
        attempt((t, "summary"), rp.rqa_summary)
        for lm in (1, 2, 3, 5, rp.N, rp.N + 1, rp.N + 3, 0):
            attempt((t, "summary", lm), rp.rqa_summary, lm, lm)
            attempt((t, "DET", lm), rp.determinism, lm)
            attempt((t, "L", lm), rp.average_diaglength, lm)
            attempt((t, "ENTR", lm), rp.diag_entropy, lm)
            attempt((t, "LAM", lm), rp.laminarity, lm)
            attempt((t, "TT", lm), rp.average_vertlength, lm)
            attempt((t, "TT2", lm), rp.trapping_time, lm)
            attempt((t, "VENTR", lm), rp.vert_entropy, lm)
            attempt((t, "WL", lm), rp.average_white_vertlength, lm)
            attempt((t, "MRT", lm), rp.mean_recurrence_time, lm)
            attempt((t, "WENTR", lm), rp.white_vert_entropy, lm)
        attempt((t, "DETkw"), rp.determinism, l_min=3, resampled_dist=None)
        attempt((t, "WLdef"), rp.average_white_vertlength)
        attempt((t, "WENTRdef"), rp.white_vert_entropy)
        for M in (7, 50):
            random.seed(1234 + M)
            np.random.seed(99 + M)
            rd = attempt((t, "res_diag", M), rp.resample_diagline_dist, M)
            rv = attempt((t, "res_vert", M), rp.resample_vertline_dist, M)
            if rd is not None:
                feed((t, "res_diag_is_cached", M), rd is dd)
                attempt((t, "DETr", M), rp.determinism, 2, rd)
                attempt((t, "Lr", M), rp.average_diaglength, 2, rd)
                attempt((t, "ENTRr", M), rp.diag_entropy, 2, rd)
                attempt((t, "ENTRrkw", M), rp.diag_entropy,
                        resampled_dist=rd, l_min=1)
            if rv is not None:
                feed((t, "res_vert_is_cached", M), rv is vd)
                attempt((t, "LAMr", M), rp.laminarity, 2, rv)
                attempt((t, "TTr", M), rp.average_vertlength, 2, rv)
                attempt((t, "TT2r", M), rp.trapping_time, 2, rv)
                attempt((t, "VENTRr", M), rp.vert_entropy, 2, rv)
        # user supplied distributions of other dtypes / wrong lengths
        for nm_, dist in [("f64", np.linspace(0., 3., rp.N)),
                          ("i64", np.arange(rp.N)[::-1].copy()),
                          ("short", np.ones(max(rp.N - 2, 0), dtype=int)),
                          ("list", [1] * rp.N),
                          ("zeros", np.zeros(rp.N, dtype=np.int32))]:
            for meth in ("determinism", "average_diaglength", "diag_entropy",
                         "laminarity", "average_vertlength", "trapping_time",
                         "vert_entropy"):
                attempt((t, meth, nm_), getattr(rp, meth), 2, dist)
        if dd is not None:
            attempt((t, "static-rs"), lambda: (
                random.seed(5), RecurrencePlot.rejection_sampling(
                    np.array([1, 4, 0, 2]), 20))[1])
    state((tag, "after"), rp)


def api():
    rng = np.random.RandomState(777)
    series = {
        "sine": np.sin(np.linspace(0, 9 * np.pi, 60)),
        "noise": rng.randn(45),
        "const": np.ones(12),
        "walk": np.cumsum(rng.randn(80)),
        "short": np.array([0.3, -1.2]),
        "single": np.array([0.5]),
        "2d": rng.randn(30, 3),
    }
    for key, x in series.items():
        for metric in ("supremum", "euclidean", "manhattan"):
            for kw in ({"threshold": 0.4}, {"threshold": 0.0},
                       {"threshold": 50.0}, {"recurrence_rate": 0.2},
                       {"threshold_std": 0.5},
                       {"threshold": 0.6, "dim": 3, "tau": 2},
                       {"local_recurrence_rate": 0.15},
                       {"adaptive_neighborhood_size": 0.1}):
                for sparse in (False, True):
                    tag = (key, metric, repr(sorted(kw.items())), sparse)
                    try:
                        rp = RecurrencePlot(x, metric=metric, silence_level=2,
                                            sparse_rqa=sparse, **kw)
                    except BaseException as exc:  # pylint: disable=W0703
                        feed(tag, "CTOR-EXC:" + type(exc).__name__)
                        continue
                    measures(tag, rp)

    # missing values
    for n, frac in ((40, 0.1), (25, 0.3), (15, 0.0), (10, 1.0)):
        x = np.cumsum(rng.randn(n)) * 0.5
        x[rng.rand(n) < frac] = np.nan
        for metric in ("supremum", "euclidean"):
            for kw in ({"threshold": 0.8}, {"threshold": 0.8, "dim": 2,
                                            "tau": 1},
                       {"recurrence_rate": 0.3}):
                for sparse in (False, True):
                    tag = ("mv", n, frac, metric, repr(sorted(kw.items())),
                           sparse)
                    try:
                        rp = RecurrencePlot(
                            x, metric=metric, silence_level=2,
                            missing_values=True, sparse_rqa=sparse, **kw)
                    except BaseException as exc:  # pylint: disable=W0703
                        feed(tag, "CTOR-EXC:" + type(exc).__name__)
                        continue
                    measures(tag, rp)

    # cache invalidation / mutation sequences
    x = np.sin(np.linspace(0, 7, 35)) + 0.1 * rng.randn(35)
    rp = RecurrencePlot(x, threshold=0.3, silence_level=2)
    measures(("mut", 0), rp)
    rp.set_fixed_threshold(0.9)
    measures(("mut", 1), rp)
    rp.set_fixed_recurrence_rate(0.1)
    measures(("mut", 2), rp)
    rp.R = (rng.rand(35, 35) < 0.4).astype(np.int8)       # asymmetric matrix
    measures(("mut", 3), rp)
    rp.sparse_rqa = True
    rp.threshold = 0.5
    measures(("mut", 4), rp)
    rp.metric = "euclidean"
    measures(("mut", 5), rp)
    rp.metric = "supremum"
    rp.threshold = None
    measures(("mut", 6), rp)
    rp.threshold = 0.25
    rp.missing_values = True                     # no missing_value_indices
    measures(("mut", 7), rp)
    rp.missing_value_indices = rng.rand(35) < 0.2
    measures(("mut", 8), rp)
    rp.sparse_rqa = False
    measures(("mut", 9), rp)
    rp.embedding = rng.randn(20, 2)              # N changes, R stale
    measures(("mut", 10), rp)
    rp.missing_values = False
    rp.R = (rng.rand(20, 20) < 0.6).astype(np.int8)
    measures(("mut", 11), rp)
    rp._epsilon = 0.5
    measures(("mut", 12), rp)
    rp.R = None
    measures(("mut", 13), rp)
    rp.R = (rng.rand(20, 20) < 0.6).astype(np.int64)      # wrong dtype
    measures(("mut", 14), rp)
    rp.R = (rng.rand(20, 20) < 0.6)                        # bool
    measures(("mut", 15), rp)

    # subclasses
    y = np.cos(np.linspace(0, 5, 35))
    crp = attempt("crp-ctor", lambda: CrossRecurrencePlot(
        x, y, threshold=0.4, silence_level=2) and "ok")
    crp = CrossRecurrencePlot(x, y, threshold=0.4, silence_level=2)
    for meth in ("diagline_dist", "vertline_dist", "white_vertline_dist",
                 "determinism", "laminarity", "max_diaglength",
                 "average_white_vertlength", "rqa_summary", "diag_entropy",
                 "vert_entropy", "white_vert_entropy", "trapping_time"):
        attempt(("crp", meth), getattr(crp, meth))
    jrp = JointRecurrencePlot(x, y, threshold=(0.4, 0.5), silence_level=2)
    measures("jrp", jrp)
    jrp = JointRecurrencePlot(x, y, recurrence_rate=(0.2, 0.3), lag=3,
                              silence_level=2)
    measures("jrp-lag", jrp)
    rn = RecurrenceNetwork(x, threshold=0.4, silence_level=2)
    measures("rn", rn)
    rn = RecurrenceNetwork(x, recurrence_rate=0.15, dim=2, tau=3,
                           silence_level=2)
    measures("rn2", rn)


def main():
    out = io.StringIO()
    with contextlib.redirect_stdout(out):
        with np.errstate(all="ignore"):
            kernels()
            api()
    feed("stdout", hashlib.sha256(out.getvalue().encode()).hexdigest())
    print("C08-digest", H.hexdigest())


if __name__ == "__main__":
    main()
