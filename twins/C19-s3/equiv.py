"""
Equivalence digest for property C19 (distributed computation returns the
serial result).

Runs the distributable measures of pyunicorn.core.Network serially and through
the master loops (with a recording stand-in for pyunicorn.utils.mpi that
executes every submitted call locally), logs every submitted chunk (callable
name, id, bounds, argument dtypes/shapes/bytes, keyword arguments), the order
of get_result() calls, the printed progress text (without timings) and the
results at full precision, and prints one sha256 over all of that.

Run as:  PYTHONPATH=<worktree>/src /venv/bin/python equiv.py
"""
import os
for _v in ("OMP_NUM_THREADS", "OPENBLAS_NUM_THREADS", "MKL_NUM_THREADS"):
    os.environ[_v] = "1"
# pylint: disable=wrong-import-position
import contextlib
import hashlib
import io
import re
import sys

import numpy as np
import scipy.sparse as sp

import pyunicorn  # noqa: F401  (must be importable as sys.modules["pyunicorn"])
from pyunicorn.core import network as netmod
from pyunicorn.core.network import Network
from pyunicorn.core._ext import numerics as cynum
from pyunicorn.core._ext.types import ADJ, DFIELD, DWEIGHT, MASK

H = hashlib.sha256()
LINES = []


def emit(*parts):
    line = " ".join(str(p) for p in parts)
    LINES.append(line)
    H.update(line.encode() + b"\n")


def describe(x):
    """Deterministic, type-sensitive description of an argument/result."""
    if isinstance(x, np.ndarray):
        return (f"nd[{x.dtype.str},{x.shape},"
                f"{hashlib.sha256(np.ascontiguousarray(x).tobytes()).hexdigest()[:24]}]")
    if sp.issparse(x):
        return f"sp[{x.format}," + describe(np.asarray(x.toarray())) + "]"
    if isinstance(x, (tuple, list)):
        return type(x).__name__ + "(" + ",".join(describe(y) for y in x) + ")"
    return f"{type(x).__name__}:{x!r}"


class FakeMPI:
    """Stand-in for pyunicorn.utils.mpi with slaves 'available'."""

    def __init__(self, size):
        self.available = True
        self.size = size
        self.results = {}
        self.order = []

    # pylint: disable=redefined-builtin,dangerous-default-value
    def submit_call(self, name_to_call, args=(), kwargs={},
                    module="__main__", time_est=1, id=None, slave=None):
        emit("submit", name_to_call, "module=" + module, "id=" + describe(id),
             "time_est=" + describe(time_est), "slave=" + describe(slave),
             "kwargs=" + repr(sorted(kwargs)), "args=" + describe(tuple(args)))
        if id in self.results:
            raise RuntimeError("duplicate id")
        obj = eval(name_to_call, sys.modules[module].__dict__)
        self.results[id] = obj(*args, **kwargs)
        self.order.append(id)
        return id

    def get_result(self, id):
        emit("get_result", describe(id))
        return self.results.pop(id)


def clean(text):
    return "\n".join(ln for ln in text.splitlines()
                     if not ln.startswith("...took"))


def run(label, fun):
    buf = io.StringIO()
    try:
        with contextlib.redirect_stdout(buf):
            res = fun()
        emit(label, "->", describe(np.asarray(res)),
             np.asarray(res).tobytes().hex())
    except BaseException as e:  # pylint: disable=broad-except
        emit(label, "-> EXC", type(e).__name__)
    emit("stdout", hashlib.sha256(clean(buf.getvalue()).encode()).hexdigest())


def make_adjacency(rng, sizes, p):
    """Block adjacency with the given component sizes (each connected),
    nodes shuffled so that components are interleaved."""
    n = sum(sizes)
    A = np.zeros((n, n), dtype=int)
    off = 0
    for s in sizes:
        blk = np.triu((rng.random((s, s)) < p).astype(int), 1)
        for i in range(s - 1):  # spanning path keeps the block connected
            blk[i, i + 1] = 1
        A[off:off + s, off:off + s] = blk + blk.T
        off += s
    perm = rng.permutation(n)
    return A[np.ix_(perm, perm)]


def measures(net):
    return [
        ("newman", net.newman_betweenness),
        ("nsi_newman", net.nsi_newman_betweenness),
        ("nsi_newman_ends",
         lambda: net.nsi_newman_betweenness(add_local_ends=True)),
        ("nsi_arenas", net.nsi_arenas_betweenness),
        ("nsi_arenas_incl",
         lambda: net.nsi_arenas_betweenness(exclude_neighbors=False)),
        ("nsi_arenas_twin",
         lambda: net.nsi_arenas_betweenness(stopping_mode="twinness")),
    ]


def network_cases():
    rng = np.random.default_rng(20240819)
    cases = []
    for sizes, p in [((6,), 0.4), ((10,), 0.3), ((11,), 0.3), ((19, 1), 0.2),
                     ((20,), 0.2), ((21, 2), 0.2), ((25, 3, 1), 0.15),
                     ((30,), 0.15), ((31, 7), 0.12), ((37,), 0.1),
                     ((40, 12), 0.1), ((47,), 0.1), ((2, 2, 1), 1.0),
                     ((53,), 0.08)]:
        A = make_adjacency(rng, sizes, p)
        w = rng.uniform(0.5, 3.0, size=A.shape[0])
        cases.append((sizes, A, w))
    return cases


def master_loops():
    real_mpi = netmod.mpi
    for sizes, A, w in network_cases():
        for silence in (0, 2):
            # serial reference
            netmod.mpi = real_mpi
            assert not real_mpi.available
            for name, _ in measures(Network(adjacency=A, node_weights=w,
                                            silence_level=2)):
                net = Network(adjacency=A, node_weights=w,
                              silence_level=silence)
                run(f"serial {sizes} s{silence} {name}",
                    dict(measures(net))[name])
            # distributed with different numbers of workers
            for size in (2, 3, 4, 6, 13):
                for name, _ in measures(Network(adjacency=A, node_weights=w,
                                                silence_level=2)):
                    if silence == 0 and size not in (2, 4):
                        continue
                    net = Network(adjacency=A, node_weights=w,
                                  silence_level=silence)
                    fake = FakeMPI(size)
                    netmod.mpi = fake
                    try:
                        run(f"mpi{size} {sizes} s{silence} {name}",
                            dict(measures(net))[name])
                    finally:
                        netmod.mpi = real_mpi
                    emit("order", fake.order, "left", sorted(fake.results))


def arenas_stub(N, sp_P, this_Aplus, w, this_w, start_i, end_i,
                exclude_neighbors, stopping_mode, this_twinness):
    """Cheap deterministic stand-in for the n.s.i. Arenas chunk worker."""
    emit("stub", describe((N, sp_P, this_Aplus, w, this_w, start_i, end_i,
                           exclude_neighbors, stopping_mode, this_twinness)))
    val = (np.arange(N, dtype=float) * (start_i + 1) + end_i
           + float(this_w.sum()) + float(this_Aplus.sum()))
    return '', (val, start_i, end_i)


def big_master_loops():
    """Many chunks, parts < max_parts (e.g. N=205 with 2 slaves): real
    compiled workers for the Newman measures, stub worker for Arenas."""
    rng = np.random.default_rng(99)
    real_mpi = netmod.mpi
    real_worker = Network._mpi_nsi_arenas_betweenness
    Network._mpi_nsi_arenas_betweenness = staticmethod(arenas_stub)
    try:
        for sizes, p in [((205, 3), 0.02), ((333,), 0.012),
                         ((600, 112, 1), 0.006)]:
            A = make_adjacency(rng, sizes, p)
            w = rng.uniform(0.5, 3.0, size=A.shape[0])
            names = ["newman", "nsi_newman", "nsi_arenas", "nsi_arenas_twin"]
            if sizes[0] > 400:
                names = names[2:]
            for size in (None, 2, 3, 4, 7, 13):
                for silence in (0, 2):
                    for name in names:
                        net = Network(adjacency=A, node_weights=w,
                                      silence_level=silence)
                        fake = None
                        if size is not None:
                            fake = netmod.mpi = FakeMPI(size)
                        try:
                            run(f"big mpi{size} {sizes} s{silence} {name}",
                                dict(measures(net))[name])
                        finally:
                            netmod.mpi = real_mpi
                        if fake is not None:
                            emit("order", fake.order, "left",
                                 sorted(fake.results))
    finally:
        Network._mpi_nsi_arenas_betweenness = staticmethod(real_worker)


def kernels():
    rng = np.random.default_rng(77)
    for N in (1, 2, 5, 9, 16):
        A = np.triu((rng.random((N, N)) < 0.5).astype(ADJ), 1)
        A = (A + A.T).astype(ADJ)
        V = rng.normal(size=(N, N)).astype(DFIELD)
        w = rng.uniform(0.5, 2.0, size=N).astype(DWEIGHT)
        nae = (1 - A - np.identity(N)).astype(MASK)
        bounds = [(0, N), (0, 0), (N, N), (1, N), (0, N - 1), (N // 2, N),
                  (N // 3, 2 * N // 3 + 1), (2, 1), (N, 0), (0, N + 1),
                  (1, N + 1), (-1, 1), (N - 1, N)]
        for a, b in bounds:
            rows = slice(max(a, 0), max(min(b, N), 0))
            for label, call in [
                ("k_newman", lambda: cynum._mpi_newman_betweenness(
                    np.ascontiguousarray(A[rows]), V, N, a, b)),
                ("k_nsi_newman", lambda: cynum._mpi_nsi_newman_betweenness(
                    np.ascontiguousarray(A[rows]), V, N, w,
                    np.ascontiguousarray(nae[rows]), a, b)),
                # full matrices with a partial range: only leading rows used
                ("k_newman_full", lambda: cynum._mpi_newman_betweenness(
                    A, V, N, a, b)),
                ("k_nsi_newman_full",
                 lambda: cynum._mpi_nsi_newman_betweenness(
                     A, V, N, w, nae, a, b)),
            ]:
                try:
                    res = call()
                    emit(label, N, a, b, describe(tuple(res)),
                         res[0].tobytes().hex())
                except BaseException as e:  # pylint: disable=broad-except
                    emit(label, N, a, b, "EXC", type(e).__name__, str(e))

    # python chunk worker of the n.s.i. Arenas betweenness
    for N in (4, 9, 14):
        A = make_adjacency(rng, (N,), 0.4)
        w = rng.uniform(0.5, 2.0, size=N)
        sub = Network(adjacency=A, node_weights=w, silence_level=2)
        Aplus = (A + np.identity(N)).astype(int)
        tw = np.asarray(sub.nsi_twinness())
        sp_P = (sub.sp_nsi_diag_k_inv() * sub.sp_Aplus()
                * sub.sp_diag_w()).todok()
        for a, b in [(0, N), (0, 0), (1, N), (N // 2, N), (2, 3), (3, 2),
                     (N - 1, N), (N, N)]:
            for excl in (True, False):
                for mode, this_tw in (("neighbors", None),
                                      ("twinness", tw[a:b, :])):
                    try:
                        err, res = Network._mpi_nsi_arenas_betweenness(
                            N, sp_P, Aplus[a:b, :], w, w[a:b], a, b,
                            excl, mode, this_tw)
                        emit("k_arenas", N, a, b, excl, mode, repr(err),
                             describe(res), res[0].tobytes().hex())
                    except BaseException as e:  # pylint: disable=broad-except
                        emit("k_arenas", N, a, b, excl, mode, "EXC",
                             type(e).__name__)
        emit("sp_P unchanged", describe(sp_P.tocsc()))


def pool_split():
    rng = np.random.default_rng(5)
    A = make_adjacency(rng, (17, 4), 0.25)
    w = rng.uniform(0.5, 3.0, size=A.shape[0])
    net = Network(adjacency=A, node_weights=w, silence_level=2)
    run("nsi_betw serial", lambda: net.nsi_betweenness())
    run("nsi_betw pool", lambda: net.nsi_betweenness(parallelize=True))
    run("betw subset",
        lambda: net.nsi_betweenness(sources=[0, 3, 5], targets=[1, 2, 8, 20]))


if __name__ == "__main__":
    master_loops()
    big_master_loops()
    kernels()
    if "--no-pool" not in sys.argv:
        pool_split()
    if "--dump" in sys.argv:
        print("\n".join(re.sub(r"\s+$", "", ln) for ln in LINES))
    print("lines", len(LINES))
    print("digest", H.hexdigest())
