"""Equivalence digest for C15 twin_3: twin walk kernels
(_twin_surrogates_s / _twin_surrogates_r) and their Python callers."""
import hashlib
import random
import numpy as np
from pyunicorn.timeseries.surrogates import Surrogates
from pyunicorn.timeseries.recurrence_plot import RecurrencePlot
from pyunicorn.timeseries._ext.numerics import \
    _twin_surrogates_s, _twin_surrogates_r
from pyunicorn.core._ext.types import DFIELD

H = hashlib.sha256()

# _twin_surrogates_r re-seeds the stdlib generator from the OS on every call;
# neutralise that so that the walk is reproducible (the call itself is kept).
_seed_calls = []
_real_seed = random.seed
random.seed = lambda *a, **k: _seed_calls.append((a, tuple(sorted(k))))


def put(tag, obj):
    H.update(tag.encode())
    if isinstance(obj, np.ndarray):
        H.update(str(obj.dtype).encode())
        H.update(str(obj.shape).encode())
        H.update(np.ascontiguousarray(obj).tobytes())
    else:
        H.update(repr(obj).encode())


def attempt(tag, fn):
    try:
        put(tag, fn())
    except Exception as e:  # noqa
        put(tag, "EXC:" + type(e).__name__)
    # position of the stdlib RNG stream after the call
    put(tag + "/rng", random.random())


def datasets():
    rng = np.random.RandomState(77)
    yield "periodic", np.array([np.arange(60) % 5, (np.arange(60) * 2) % 7,
                                np.arange(60) % 3], dtype=float)
    yield "discrete", rng.randint(0, 3, size=(4, 45)).astype(float)
    yield "gauss", rng.randn(3, 40)
    yield "small", Surrogates.SmallTestData().original_data[:, :80]
    yield "const", np.ones((2, 25))
    yield "short", rng.randint(0, 2, size=(2, 6)).astype(float)
    yield "len1", rng.rand(2, 1)


# --- Surrogates.twin_surrogates (uses _twin_surrogates_s)
for name, data in datasets():
    for dim, delay in ((1, 0), (2, 1), (3, 2)):
        for thr in (0.1, 0.6, 2.5):
            for min_dist in (7, 1, 0):
                s = Surrogates(original_data=data.copy(), silence_level=2)
                tag = f"S/{name}/{dim}/{delay}/{thr}/{min_dist}"
                _real_seed(hash((dim, delay, min_dist)) % 1000)
                attempt(tag, lambda: s.twin_surrogates(
                    dim, delay, thr, min_dist))
                attempt(tag + "/again", lambda: s.twin_surrogates(
                    dim, delay, thr, min_dist))
                put(tag + "/data", s.original_data)
                put(tag + "/state", (s._mut_embedding, s._mut_data))
    s = Surrogates(original_data=data.copy(), silence_level=2)
    _real_seed(3)
    attempt(f"S/{name}/default", lambda: s.twin_surrogates(1, 0, 0.2))

# --- direct kernel calls with hand made twin lists
rng = np.random.RandomState(1)
data = rng.randn(3, 10)
twin_sets = {
    "none": [[[] for _ in range(10)] for _ in range(3)],
    "chain": [[[(k + 3) % 10] for k in range(10)] for _ in range(3)],
    "many": [[[m for m in range(10) if m != k and (m + k) % 3 == 0]
              for k in range(10)] for _ in range(3)],
    "last": [[[9] for k in range(10)] for _ in range(3)],
    "tuples": [tuple(tuple([(k * 7) % 10]) for k in range(10))
               for _ in range(3)],
    "neg": [[[-1] for k in range(10)] for _ in range(3)],
    "big": [[[10] for k in range(10)] for _ in range(3)],
    "huge": [[[2 ** 40] for k in range(10)] for _ in range(3)],
    "str": [[["a"] for k in range(10)] for _ in range(3)],
    "float": [[[2.0] for k in range(10)] for _ in range(3)],
    "shortlist": [[[1]] * 4 for _ in range(3)],
    "fewrows": [[[] for _ in range(10)]],
    "noneentry": [[None] * 10 for _ in range(3)],
}
for tname, tw in twin_sets.items():
    for seed in (0, 1, 2):
        for n_sur, N in ((3, 10), (2, 7), (1, 1), (0, 10), (3, 0), (3, 11),
                         (4, 10)):
            _real_seed(seed)
            attempt(f"KS/{tname}/{seed}/{n_sur}/{N}",
                    lambda: _twin_surrogates_s(n_sur, N, tw, data))
attempt("KS/None", lambda: _twin_surrogates_s(2, 10, None, data))

emb = rng.randn(10, 2)
for tname, tw3 in twin_sets.items():
    tw = tw3[0]
    for seed in (0, 1, 2):
        for n_sur, N, dim in ((3, 10, 2), (2, 7, 2), (1, 1, 2), (0, 10, 2),
                              (2, 0, 2), (2, 11, 2), (2, 10, 1), (2, 10, 3)):
            _real_seed(seed)
            attempt(f"KR/{tname}/{seed}/{n_sur}/{N}/{dim}",
                    lambda: _twin_surrogates_r(n_sur, N, dim, tw, emb))
attempt("KR/None", lambda: _twin_surrogates_r(2, 10, 2, None, emb))

# --- RecurrencePlot.twin_surrogates (uses _twin_surrogates_r)
for name, data in datasets():
    for row in range(min(2, data.shape[0])):
        for kw in (dict(threshold=0.1), dict(threshold=0.7),
                   dict(recurrence_rate=0.2),
                   dict(threshold=0.6, dim=2, tau=1)):
            tag = f"R/{name}/{row}/{sorted(kw.items())}"
            try:
                rp = RecurrencePlot(data[row].copy(), silence_level=2, **kw)
            except Exception as e:  # noqa
                put(tag, "EXC:" + type(e).__name__)
                continue
            for n_sur, min_dist in ((1, 7), (3, 1), (2, 0), (0, 7)):
                _real_seed(n_sur * 10 + min_dist)
                attempt(f"{tag}/{n_sur}/{min_dist}", lambda: rp.twin_surrogates(
                    n_surrogates=n_sur, min_dist=min_dist))
            _real_seed(9)
            attempt(f"{tag}/default", rp.twin_surrogates)
            put(f"{tag}/emb", np.asarray(rp.embedding))

put("seed_calls", (len(_seed_calls), sorted(set(_seed_calls))))
print(H.hexdigest())
