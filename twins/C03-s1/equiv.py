"""
Equivalence digest for twin_1 (cliquishness kernels of order 4 and 5).

Run as:  PYTHONPATH=<worktree>/src /venv/bin/python equiv.py
"""
import hashlib
import io
from contextlib import redirect_stdout

import numpy as np

from pyunicorn.core.network import Network, NetworkError
from pyunicorn.core._ext.types import to_cy, ADJ, DEGREE
from pyunicorn.core._ext.numerics import (
    _local_cliquishness_4thorder, _local_cliquishness_5thorder)

H = hashlib.sha256()


def feed(tag, obj):
    H.update(tag.encode())
    if isinstance(obj, np.ndarray):
        H.update(str(obj.dtype).encode())
        H.update(str(obj.shape).encode())
        H.update(np.ascontiguousarray(obj).tobytes())
    else:
        H.update(repr(obj).encode())


def attempt(tag, func, *args):
    try:
        feed(tag, func(*args))
    except Exception as exc:  # pylint: disable=broad-except
        feed(tag, "EXC:" + type(exc).__name__ + ":" + str(exc))


def sym_adjacency(rng, n, p):
    upper = np.triu((rng.random((n, n)) < p).astype(ADJ), k=1)
    return upper + upper.T


rng = np.random.default_rng(20240803)
out = io.StringIO()
with redirect_stdout(out):
    # -- through the public interface ----------------------------------------
    cases = [(n, p) for n in (2, 3, 4, 5, 6, 9, 14, 23, 40)
             for p in (0.0, 0.2, 0.5, 0.8, 1.0)]
    for n, p in cases:
        A = sym_adjacency(rng, n, p)
        net = Network(adjacency=A, directed=False, silence_level=2)
        for order in (0, 1, 2, 3, 4, 5, 6, -1):
            attempt(f"pub{n}/{p}/{order}", net.local_cliquishness, order)
    # structured graphs: complete, star, ring, two cliques joined by a link
    n = 12
    structured = {
        "complete": 1 - np.eye(n, dtype=ADJ),
        "star": np.zeros((n, n), dtype=ADJ),
        "ring": np.zeros((n, n), dtype=ADJ),
        "barbell": np.zeros((n, n), dtype=ADJ)}
    structured["star"][0, 1:] = structured["star"][1:, 0] = 1
    for i in range(n):
        structured["ring"][i, (i+1) % n] = structured["ring"][(i+1) % n, i] = 1
    structured["barbell"][:6, :6] = 1 - np.eye(6, dtype=ADJ)
    structured["barbell"][6:, 6:] = 1 - np.eye(6, dtype=ADJ)
    structured["barbell"][5, 6] = structured["barbell"][6, 5] = 1
    for name, A in structured.items():
        net = Network(adjacency=A, directed=False, silence_level=2)
        for order in (4, 5):
            attempt(f"struct/{name}/{order}", net.local_cliquishness, order)
    # directed networks are refused
    net = Network(adjacency=(rng.random((7, 7)) < .4).astype(ADJ),
                  directed=True, silence_level=2)
    for order in (3, 4, 5):
        attempt(f"directed/{order}", net.local_cliquishness, order)
    net = Network.SmallTestNetwork()
    for order in (3, 4, 5):
        attempt(f"small/{order}", net.local_cliquishness, order)

    # -- kernels called directly, also with unusual arguments ----------------
    for kernel in (_local_cliquishness_4thorder, _local_cliquishness_5thorder):
        name = kernel.__name__
        for n, p in [(8, 0.6), (15, 0.5), (30, 0.35)]:
            # non-symmetric matrices with a non-zero diagonal and entries != 1
            A = (rng.random((n, n)) < p).astype(ADJ)
            A[rng.integers(0, n, 3), rng.integers(0, n, 3)] = 2
            out_deg = to_cy((A == 1).sum(axis=1), DEGREE)
            attempt(f"{name}/asym/{n}", kernel, n, A, out_deg)
            attempt(f"{name}/asymT/{n}", kernel, n, A.T.copy(), out_deg)
            # degrees which disagree with the matrix (stale neighbor entries
            # of previously visited nodes are then read)
            smaller = to_cy(np.maximum(out_deg - 1, 0), DEGREE)
            attempt(f"{name}/smaller/{n}", kernel, n, A, smaller)
            larger = to_cy(np.minimum(out_deg + 2, n), DEGREE)
            attempt(f"{name}/larger/{n}", kernel, n, A, larger)
            negative = to_cy(-out_deg, DEGREE)
            attempt(f"{name}/negative/{n}", kernel, n, A, negative)
            # read-only and non-contiguous inputs
            ro = A.copy()
            ro.setflags(write=False)
            attempt(f"{name}/readonly/{n}", kernel, n, ro, out_deg)
            wide = np.zeros((n, 2 * n), dtype=ADJ)
            wide[:, ::2] = A
            attempt(f"{name}/strided/{n}", kernel, n, wide[:, ::2], out_deg)
            # fewer nodes visited than the matrix holds
            attempt(f"{name}/partial/{n}", kernel, n - 3, A, out_deg)
            # out of bounds and wrong types
            attempt(f"{name}/toobig/{n}", kernel, n + 1, A, out_deg)
            attempt(f"{name}/shortdeg/{n}", kernel, n, A, out_deg[:-2])
            attempt(f"{name}/hugedeg/{n}", kernel, n, A,
                    to_cy(out_deg + n + 5, DEGREE))
            attempt(f"{name}/wrongdtype/{n}", kernel, n, A.astype(np.int64),
                    out_deg)
            attempt(f"{name}/wrongdeg/{n}", kernel, n, A,
                    out_deg.astype(np.int32))
            attempt(f"{name}/none/{n}", kernel, n, None, out_deg)
        attempt(f"{name}/empty", kernel, 0, np.zeros((0, 0), dtype=ADJ),
                np.zeros(0, dtype=DEGREE))

feed("stdout", out.getvalue())
print(H.hexdigest())
