"""
Equivalence digest for property C08 (RQA line statistics).

Run as:  PYTHONPATH=<worktree>/src /venv/bin/python equiv.py
Prints one sha256 digest over all results (arrays bit for bit, floats via
float.hex, exception type names, captured stdout).
"""
import contextlib
import hashlib
import io
import random
import sys
import warnings

import numpy as np

warnings.simplefilter("ignore")

from pyunicorn.timeseries._ext import numerics as K            # noqa: E402
from pyunicorn.timeseries import (                              # noqa: E402
    RecurrencePlot, RecurrenceNetwork, JointRecurrencePlot,
    CrossRecurrencePlot)

H = hashlib.sha256()
COUNT = [0, 0]


def feed(tag, obj):
    COUNT[0] += 1
    H.update(repr(tag).encode())
    if isinstance(obj, np.ndarray):
        H.update(str(obj.dtype).encode())
        H.update(repr(obj.shape).encode())
        H.update(np.ascontiguousarray(obj).tobytes())
    elif isinstance(obj, (float, np.floating)):
        H.update(type(obj).__name__.encode())
        H.update(float(obj).hex().encode())
    elif isinstance(obj, (int, np.integer)):
        H.update(type(obj).__name__.encode())
        H.update(repr(int(obj)).encode())
    elif isinstance(obj, dict):
        for key in sorted(obj):
            feed((tag, key), obj[key])
    elif isinstance(obj, (tuple, list)):
        for n, o in enumerate(obj):
            feed((tag, n), o)
    elif isinstance(obj, (str, bool, type(None))):
        H.update(repr(obj).encode())
    else:
        # library objects: class name and string form (no addresses)
        H.update(type(obj).__name__.encode())
        H.update(str(obj).encode())


def attempt(tag, f, *args, **kwargs):
    """Call f, record result or exception type plus captured stdout."""
    buf = io.StringIO()
    try:
        with contextlib.redirect_stdout(buf):
            res = f(*args, **kwargs)
    except BaseException as e:  # pylint: disable=broad-except
        COUNT[1] += 1
        res = ("EXC", type(e).__name__, str(e))
    feed(tag, res)
    feed((tag, "stdout"), buf.getvalue())
    return res


# ----------------------------------------------------------------------------
# Part A: the nine compiled wrappers, called directly
# ----------------------------------------------------------------------------

R_KERNELS = ["_vertline_dist", "_diagline_dist", "_white_vertline_dist"]
RM_KERNELS = ["_vertline_dist_missingvalues", "_diagline_dist_missingvalues"]
E_KERNELS = ["_vertline_dist_sequential", "_diagline_dist_sequential"]
EM_KERNELS = ["_vertline_dist_sequential_missingvalues",
              "_diagline_dist_sequential_missingvalues"]

for name in R_KERNELS + RM_KERNELS + E_KERNELS + EM_KERNELS:
    feed(("doc", name), getattr(K, name).__doc__)


def call_kernel(tag, name, n_time, hist, *rest):
    attempt((tag, name, "ret"), getattr(K, name), n_time, hist, *rest)
    feed((tag, name, "hist"), hist)


def masks(rng, N):
    out = [np.zeros(N, dtype=bool), np.ones(N, dtype=bool)]
    for p in (0.1, 0.3, 0.6):
        out.append(rng.random(N) < p)
    m = np.zeros(N, dtype=bool)
    if N:
        m[0] = True
        m[-1] = True
    out.append(m)
    # int8 mask is accepted as well (cast=True)
    out.append((rng.random(N) < 0.2).astype(np.int8))
    return out


def matrices(rng, N):
    out = []
    for p in (0.0, 0.1, 0.5, 0.9, 1.0):
        A = (rng.random((N, N)) < p).astype(np.int8)
        out.append(A)                           # non-symmetric
        S = np.maximum(A, A.T)
        np.fill_diagonal(S, 1)
        out.append(S)                           # symmetric, full diagonal
    out.append(rng.integers(0, 3, size=(N, N)).astype(np.int8))   # 0,1,2
    out.append(rng.integers(-1, 2, size=(N, N)).astype(np.int8))  # -1,0,1
    out.append(np.asfortranarray(
        (rng.random((N, N)) < 0.5).astype(np.int8)))
    return out


rng = np.random.default_rng(20240608)
for N in (0, 1, 2, 3, 4, 7, 12, 25):
    for a, R in enumerate(matrices(rng, N)):
        for name in R_KERNELS:
            call_kernel(("A1", N, a), name, N, np.zeros(N, dtype=np.int32), R)
        # pre-filled histogram accumulates
        for name in R_KERNELS:
            call_kernel(("A2", N, a), name, N,
                        np.arange(N, dtype=np.int32) * 3 - 4, R)
        for b, M in enumerate(masks(rng, N)):
            for name in RM_KERNELS:
                call_kernel(("A3", N, a, b), name, N,
                            np.zeros(N, dtype=np.int32), R, M)
        # n_time smaller than the matrix: leading block only
        for n_sub in (N - 1, N // 2):
            if n_sub < 0:
                continue
            for name in R_KERNELS:
                call_kernel(("A4", N, a, n_sub), name, n_sub,
                            np.zeros(N, dtype=np.int32), R)
            for name in RM_KERNELS:
                call_kernel(("A5", N, a, n_sub), name, n_sub,
                            np.zeros(N, dtype=np.int32), R,
                            rng.random(N) < 0.3)

    for dim in (1, 2, 3):
        for c in range(3):
            E = rng.standard_normal((N, dim))
            if c == 1:
                E = np.round(E * 2) / 2          # many ties with eps
            if c == 2 and N > 2:
                E[rng.integers(0, N), rng.integers(0, dim)] = np.nan
                E[rng.integers(0, N), rng.integers(0, dim)] = np.inf
            for eps in (0.0, 0.5, 1.0, 2.5, np.inf, np.nan, -1.0):
                for name in E_KERNELS:
                    call_kernel(("A6", N, dim, c, eps), name, N,
                                np.zeros(N, dtype=np.int32), E, eps, dim)
                for b, M in enumerate(masks(rng, N)):
                    for name in EM_KERNELS:
                        call_kernel(("A7", N, dim, c, eps, b), name, N,
                                    np.zeros(N, dtype=np.int32), M, E, eps,
                                    dim)
            # use fewer components than stored, zero or negative `dim`
            for d in (dim - 1, 0, -1, dim + 1):
                for name in E_KERNELS:
                    call_kernel(("A8", N, dim, c, d), name, N,
                                np.zeros(N, dtype=np.int32), E, 1.0, d)
                for name in EM_KERNELS:
                    call_kernel(("A9", N, dim, c, d), name, N,
                                np.zeros(N, dtype=np.int32),
                                rng.random(N) < 0.3, E, 1.0, d)

# error behaviour (exceptions and partial histogram updates)
rng = np.random.default_rng(77)
N = 9
R = (rng.random((N, N)) < 0.6).astype(np.int8)
E = rng.standard_normal((N, 2))
M = rng.random(N) < 0.3
for name in R_KERNELS:
    call_kernel("B1", name, N, np.zeros(3, dtype=np.int32), R)       # short
    call_kernel("B2", name, N + 3, np.zeros(N + 3, dtype=np.int32), R)
    call_kernel("B3", name, -4, np.zeros(N, dtype=np.int32), R)
    call_kernel("B4", name, N, np.zeros(N, dtype=np.int32), None)
    call_kernel("B5", name, 0, np.zeros(N, dtype=np.int32), None)
    call_kernel("B6", name, N, np.zeros(N, dtype=np.int64), R)
    call_kernel("B7", name, N, np.zeros(N, dtype=np.int32),
                R.astype(np.int32))
    call_kernel("B8", name, N, np.zeros(N, dtype=np.int32), R[0])
    call_kernel("B9", name, N, None, R)
    call_kernel("B10", name, N, np.zeros(N, dtype=np.int32), R[:, :4])
    call_kernel("B11", name, N, np.zeros(N, dtype=np.int32), R[:4, :])
    call_kernel("B12", name, "x", np.zeros(N, dtype=np.int32), R)
for name in RM_KERNELS:
    call_kernel("C1", name, N, np.zeros(3, dtype=np.int32), R, M)
    call_kernel("C2", name, N, np.zeros(N, dtype=np.int32), R, M[:4])
    call_kernel("C3", name, N, np.zeros(N, dtype=np.int32), R,
                M.astype(float))
    call_kernel("C4", name, N, np.zeros(N, dtype=np.int32), R, None)
    call_kernel("C5", name, N, np.zeros(N, dtype=np.int32), None, M)
    call_kernel("C6", name, N + 2, np.zeros(N + 2, dtype=np.int32), R,
                np.zeros(N + 2, dtype=bool))
    call_kernel("C7", name, N, np.zeros(N, dtype=np.int32), R,
                np.zeros((N, 1), dtype=bool))
for name in E_KERNELS:
    call_kernel("D1", name, N, np.zeros(3, dtype=np.int32), E, 1.0, 2)
    call_kernel("D2", name, N + 2, np.zeros(N + 2, dtype=np.int32), E, 1.0, 2)
    call_kernel("D3", name, N, np.zeros(N, dtype=np.int32), E, 1.0, 5)
    call_kernel("D4", name, N, np.zeros(N, dtype=np.int32), None, 1.0, 2)
    call_kernel("D5", name, N, np.zeros(N, dtype=np.int32),
                E.astype(np.float32), 1.0, 2)
    call_kernel("D6", name, N, np.zeros(N, dtype=np.int32), E, "a", 2)
    call_kernel("D7", name, N, np.zeros(N, dtype=np.int32), E, 1.0, 0)
    call_kernel("D8", name, N, np.zeros(N, dtype=np.int32), E[:, 0], 1.0, 1)
for name in EM_KERNELS:
    call_kernel("E1", name, N, np.zeros(3, dtype=np.int32), M, E, 1.0, 2)
    call_kernel("E2", name, N, np.zeros(N, dtype=np.int32), M[:3], E, 1.0, 2)
    call_kernel("E3", name, N, np.zeros(N, dtype=np.int32), None, E, 1.0, 2)
    call_kernel("E4", name, N, np.zeros(N, dtype=np.int32), M, None, 1.0, 2)
    call_kernel("E5", name, N, np.zeros(N, dtype=np.int32), M, E, 1.0, 7)
    call_kernel("E6", name, N, np.zeros(N, dtype=np.int32), M, E, 1.0, 0)
    call_kernel("E7", name, N, np.zeros(N, dtype=np.int32),
                M.astype(np.int32), E, 1.0, 2)


# ----------------------------------------------------------------------------
# Part B: the RecurrencePlot API built on top of the kernels
# ----------------------------------------------------------------------------

MEASURES = [
    ("recurrence_rate", ()),
    ("diagline_dist", ()), ("vertline_dist", ()), ("white_vertline_dist", ()),
    ("max_diaglength", ()), ("max_vertlength", ()),
    ("max_white_vertlength", ()),
    ("determinism", ()), ("determinism", (1,)), ("determinism", (3,)),
    ("average_diaglength", ()), ("average_diaglength", (1,)),
    ("average_diaglength", (4,)),
    ("diag_entropy", ()), ("diag_entropy", (1,)), ("diag_entropy", (3,)),
    ("laminarity", ()), ("laminarity", (1,)), ("laminarity", (3,)),
    ("average_vertlength", ()), ("average_vertlength", (1,)),
    ("trapping_time", ()), ("trapping_time", (3,)),
    ("vert_entropy", ()), ("vert_entropy", (1,)), ("vert_entropy", (4,)),
    ("average_white_vertlength", ()), ("average_white_vertlength", (2,)),
    ("mean_recurrence_time", ()), ("mean_recurrence_time", (3,)),
    ("white_vert_entropy", ()), ("white_vert_entropy", (2,)),
    ("rqa_summary", ()), ("rqa_summary", (1, 3)),
    # beyond the histogram length
    ("determinism", (500,)), ("laminarity", (500,)),
    ("average_white_vertlength", (500,)),
]


def all_measures(tag, rp):
    for m, args in MEASURES:
        attempt((tag, m, args), getattr(rp, m), *args)
    # user-supplied (resampled) histograms
    n = rp.N
    r = np.random.default_rng(n + 5)
    for q, rd in enumerate([r.integers(0, 5, size=n).astype(np.int32),
                            np.zeros(n, dtype=np.int32),
                            r.integers(0, 3, size=n).astype(np.int64)]):
        for m in ("determinism", "average_diaglength", "diag_entropy",
                  "laminarity", "average_vertlength", "trapping_time",
                  "vert_entropy"):
            attempt((tag, m, "resampled", q), getattr(rp, m), 2, rd)
            attempt((tag, m, "resampled_kw", q), getattr(rp, m),
                    resampled_dist=rd)
    random.seed(4711)
    np.random.seed(4711)
    attempt((tag, "resample_diagline_dist"), rp.resample_diagline_dist, 50)
    attempt((tag, "resample_vertline_dist"), rp.resample_vertline_dist, 50)
    # the histograms are returned again on a repeated call (cache)
    attempt((tag, "diagline_dist", "again"), rp.diagline_dist)
    attempt((tag, "vertline_dist", "again"), rp.vertline_dist)
    attempt((tag, "white_vertline_dist", "again"), rp.white_vertline_dist)
    feed((tag, "state"), sorted(
        k for k in vars(rp) if not k.startswith("_Cached")))


def series(rng, n, d, kind):
    if kind == 0:
        x = rng.standard_normal((n, d))
    elif kind == 1:
        t = np.arange(n)
        x = np.sin(0.4 * t)[:, None] * np.ones((1, d)) \
            + 0.05 * rng.standard_normal((n, d))
    elif kind == 2:
        x = np.repeat(rng.integers(0, 3, size=(n + 3) // 4), 4)[:n]
        x = (x[:, None] * np.ones((1, d))).astype(float)
    else:
        x = np.cumsum(rng.standard_normal((n, d)), axis=0)
    return x[:, 0] if d == 1 else x


def with_nans(rng, x, p):
    x = np.array(x, dtype=float, copy=True)
    idx = rng.random(x.shape[0]) < p
    if x.ndim == 1:
        x[idx] = np.nan
    else:
        x[idx, rng.integers(0, x.shape[1])] = np.nan
    return x


rng = np.random.default_rng(11)
case = 0
for n in (1, 2, 3, 10, 37, 80):
    for d in (1, 2):
        for kind in range(4):
            x = series(rng, n, d, kind)
            for metric in ("supremum", "euclidean", "manhattan"):
                case += 1
                if (case % 3) and n > 10:
                    continue
                tag = ("RP", n, d, kind, metric)
                random.seed(case)
                np.random.seed(case)
                # matrix mode, fixed threshold
                rp = attempt((tag, "new-thr"), lambda: RecurrencePlot(
                    x, metric=metric, threshold=0.8, silence_level=3))
                if isinstance(rp, RecurrencePlot):
                    all_measures((tag, "thr"), rp)
                # sequential mode, fixed threshold
                rp = attempt((tag, "new-seq"), lambda: RecurrencePlot(
                    x, metric=metric, threshold=0.8, sparse_rqa=True,
                    silence_level=3))
                if isinstance(rp, RecurrencePlot):
                    all_measures((tag, "seq"), rp)
                # embedding
                if d == 1 and n >= 10:
                    for kw in ({}, {"sparse_rqa": True}):
                        rp = attempt((tag, "new-emb", kw), lambda: (
                            RecurrencePlot(
                                x, metric=metric, threshold=1.1, dim=3, tau=2,
                                silence_level=3, **kw)))
                        if isinstance(rp, RecurrencePlot):
                            all_measures((tag, "emb", kw), rp)
                # missing values, both modes
                xm = with_nans(rng, x, 0.15)
                for kw in ({}, {"sparse_rqa": True}):
                    rp = attempt((tag, "new-mv", kw), lambda: RecurrencePlot(
                        xm, metric=metric, threshold=0.8, normalize=False,
                        missing_values=True, silence_level=3, **kw))
                    if isinstance(rp, RecurrencePlot):
                        all_measures((tag, "mv", kw), rp)
                # other ways of fixing the recurrence matrix
                if n >= 10:
                    for kw in ({"recurrence_rate": 0.2},
                               {"threshold_std": 0.5},
                               {"local_recurrence_rate": 0.2},
                               {"adaptive_neighborhood_size": 0.2},
                               {"recurrence_rate": 0.2, "sparse_rqa": True},
                               {"recurrence_rate": 0.3,
                                "missing_values": True}):
                        random.seed(case)
                        np.random.seed(case)
                        rp = attempt((tag, "new", kw), lambda: RecurrencePlot(
                            x, metric=metric, silence_level=3, **kw))
                        if isinstance(rp, RecurrencePlot):
                            all_measures((tag, "kw", sorted(kw.items())), rp)

# call sequences: state changes between calls
rng = np.random.default_rng(5)
x = with_nans(rng, series(rng, 40, 1, 3), 0.1)
rp = RecurrencePlot(x, threshold=0.7, metric="supremum", normalize=False,
                    missing_values=True, silence_level=3)
attempt("S1", rp.diagline_dist)
attempt("S2", rp.vertline_dist)
rp.missing_values = False
attempt("S3", rp.diagline_dist)
attempt("S4", rp.vertline_dist)
attempt("S5", rp.white_vertline_dist)
rp.missing_values = True
rp.set_fixed_threshold(1.5)
attempt("S6", rp.diagline_dist)
attempt("S7", rp.vertline_dist)
rp.sparse_rqa = True
attempt("S8", rp.diagline_dist)
attempt("S9", rp.vertline_dist)
attempt("S10", rp.white_vertline_dist)
attempt("S11", rp.recurrence_rate)
rp.threshold = None
attempt("S12", rp.diagline_dist)
attempt("S13", rp.vertline_dist)
rp.threshold = "abc"
attempt("S14", rp.diagline_dist)
attempt("S15", rp.vertline_dist)
rp.threshold = 0.3
rp.metric = "euclidean"
attempt("S16", rp.diagline_dist)
attempt("S17", rp.vertline_dist)
attempt("S18", rp.recurrence_rate)
rp.metric = "supremum"
attempt("S19", rp.diagline_dist)
attempt("S20", rp.vertline_dist)
del rp.missing_value_indices
attempt("S21", rp.diagline_dist)
attempt("S22", rp.vertline_dist)
rp.sparse_rqa = False
attempt("S23", rp.diagline_dist)
attempt("S24", rp.vertline_dist)
rp.missing_values = False
rp.R = (rng.random((40, 40)) < 0.4).astype(np.int8)
attempt("S25", rp.diagline_dist)
attempt("S26", rp.vertline_dist)
attempt("S27", rp.white_vertline_dist)
rp.R = rp.R.astype(np.int64)
attempt("S28", rp.diagline_dist)
attempt("S29", rp.vertline_dist)
attempt("S30", rp.white_vertline_dist)
rp.R = None
attempt("S31", rp.diagline_dist)
attempt("S32", rp.vertline_dist)
attempt("S33", rp.white_vertline_dist)
rp.R = (rng.random((40, 40)) < 0.4).astype(np.int8)
v1 = attempt("S34", rp.vertline_dist)
d1 = attempt("S35", rp.diagline_dist)
w1 = attempt("S36", rp.white_vertline_dist)
feed("S37", (rp.vertline_dist() is v1, rp.diagline_dist() is d1,
             rp.white_vertline_dist() is w1))
# a 1D embedding assigned by hand
rp.sparse_rqa = True
rp.embedding = np.arange(7.0)
attempt("S38", rp.diagline_dist)
attempt("S39", rp.vertline_dist)
rp.embedding = rng.standard_normal((12, 2))
attempt("S40", rp.diagline_dist)
attempt("S41", rp.vertline_dist)
rp.sparse_rqa = False
attempt("S42", rp.diagline_dist)
attempt("S43", rp.vertline_dist)
attempt("S44", rp.white_vertline_dist)

# subclasses
rng = np.random.default_rng(6)
x = series(rng, 45, 1, 1)
y = series(rng, 45, 1, 3)
random.seed(1)
np.random.seed(1)
rn = attempt("N0", lambda: RecurrenceNetwork(
    x, threshold=0.4, dim=2, tau=1, silence_level=3))
if isinstance(rn, RecurrenceNetwork):
    all_measures("RN", rn)
jrp = attempt("J0", lambda: JointRecurrencePlot(
    x, y, threshold=(0.5, 1.0), silence_level=3))
if isinstance(jrp, JointRecurrencePlot):
    all_measures("JRP", jrp)
crp = attempt("X0", lambda: CrossRecurrencePlot(
    x, y, threshold=0.5, silence_level=3))
if isinstance(crp, CrossRecurrencePlot):
    for m in ("diagline_dist", "vertline_dist", "white_vertline_dist",
              "determinism", "laminarity", "average_white_vertlength"):
        attempt(("CRP", m), getattr(crp, m))

print("items", COUNT[0], "exceptions", COUNT[1], file=sys.stderr)
print(H.hexdigest())
