"""
Equivalence digest for property C08 (RQA line statistics).

Run as:  PYTHONPATH=<worktree>/src /venv/bin/python equiv.py

Exercises (a) the compiled line-distribution wrappers directly and (b) the
RecurrencePlot RQA API on a spread of fixed-seed inputs, including error
paths, cache invalidation and object state, and prints one sha256 digest.
"""
import hashlib
import io
import contextlib
import warnings

import numpy as np

from pyunicorn.timeseries import RecurrencePlot, JointRecurrencePlot
from pyunicorn.timeseries._ext import numerics as K

warnings.simplefilter("ignore")

H = hashlib.sha256()
N_ITEMS = [0]


def put(tag, obj):
    """Feed a canonical, full-precision encoding of obj into the digest."""
    N_ITEMS[0] += 1
    H.update(b"|" + tag.encode() + b"=")
    if isinstance(obj, np.ndarray):
        H.update(f"nd:{obj.dtype.str}:{obj.shape}:".encode())
        H.update(np.ascontiguousarray(obj).tobytes())
    elif isinstance(obj, (float, np.floating)):
        H.update(f"{type(obj).__name__}:{float(obj).hex()}".encode())
    elif isinstance(obj, (bool, np.bool_)):
        H.update(f"{type(obj).__name__}:{bool(obj)}".encode())
    elif isinstance(obj, (int, np.integer)):
        H.update(f"{type(obj).__name__}:{int(obj)}".encode())
    elif isinstance(obj, dict):
        for k in sorted(obj):
            put(tag + "." + str(k), obj[k])
    elif isinstance(obj, (list, tuple)):
        H.update(f"{type(obj).__name__}:{len(obj)}".encode())
        for i, o in enumerate(obj):
            put(f"{tag}[{i}]", o)
    else:
        H.update(repr(obj).encode())


def attempt(tag, fn, *args, **kwargs):
    """Record result or exception type of fn(*args)."""
    buf = io.StringIO()
    try:
        with contextlib.redirect_stdout(buf):
            res = fn(*args, **kwargs)
    except BaseException as exc:  # pylint: disable=broad-except
        put(tag + ":EXC", type(exc).__name__)
        put(tag + ":OUT", buf.getvalue())
        return None
    put(tag, res)
    put(tag + ":OUT", buf.getvalue())
    return res


# ---------------------------------------------------------------------------
# (a) compiled wrappers, called directly
# ---------------------------------------------------------------------------

def random_R(rng, n, density, symmetric):
    R = (rng.random((n, n)) < density).astype(np.int8)
    if symmetric:
        R = np.triu(R) | np.triu(R).T
        np.fill_diagonal(R, 1)
    return np.ascontiguousarray(R, dtype=np.int8)


def blocky_R(rng, n):
    """Matrix with long runs, to populate long line lengths."""
    x = np.cumsum(rng.random(n) < 0.25)
    R = (x[:, None] % 3 == x[None, :] % 3).astype(np.int8)
    return np.ascontiguousarray(R)


def kernels_direct():
    rng = np.random.default_rng(80808)
    sizes = [0, 1, 2, 3, 4, 5, 7, 8, 13, 21, 34, 55]
    for n in sizes:
        mats = []
        for dens in (0.0, 0.15, 0.5, 0.85, 1.0):
            for sym in (False, True):
                mats.append(random_R(rng, n, dens, sym))
        if n > 0:
            mats.append(blocky_R(rng, n))
            mats.append(np.asfortranarray(random_R(rng, n, 0.5, False)))
            mats.append(np.eye(n, dtype=np.int8))
            mats.append(np.ascontiguousarray(
                np.tri(n, dtype=np.int8)))
        for q, R in enumerate(mats):
            for name in ("_vertline_dist", "_diagline_dist",
                         "_white_vertline_dist"):
                hist = np.zeros(n, dtype=np.int32)
                attempt(f"K{name}:{n}:{q}", getattr(K, name), n, hist, R)
                put(f"K{name}:{n}:{q}:hist", hist)
            #  accumulation into a pre-filled histogram
            hist = np.arange(n, dtype=np.int32)
            attempt(f"Kacc:{n}:{q}", K._diagline_dist, n, hist, R)
            attempt(f"Kacc2:{n}:{q}", K._vertline_dist, n, hist, R)
            put(f"Kacc:{n}:{q}:hist", hist)
            #  missing-value masks
            masks = [np.zeros(n, dtype=bool), np.ones(n, dtype=bool),
                     rng.random(n) < 0.1, rng.random(n) < 0.4]
            if n > 0:
                m = np.zeros(n, dtype=bool)
                m[0] = True
                masks.append(m)
                m = np.zeros(n, dtype=bool)
                m[-1] = True
                masks.append(m)
            for p, M in enumerate(masks):
                for name in ("_vertline_dist_missingvalues",
                             "_diagline_dist_missingvalues"):
                    hist = np.zeros(n, dtype=np.int32)
                    attempt(f"K{name}:{n}:{q}:{p}", getattr(K, name),
                            n, hist, R, M)
                    put(f"K{name}:{n}:{q}:{p}:hist", hist)
                #  mask given as uint8 (cast=True buffer)
                hist = np.zeros(n, dtype=np.int32)
                attempt(f"Kmu8:{n}:{q}:{p}", K._vertline_dist_missingvalues,
                        n, hist, R, M.astype(np.uint8))
                put(f"Kmu8:{n}:{q}:{p}:hist", hist)

    #  sequential kernels
    for n in [0, 1, 2, 3, 5, 8, 13, 30, 47]:
        for dim in (1, 2, 3):
            walk = np.cumsum(rng.standard_normal((n, dim)), axis=0)
            noise = rng.standard_normal((n, dim))
            grid = np.round(rng.standard_normal((n, dim)) * 2) / 2
            for q, E in enumerate((walk, noise, grid)):
                E = np.ascontiguousarray(E, dtype=np.float64)
                for eps in (0.0, 0.5, 1.0, 2.5, 1e9):
                    for name in ("_vertline_dist_sequential",
                                 "_diagline_dist_sequential"):
                        hist = np.zeros(n, dtype=np.int32)
                        attempt(f"K{name}:{n}:{dim}:{q}:{eps}",
                                getattr(K, name), n, hist, E, eps, dim)
                        put(f"K{name}:{n}:{dim}:{q}:{eps}:hist", hist)
                    for p, M in enumerate((np.zeros(n, dtype=bool),
                                           rng.random(n) < 0.15,
                                           rng.random(n) < 0.5)):
                        for name in (
                                "_vertline_dist_sequential_missingvalues",
                                "_diagline_dist_sequential_missingvalues"):
                            hist = np.zeros(n, dtype=np.int32)
                            attempt(f"K{name}:{n}:{dim}:{q}:{eps}:{p}",
                                    getattr(K, name), n, hist, M, E, eps, dim)
                            put(f"K{name}:{n}:{dim}:{q}:{eps}:{p}:hist", hist)
                #  dim argument smaller than the embedding width
                if dim > 1:
                    hist = np.zeros(n, dtype=np.int32)
                    attempt(f"Kdimless:{n}:{dim}:{q}",
                            K._vertline_dist_sequential, n, hist, E, 1.0,
                            dim - 1)
                    put(f"Kdimless:{n}:{dim}:{q}:hist", hist)

    #  error paths of the wrappers
    n = 6
    R = random_R(rng, n, 0.6, True)
    E = np.ascontiguousarray(rng.standard_normal((n, 2)))
    M = rng.random(n) < 0.3
    names_R = ("_vertline_dist", "_diagline_dist", "_white_vertline_dist")
    for name in names_R:
        f = getattr(K, name)
        hist = np.zeros(n, dtype=np.int32)
        attempt(f"E1{name}", f, n, hist, R.astype(np.int32))
        attempt(f"E2{name}", f, n, hist.astype(np.int64), R)
        attempt(f"E3{name}", f, n, hist, R[0])
        attempt(f"E4{name}", f, n, hist, None)
        attempt(f"E5{name}", f, n, None, R)
        attempt(f"E6{name}", f, "x", hist, R)
        attempt(f"E7{name}", f, n, hist)
        attempt(f"E8{name}", f, n + 2, hist, R)          # R too small
        put(f"E8{name}:hist", hist)
        short = np.zeros(1, dtype=np.int32)
        attempt(f"E9{name}", f, n, short, np.ones((n, n), dtype=np.int8))
        put(f"E9{name}:hist", short)
        short = np.zeros(1, dtype=np.int32)
        attempt(f"E10{name}", f, n, short, np.zeros((n, n), dtype=np.int8))
        put(f"E10{name}:hist", short)
        hist = np.zeros(n, dtype=np.int32)
        attempt(f"E11{name}", f, n - 2, hist, R)          # partial matrix
        put(f"E11{name}:hist", hist)
        hist = np.zeros(n, dtype=np.int32)
        attempt(f"E12{name}", f, -3, hist, R)
        put(f"E12{name}:hist", hist)
    for name in ("_vertline_dist_missingvalues",
                 "_diagline_dist_missingvalues"):
        f = getattr(K, name)
        hist = np.zeros(n, dtype=np.int32)
        attempt(f"E1{name}", f, n, hist, R, M[:3])       # mask too short
        put(f"E1{name}:hist", hist)
        attempt(f"E2{name}", f, n, hist, R, M.astype(np.float64))
        attempt(f"E3{name}", f, n, hist, R, None)
        attempt(f"E4{name}", f, n, hist, R.astype(float), M)
        attempt(f"E5{name}", f, n, hist, R)
        short = np.zeros(2, dtype=np.int32)
        attempt(f"E6{name}", f, n, short, np.ones((n, n), dtype=np.int8),
                np.zeros(n, dtype=bool))
        put(f"E6{name}:hist", short)
    for name in ("_vertline_dist_sequential", "_diagline_dist_sequential"):
        f = getattr(K, name)
        hist = np.zeros(n, dtype=np.int32)
        attempt(f"E1{name}", f, n, hist, E, 1.0, 3)      # dim too large
        put(f"E1{name}:hist", hist)
        attempt(f"E2{name}", f, n, hist, E.astype(np.float32), 1.0, 2)
        attempt(f"E3{name}", f, n, hist, E, "a", 2)
        attempt(f"E4{name}", f, n, hist, None, 1.0, 2)
        hist = np.zeros(n, dtype=np.int32)
        attempt(f"E5{name}", f, n, hist, E, 1.0, 0)      # dim == 0
        put(f"E5{name}:hist", hist)
        hist = np.zeros(n, dtype=np.int32)
        attempt(f"E6{name}", f, n, hist, E, float("nan"), 2)
        put(f"E6{name}:hist", hist)
        hist = np.zeros(n, dtype=np.int32)
        attempt(f"E7{name}", f, n + 1, hist, E, 1.0, 2)  # E too short
        put(f"E7{name}:hist", hist)
        hist = np.zeros(n, dtype=np.int32)
        attempt(f"E8{name}", f, n, hist, E, 1.0, -1)
        put(f"E8{name}:hist", hist)
    for name in ("_vertline_dist_sequential_missingvalues",
                 "_diagline_dist_sequential_missingvalues"):
        f = getattr(K, name)
        hist = np.zeros(n, dtype=np.int32)
        attempt(f"E1{name}", f, n, hist, M[:2], E, 1.0, 2)
        put(f"E1{name}:hist", hist)
        attempt(f"E2{name}", f, n, hist, E, M, 1.0, 2)   # swapped args
        attempt(f"E3{name}", f, n, hist, None, E, 1.0, 2)
        hist = np.zeros(n, dtype=np.int32)
        attempt(f"E4{name}", f, n, hist, M, E, 1.0, 0)
        put(f"E4{name}:hist", hist)
        Enan = E.copy()
        Enan[2, 0] = np.nan
        hist = np.zeros(n, dtype=np.int32)
        attempt(f"E5{name}", f, n, hist, np.zeros(n, dtype=bool), Enan,
                1.0, 2)
        put(f"E5{name}:hist", hist)


# ---------------------------------------------------------------------------
# (b) RecurrencePlot API
# ---------------------------------------------------------------------------

MEASURES_1 = ("determinism", "average_diaglength", "diag_entropy",
              "laminarity", "average_vertlength", "trapping_time",
              "vert_entropy")
MEASURES_W = ("average_white_vertlength", "mean_recurrence_time",
              "white_vert_entropy")


def state(tag, rp):
    d = vars(rp)
    put(tag + ":keys", sorted(d))
    for k in sorted(d):
        v = d[k]
        if isinstance(v, (np.ndarray, int, float, str, bool, type(None),
                          np.generic)):
            put(f"{tag}:{k}", v)


def rqa_all(tag, rp, mins):
    attempt(tag + ":RR", rp.recurrence_rate)
    attempt(tag + ":diag", rp.diagline_dist)
    attempt(tag + ":vert", rp.vertline_dist)
    attempt(tag + ":white", rp.white_vertline_dist)
    attempt(tag + ":Lmax", rp.max_diaglength)
    attempt(tag + ":Vmax", rp.max_vertlength)
    attempt(tag + ":Wmax", rp.max_white_vertlength)
    attempt(tag + ":summary", rp.rqa_summary)
    for m in mins:
        for name in MEASURES_1 + MEASURES_W:
            attempt(f"{tag}:{name}:{m}", getattr(rp, name), m)
        attempt(f"{tag}:summary:{m}", rp.rqa_summary, m, m)
    for name in MEASURES_1 + MEASURES_W:
        attempt(f"{tag}:{name}:default", getattr(rp, name))
    #  second call hits the cache; results must be fresh arrays/equal values
    d1 = attempt(tag + ":diag2", rp.diagline_dist)
    v1 = attempt(tag + ":vert2", rp.vertline_dist)
    if d1 is not None and v1 is not None:
        put(tag + ":dtypes", [d1.dtype.str, v1.dtype.str])
    state(tag + ":state", rp)


def resampled(tag, rp, rng):
    n = rp.N
    dists = [
        rng.integers(0, 5, size=n).astype(np.int32),
        rng.integers(0, 9, size=n).astype(np.int64),
        rng.random(n),
        np.zeros(n, dtype=np.int32),
        list(map(int, rng.integers(0, 4, size=n))),
        rng.integers(0, 5, size=max(n - 1, 0)).astype(np.int32),  # too short
        (rng.random(n) * 3).astype(np.float32),
    ]
    for q, dist in enumerate(dists):
        for m in (1, 2, 3, n, n + 1, 0):
            for name in MEASURES_1:
                attempt(f"{tag}:rs{q}:{name}:{m}", getattr(rp, name), m, dist)
                attempt(f"{tag}:rs{q}:{name}:{m}:kw", getattr(rp, name),
                        resampled_dist=dist)
        if isinstance(dist, np.ndarray):
            put(f"{tag}:rs{q}:unchanged", dist)


def series(rng, n, kind):
    t = np.arange(n)
    if kind == "sine":
        return np.sin(2 * np.pi * t / 11.0) + 0.05 * rng.standard_normal(n)
    if kind == "noise":
        return rng.standard_normal(n)
    if kind == "walk":
        return np.cumsum(rng.standard_normal(n))
    if kind == "steps":
        return np.repeat(rng.integers(0, 3, size=(n + 3) // 4), 4)[:n] * 1.0
    if kind == "logistic":
        x = np.empty(n)
        x[0] = 0.3
        for i in range(1, n):
            x[i] = 3.9 * x[i - 1] * (1 - x[i - 1])
        return x
    if kind == "2d":
        return rng.standard_normal((n, 2))
    raise ValueError(kind)


def api():
    rng = np.random.default_rng(424242)
    mins = (1, 2, 3, 5)
    #  matrix mode
    c = 0
    for n in (2, 3, 5, 9, 20, 41, 77):
        for kind in ("sine", "noise", "walk", "steps", "logistic", "2d"):
            x = series(rng, n, kind)
            for metric in ("supremum", "euclidean", "manhattan"):
                for kw in ({"threshold": 0.3}, {"threshold": 1.1},
                           {"threshold_std": 0.4}, {"recurrence_rate": 0.2},
                           {"threshold": 0.5, "dim": 2, "tau": 1}):
                    c += 1
                    if (c % 3) and n > 9:
                        continue
                    if "dim" in kw and (kind == "2d" or n < 4):
                        continue
                    tag = f"A:{n}:{kind}:{metric}:{sorted(kw.items())}"
                    np.random.seed(7)
                    try:
                        rp = RecurrencePlot(x, metric=metric, silence_level=3,
                                            **kw)
                    except BaseException as exc:  # pylint: disable=W0718
                        put(tag + ":ctorEXC", type(exc).__name__)
                        continue
                    rqa_all(tag, rp, mins + (n, n + 1, 0))
                    if c % 7 == 0:
                        resampled(tag, rp, rng)

    #  missing values, matrix and sequential mode; sequential vs matrix
    for n in (4, 7, 12, 25, 60):
        for kind in ("sine", "noise", "steps", "2d", "walk"):
            for frac in (0.0, 0.1, 0.35):
                x = np.array(series(rng, n, kind), dtype=float)
                holes = rng.random(n) < frac
                if x.ndim == 1:
                    x[holes] = np.nan
                else:
                    x[holes, rng.integers(0, 2)] = np.nan
                for eps in (0.25, 0.9):
                    for mv in (False, True):
                        for sparse in (False, True):
                            for kw in ({}, {"dim": 2, "tau": 2}):
                                if kw and (kind == "2d" or n < 6):
                                    continue
                                tag = (f"B:{n}:{kind}:{frac}:{eps}:{mv}:"
                                       f"{sparse}:{sorted(kw.items())}")
                                try:
                                    rp = RecurrencePlot(
                                        x, threshold=eps, missing_values=mv,
                                        sparse_rqa=sparse, silence_level=3,
                                        **kw)
                                except BaseException as exc:  # noqa
                                    put(tag + ":ctorEXC", type(exc).__name__)
                                    continue
                                rqa_all(tag, rp, (1, 2, 4))

    #  sequential mode error paths
    x = series(rng, 15, "sine")
    for metric in ("euclidean", "manhattan"):
        rp = RecurrencePlot(x, metric=metric, threshold=0.4, sparse_rqa=True,
                            silence_level=3)
        rqa_all(f"C:{metric}", rp, (2,))
    rp = RecurrencePlot(x, recurrence_rate=0.2, sparse_rqa=True,
                        silence_level=3)
    rqa_all("C:rr", rp, (2,))
    rp = RecurrencePlot(x, threshold=0.4, sparse_rqa=True,
                        missing_values=True, silence_level=3)
    rqa_all("C:sparse-mv", rp, (2,))
    #  non-float threshold in sequential mode
    for thr in (1, np.float32(0.3), "0.5", "abc", [0.5], np.array([0.4])):
        tag = f"C:thr:{thr!r}"
        try:
            rp = RecurrencePlot(x, threshold=thr, sparse_rqa=True,
                                silence_level=3)
        except BaseException as exc:  # noqa
            put(tag + ":ctorEXC", type(exc).__name__)
            continue
        attempt(tag + ":diag", rp.diagline_dist)
        attempt(tag + ":vert", rp.vertline_dist)
        attempt(tag + ":DET", rp.determinism)

    #  cache invalidation / state changes
    x = series(rng, 30, "logistic")
    rp = RecurrencePlot(x, threshold=0.2, silence_level=3)
    rqa_all("D:0", rp, (2,))
    rp.set_fixed_threshold(0.5)
    rqa_all("D:1", rp, (2,))
    np.random.seed(11)
    rp.set_fixed_recurrence_rate(0.3)
    rqa_all("D:2", rp, (2,))
    R = random_R(rng, 30, 0.4, False)
    rp.R = R
    rqa_all("D:3", rp, (2, 3))
    put("D:3:Runchanged", R)
    R2 = rp.R.copy()
    R2[3:9, 3:9] = 1
    rp.R = R2
    rqa_all("D:4", rp, (2,))
    #  returned histograms are independent of later calls
    d = rp.diagline_dist()
    v = rp.vertline_dist()
    w = rp.white_vertline_dist()
    d[:] = -1
    v[:] = -2
    w[:] = -3
    rqa_all("D:5", rp, (2,))
    rp.missing_values = True
    attempt("D:6:diag", rp.diagline_dist)    # no missing_value_indices attr
    attempt("D:6:vert", rp.vertline_dist)
    rp.missing_value_indices = rng.random(30) < 0.2
    rqa_all("D:7", rp, (2,))
    rp.sparse_rqa = True
    rqa_all("D:8", rp, (2,))
    rp.threshold = 0.05
    rqa_all("D:9", rp, (2,))
    rp.metric = "euclidean"
    rqa_all("D:10", rp, (2,))
    rp.metric = "supremum"
    rp.threshold = None
    rqa_all("D:11", rp, (2,))
    rp.sparse_rqa = False
    rp.missing_values = False
    rqa_all("D:12", rp, (2,))

    #  resampling helpers
    x = series(rng, 40, "sine")
    rp = RecurrencePlot(x, threshold=0.3, silence_level=3)
    resampled("F", rp, rng)
    #  non-integer / odd minimum lengths
    for m in (2.0, 1.5, -1, None, "2", np.int64(3), True):
        for name in MEASURES_1 + MEASURES_W:
            attempt(f"F:odd:{m!r}:{name}", getattr(rp, name), m)

    #  subclasses sharing the formulas
    y = series(rng, 40, "noise")
    jrp = JointRecurrencePlot(x, y, threshold=(0.4, 0.9), silence_level=3)
    rqa_all("G:jrp", jrp, (1, 2, 3))
    jrp = JointRecurrencePlot(x, y, recurrence_rate=(0.3, 0.3), lag=3,
                              silence_level=3)
    rqa_all("G:jrp-lag", jrp, (2,))


kernels_direct()
api()
print("items", N_ITEMS[0])
print("digest", H.hexdigest())
