"""
Behavioural digest of the RQA line-statistics code (property C08).

Run as:  PYTHONPATH=<worktree>/src /venv/bin/python equiv.py
Prints one sha256 digest; it must be identical on the pristine and on the
refactored tree.
"""
import hashlib
import io
import random
import contextlib

import numpy as np

from pyunicorn.timeseries import RecurrencePlot, CrossRecurrencePlot, \
    JointRecurrencePlot, RecurrenceNetwork
from pyunicorn.timeseries._ext import numerics as nx

H = hashlib.sha256()
N_ITEMS = [0]


def feed(tag, value):
    """Add a tagged value (array, scalar, dict, exception, ...) to the digest"""
    N_ITEMS[0] += 1
    H.update(("|" + tag + "=").encode())
    if isinstance(value, BaseException):
        H.update(("EXC:" + type(value).__name__).encode())
    elif isinstance(value, np.ndarray):
        H.update((str(value.dtype) + str(value.shape)).encode())
        H.update(np.ascontiguousarray(value).tobytes())
    elif isinstance(value, dict):
        for key in value:      # insertion order is part of the behaviour
            feed(tag + "." + str(key), value[key])
    elif isinstance(value, (list, tuple)):
        H.update(type(value).__name__.encode())
        for n, v in enumerate(value):
            feed(tag + "." + str(n), v)
    elif isinstance(value, (float, np.floating)):
        H.update((type(value).__name__ + ":" + float(value).hex()).encode())
    elif value is None or isinstance(value, (bool, int, str, np.integer,
                                             np.bool_)):
        H.update((type(value).__name__ + ":" + repr(value)).encode())
    else:
        # arbitrary objects: only the type (repr may contain an address)
        H.update(("OBJ:" + type(value).__name__).encode())


def attempt(tag, fun, *args, **kwargs):
    """Call and digest either the result or the type of the exception"""
    out = io.StringIO()
    try:
        with contextlib.redirect_stdout(out):
            res = fun(*args, **kwargs)
    except Exception as exc:  # pylint: disable=broad-except
        res = exc
    feed(tag, res)
    feed(tag + ".stdout", out.getvalue())
    return res


# ---------------------------------------------------------------------------
#  1. the compiled kernels, called directly
# ---------------------------------------------------------------------------

def kernels():
    rng = np.random.RandomState(20240908)
    mat = ("_vertline_dist", "_diagline_dist", "_white_vertline_dist")
    mat_mv = ("_vertline_dist_missingvalues", "_diagline_dist_missingvalues")
    seq = ("_vertline_dist_sequential", "_diagline_dist_sequential")
    seq_mv = ("_vertline_dist_sequential_missingvalues",
              "_diagline_dist_sequential_missingvalues")

    def run(tag, name, n_time, hist, *rest):
        attempt(tag + name, getattr(nx, name), n_time, hist, *rest)
        feed(tag + name + ".hist", hist)   # also after an exception

    sizes = [0, 1, 2, 3, 4, 5, 7, 10, 17, 33]
    for n in sizes:
        for dens in (0.0, 0.15, 0.5, 0.85, 1.0):
            for sym in (False, True):
                R = (rng.rand(n, n) < dens).astype(np.int8)
                if sym:
                    R = np.maximum(R, R.T)
                    np.fill_diagonal(R, 1)
                tag = f"k{n}-{dens}-{int(sym)}:"
                for name in mat:
                    run(tag, name, n, np.zeros(n, dtype=np.int32), R)
                for pm in (0.0, 0.1, 0.4, 1.0):
                    M = rng.rand(n) < pm
                    Rm = R.copy()
                    if sym:
                        Rm[M, :] = 0
                        Rm[:, M] = 0
                    for name in mat_mv:
                        run(tag + f"m{pm}", name, n,
                            np.zeros(n, dtype=np.int32), Rm, M)
                        # mask given as int8 (buffer is declared cast=True)
                        run(tag + f"mi{pm}", name, n,
                            np.zeros(n, dtype=np.int32), Rm,
                            M.astype(np.int8))
        for dim in (1, 2, 3):
            E = rng.randn(n, dim)
            # a few exact ties with the threshold
            if n > 3:
                E[1] = E[0]
                E[3, 0] = E[2, 0] + 0.5
            for eps in (0.0, 0.5, 1.0, 2.5, np.inf, np.nan, -1.0):
                tag = f"s{n}-{dim}-{eps}:"
                for name in seq:
                    run(tag, name, n, np.zeros(n, dtype=np.int32), E, eps,
                        dim)
                for pm in (0.0, 0.2, 1.0):
                    M = rng.rand(n) < pm
                    Em = E.copy()
                    Em[M] = np.nan
                    for name in seq_mv:
                        run(tag + f"m{pm}", name, n,
                            np.zeros(n, dtype=np.int32), M, Em, eps, dim)
            # dim argument smaller than the stored dimension / zero
            for name in seq:
                run(f"sd{n}-{dim}:", name, n, np.zeros(n, dtype=np.int32),
                    E, 0.7, dim - 1)

    # matrices with entries other than 0 / 1
    for n in (3, 6, 9):
        R = rng.randint(-2, 4, size=(n, n)).astype(np.int8)
        M = rng.rand(n) < 0.2
        for name in mat:
            run(f"odd{n}:", name, n, np.zeros(n, dtype=np.int32), R)
        for name in mat_mv:
            run(f"oddm{n}:", name, n, np.zeros(n, dtype=np.int32), R, M)

    # pre-filled histograms are incremented, not overwritten
    n = 8
    R = (rng.rand(n, n) < 0.6).astype(np.int8)
    for name in mat:
        run("prefill:", name, n, np.arange(n, dtype=np.int32) * 3, R)

    # inconsistent sizes: exceptions and partially filled histograms
    n = 6
    R = (rng.rand(n, n) < 0.7).astype(np.int8)
    R[:, 0] = 1
    E = rng.randn(n, 2)
    M = rng.rand(n) < 0.3
    for name in mat:
        run("shorthist:", name, n, np.zeros(2, dtype=np.int32), R)
        run("bigN:", name, n + 2, np.zeros(n + 2, dtype=np.int32), R)
        run("smallN:", name, n - 2, np.zeros(n, dtype=np.int32), R)
        run("negN:", name, -3, np.zeros(n, dtype=np.int32), R)
        run("rect:", name, n, np.zeros(n, dtype=np.int32), R[:, :4])
        run("rect2:", name, n, np.zeros(n, dtype=np.int32), R[:4, :])
        run("wrongtype:", name, n, np.zeros(n, dtype=np.int64), R)
        run("wrongtype2:", name, n, np.zeros(n, dtype=np.int32),
            R.astype(np.int32))
        run("nonctg:", name, n // 2, np.zeros(n, dtype=np.int32)[::2],
            R[::2, ::2])
    for name in mat_mv:
        run("shortM:", name, n, np.zeros(n, dtype=np.int32), R, M[:3])
        run("shorthist:", name, n, np.zeros(1, dtype=np.int32), R, M)
        run("bigN:", name, n + 1, np.zeros(n + 1, dtype=np.int32), R, M)
        run("floatM:", name, n, np.zeros(n, dtype=np.int32), R,
            M.astype(float))
    for name in seq:
        run("shorthist:", name, n, np.zeros(1, dtype=np.int32), E, 1.0, 2)
        run("bigN:", name, n + 1, np.zeros(n + 1, dtype=np.int32), E, 1.0, 2)
        run("bigdim:", name, n, np.zeros(n, dtype=np.int32), E, 1.0, 3)
        run("negdim:", name, n, np.zeros(n, dtype=np.int32), E, 1.0, -1)
    for name in seq_mv:
        run("shortM:", name, n, np.zeros(n, dtype=np.int32), M[:2], E, 1.0,
            2)
        run("bigN:", name, n + 1, np.zeros(n + 1, dtype=np.int32), M, E, 1.0,
            2)
        run("bigdim:", name, n, np.zeros(n, dtype=np.int32), M, E, 1.0, 3)


# ---------------------------------------------------------------------------
#  2. the RecurrencePlot interface
# ---------------------------------------------------------------------------

MEASURES_L = ("determinism", "average_diaglength", "diag_entropy")
MEASURES_V = ("laminarity", "average_vertlength", "trapping_time",
              "vert_entropy")
MEASURES_W = ("average_white_vertlength", "mean_recurrence_time",
              "white_vert_entropy")


def state(tag, rp):
    for name in ("N", "_mut_R", "_mut_embedding", "missing_values",
                 "sparse_rqa", "metric", "threshold", "_epsilon"):
        feed(tag + ".state." + name, getattr(rp, name, "<unset>"))
    feed(tag + ".state.dict", sorted(rp.__dict__))


def measures(tag, rp, full=True):
    for name in ("diagline_dist", "vertline_dist", "white_vertline_dist",
                 "max_diaglength", "max_vertlength", "max_white_vertlength",
                 "recurrence_rate", "rqa_summary"):
        attempt(tag + name, getattr(rp, name))
    # cached results are handed out again (identity is part of behaviour)
    for name in ("diagline_dist", "vertline_dist", "white_vertline_dist"):
        try:
            with contextlib.redirect_stdout(io.StringIO()):
                same = getattr(rp, name)() is getattr(rp, name)()
        except Exception as exc:  # pylint: disable=broad-except
            same = exc
        feed(tag + name + ".same", same)
    mins = (1, 2, 3, 5) if full else (2,)
    for m in mins:
        attempt(tag + f"summary{m}", rp.rqa_summary, m, m + 1)
        attempt(tag + f"summarykw{m}", rp.rqa_summary, v_min=m)
        for name in MEASURES_L + MEASURES_V + MEASURES_W:
            attempt(tag + f"{name}{m}", getattr(rp, name), m)
    for name in MEASURES_L + MEASURES_V + MEASURES_W:
        attempt(tag + name, getattr(rp, name))
    for name, kw in (("determinism", "l_min"), ("laminarity", "v_min"),
                     ("average_white_vertlength", "w_min"),
                     ("diag_entropy", "l_min"), ("vert_entropy", "v_min"),
                     ("average_diaglength", "l_min"),
                     ("average_vertlength", "v_min")):
        attempt(tag + name + ".kw", getattr(rp, name), **{kw: 3})
    if not full:
        return
    # odd minimal lengths
    for m in (0, -1, rp.N, rp.N + 1, rp.N + 5, 2.0, "2", None):
        for name in MEASURES_L + MEASURES_V + MEASURES_W:
            attempt(tag + f"odd{name}{m!r}", getattr(rp, name), m)
    # user supplied (resampled) distributions of several kinds
    n = rp.N
    rs = np.random.RandomState(n + 11)
    dists = [rs.randint(0, 5, size=n).astype(np.int32),
             rs.randint(0, 5, size=n).astype(np.int64),
             rs.randint(0, 5, size=n).astype(np.float32),
             rs.rand(n),
             np.zeros(n, dtype=np.int32),
             rs.randint(0, 5, size=n + 3),
             rs.randint(0, 5, size=max(n - 3, 0)),
             list(rs.randint(0, 5, size=n)),
             tuple(int(x) for x in rs.randint(0, 5, size=n)),
             rs.randint(0, 5, size=(n, 2)),
             rs.randint(0, 5, size=(2, n)),
             7, "abc"]
    for d, dist in enumerate(dists):
        for name in MEASURES_L + MEASURES_V:
            if name == "trapping_time":
                continue
            for m in (1, 2, 4):
                attempt(tag + f"res{d}{name}{m}", getattr(rp, name), m, dist)
            attempt(tag + f"reskw{d}{name}", getattr(rp, name),
                    resampled_dist=dist)
    # resampling
    for M in (0, 1, 50):
        for name in ("resample_diagline_dist", "resample_vertline_dist"):
            random.seed(5 + M)
            np.random.seed(7 + M)
            res = attempt(tag + f"{name}{M}", getattr(rp, name), M)
            if isinstance(res, np.ndarray):
                random.seed(5 + M)
                for meas in (MEASURES_L if "diag" in name else
                             ("laminarity", "average_vertlength",
                              "vert_entropy")):
                    attempt(tag + f"{name}{M}.{meas}", getattr(rp, meas), 2,
                            res)
            feed(tag + f"{name}{M}.rand", random.random())
    # identity of the returned object when there is nothing to resample
    for name, src in (("resample_diagline_dist", "diagline_dist"),
                      ("resample_vertline_dist", "vertline_dist")):
        try:
            with contextlib.redirect_stdout(io.StringIO()):
                same = getattr(rp, name)(3) is getattr(rp, src)()
        except Exception as exc:  # pylint: disable=broad-except
            same = exc
        feed(tag + name + ".alias", same)


def series(rs, n, kind):
    t = np.arange(n)
    if kind == "sine":
        return np.sin(0.37 * t) + 0.1 * rs.randn(n)
    if kind == "noise":
        return rs.randn(n)
    if kind == "const":
        return np.ones(n)
    if kind == "steps":
        return np.repeat(rs.randn(n // 5 + 1), 5)[:n]
    if kind == "2d":
        return np.c_[np.sin(0.2 * t), rs.randn(n)]
    raise ValueError(kind)


def plots():
    rs = np.random.RandomState(424242)
    k = 0
    for kind in ("sine", "noise", "const", "steps", "2d"):
        for n in (1, 2, 5, 12, 40):
            x = series(rs, n, kind)
            for metric in ("supremum", "euclidean", "manhattan"):
                for opts in (dict(threshold=0.3), dict(threshold=0.0),
                             dict(threshold=10.0),
                             dict(recurrence_rate=0.2),
                             dict(threshold_std=0.5),
                             dict(threshold=0.4, dim=2, tau=1)):
                    if metric != "supremum" and "threshold" not in opts:
                        continue
                    k += 1
                    tag = f"p{k}:"
                    np.random.seed(k)
                    random.seed(k)
                    rp = attempt(tag + "init", lambda: RecurrencePlot(
                        x, metric=metric, silence_level=2, **opts))
                    if isinstance(rp, Exception):
                        continue
                    state(tag + "a", rp)
                    measures(tag, rp, full=(metric == "supremum"
                                            and n in (5, 12)))
                    state(tag + "b", rp)

    # sequential mode must agree, including unsupported configurations
    for kind in ("sine", "noise", "steps", "2d"):
        for n in (1, 2, 6, 25):
            x = series(rs, n, kind)
            for metric in ("supremum", "euclidean", "manhattan"):
                for opts in (dict(threshold=0.3), dict(threshold=1.5),
                             dict(recurrence_rate=0.2),
                             dict(threshold=0.4, dim=2, tau=2), dict()):
                    for mv in (False, True):
                        k += 1
                        tag = f"q{k}:"
                        xx = np.array(x, dtype=float)
                        if mv and n > 2:
                            xx[rs.randint(0, n, size=max(1, n // 6))] = np.nan
                        rp = attempt(tag + "init", lambda: RecurrencePlot(
                            xx, metric=metric, sparse_rqa=True,
                            missing_values=mv, silence_level=2, **opts))
                        if isinstance(rp, Exception):
                            continue
                        state(tag + "a", rp)
                        measures(tag, rp, full=(n == 6 and
                                                metric == "supremum"))
                        state(tag + "b", rp)

    # missing values in matrix mode
    for kind in ("sine", "noise", "steps", "2d"):
        for n in (3, 9, 30):
            for frac in (0.0, 0.1, 0.5, 1.0):
                x = np.array(series(rs, n, kind), dtype=float)
                x[rs.rand(n) < frac] = np.nan
                for opts in (dict(threshold=0.5), dict(recurrence_rate=0.3),
                             dict(threshold=0.5, dim=3, tau=1),
                             dict(local_recurrence_rate=0.3),
                             dict(adaptive_neighborhood_size=2)):
                    for flag in (True, False):
                        k += 1
                        tag = f"m{k}:"
                        np.random.seed(k)
                        rp = attempt(tag + "init", lambda: RecurrencePlot(
                            x, missing_values=flag, silence_level=2, **opts))
                        if isinstance(rp, Exception):
                            continue
                        measures(tag, rp, full=(n == 9 and frac == 0.1))
                        state(tag, rp)

    # call sequences: caches follow changes of the object
    x = series(rs, 30, "sine")
    rp = RecurrencePlot(x, threshold=0.3, silence_level=2)
    measures("seq0:", rp, full=False)
    rp.set_fixed_threshold(0.8)
    measures("seq1:", rp, full=False)
    R = rp.R.copy()
    R[3:9, 10:20] = 1
    rp.R = R
    measures("seq2:", rp, full=False)
    rp.R[:] = 0                       # in place: cache not invalidated
    measures("seq3:", rp, full=False)
    rp.missing_values = True
    attempt("seq4:d", rp.diagline_dist)
    rp.missing_value_indices = np.arange(30) % 7 == 0
    measures("seq4:", rp, full=False)
    rp.sparse_rqa = True
    measures("seq5:", rp, full=False)
    rp.threshold = None
    measures("seq6:", rp, full=False)
    rp.threshold = "0.5"
    measures("seq7:", rp, full=False)
    rp.threshold = 0.5
    rp.metric = "euclidean"
    measures("seq8:", rp, full=False)
    rp.metric = "supremum"
    rp.embedding = series(rs, 12, "2d")
    measures("seq9:", rp, full=False)
    rp.missing_values = False
    rp.sparse_rqa = False
    measures("seq10:", rp, full=False)   # N and R disagree now
    rp._epsilon = 0.25
    measures("seq11:", rp, full=False)
    rp.N = 20
    measures("seq12:", rp, full=False)
    state("seq", rp)
    #  results are fresh arrays / cached arrays as before
    rp = RecurrencePlot(x, threshold=0.3, silence_level=2)
    d = rp.diagline_dist()
    d[0] += 100
    feed("mut.d", rp.diagline_dist())
    feed("mut.det", rp.determinism())
    w = rp.white_vertline_dist()
    w[0] += 100
    feed("mut.w", rp.white_vertline_dist())

    # subclasses
    y = series(rs, 25, "noise")
    crp = CrossRecurrencePlot(x[:25], y, threshold=0.4, silence_level=2)
    measures("crp:", crp, full=False)
    jrp = JointRecurrencePlot(x[:25], y, threshold=(0.4, 0.6),
                              silence_level=2)
    measures("jrp:", jrp, full=False)
    state("jrp", jrp)
    rn = RecurrenceNetwork(x, threshold=0.3, silence_level=2)
    measures("rn:", rn, full=False)
    state("rn", rn)

    class Sub(RecurrencePlot):
        """overrides the distributions: the measures must follow"""
        def diagline_dist(self):
            return np.arange(self.N, dtype=np.int32)[::-1].copy()

        def vertline_dist(self):
            return np.arange(self.N, dtype=np.int64) % 3

        def white_vertline_dist(self):
            return np.ones(self.N)

        def recurrence_rate(self):
            return "rr"

        def determinism(self, l_min=2, resampled_dist=None):
            return ("det", l_min)

        @staticmethod
        def rejection_sampling(dist, M):
            raise RuntimeError("must not be used")

    sub = Sub(x, threshold=0.3, silence_level=2)
    measures("sub:", sub, full=False)
    random.seed(3)
    attempt("sub:resd", sub.resample_diagline_dist, 20)
    attempt("sub:resv", sub.resample_vertline_dist, 20)

    # static parts
    random.seed(99)
    attempt("rej", RecurrencePlot.rejection_sampling,
            np.array([1, 0, 3, 2]), 25)
    attempt("rej2", RecurrencePlot.rejection_sampling,
            np.array([1., 0, 3, 2]), 5)


if __name__ == "__main__":
    np.seterr(all="ignore")
    import warnings
    warnings.simplefilter("ignore")
    kernels()
    plots()
    print(N_ITEMS[0], "items")
    print("digest", H.hexdigest())
