"""Equivalence digest for twin_2 (climate histogram MI kernel)."""
import hashlib
import io
import contextlib

import numpy as np

from pyunicorn.climate import ClimateData, MutualInfoClimateNetwork
from pyunicorn.climate._ext.numerics import mutual_information
from pyunicorn.core._ext.types import to_cy, FIELD

H = hashlib.sha256()


def feed(tag, obj):
    H.update(tag.encode())
    if isinstance(obj, tuple):
        for k, o in enumerate(obj):
            feed(f"{tag}[{k}]", o)
    elif isinstance(obj, np.ndarray):
        H.update(str(obj.dtype).encode())
        H.update(str(obj.shape).encode())
        H.update(np.ascontiguousarray(obj).tobytes())
    else:
        H.update(repr(obj).encode())


def run(tag, func, *args, **kwargs):
    out = io.StringIO()
    try:
        with contextlib.redirect_stdout(out):
            res = func(*args, **kwargs)
        feed(tag, res)
    except BaseException as e:  # pylint: disable=broad-except
        feed(tag, ("EXC", type(e).__name__, str(e)))
    feed(tag + ":stdout", out.getvalue())


rng = np.random.RandomState(2024)

# --- raw kernel ------------------------------------------------------------
for N, n_samples in ((0, 5), (1, 7), (2, 1), (3, 11), (5, 40), (9, 200),
                     (17, 64), (4, 0)):
    for n_bins in (1, 2, 3, 8, 32, 0, -3):
        for kind in ("normal", "uniform", "ties", "nan", "const"):
            if kind == "normal":
                a = rng.randn(N, n_samples)
            elif kind == "uniform":
                a = rng.rand(N, n_samples) * 10 - 3
            elif kind == "ties":
                a = rng.randint(0, 3, size=(N, n_samples)).astype(float)
            elif kind == "nan":
                a = rng.randn(N, n_samples)
                if a.size:
                    a.flat[a.size // 2] = np.nan
            else:
                a = np.ones((N, n_samples)) * 0.25
            a32 = to_cy(a, FIELD)
            if a32.size and not np.isnan(a32).all():
                lo = float(np.nanmin(a32))
                hi = float(np.nanmax(a32))
            else:
                lo, hi = 0.0, 1.0
            with np.errstate(all="ignore"):
                scaling = (np.float64(1.) / np.float64(hi - lo)
                           if hi > lo else 1.0)
            keep = a32.copy()
            run(f"raw/{N}/{n_samples}/{n_bins}/{kind}", mutual_information,
                a32, n_samples, N, n_bins, float(scaling), lo)
            feed(f"raw-in/{N}/{n_samples}/{n_bins}/{kind}",
                 bool(np.array_equal(keep, a32, equal_nan=True)))
            # samples above the upper edge fall into the last bin
            if hi > lo:
                run(f"raw2/{N}/{n_samples}/{n_bins}/{kind}",
                    mutual_information, a32, n_samples, N, n_bins,
                    float(scaling) * 1.7, lo)

run("raw/badtype", mutual_information, np.zeros((2, 3)), 3, 2, 4, 1.0, 0.0)
run("raw/none", mutual_information, None, 3, 2, 4, 1.0, 0.0)

# --- through the network class ----------------------------------------------
import os
import tempfile
os.chdir(tempfile.mkdtemp())
_out = io.StringIO()
with contextlib.redirect_stdout(_out):
    cd = ClimateData.SmallTestData()
    net = MutualInfoClimateNetwork(cd, threshold=0.2, winter_only=False)
feed("net/init-stdout", _out.getvalue())
feed("net/sim", net.similarity_measure())
feed("net/adj", net.adjacency)
for sl in (2, 0):
    net.silence_level = sl
    for T, n_bins in ((10, 32), (10, 4), (25, 7), (60, 32), (3, 1), (8, 0)):
        for dt in ("float64", "float32"):
            anomaly = rng.randn(T, 6).astype(dt)
            if T > 5:
                anomaly[:, 2] = 1.5          # zero variance node
            keep = anomaly.copy()
            run(f"net/{sl}/{T}/{n_bins}/{dt}",
                net._cython_calculate_mutual_information, anomaly,
                n_bins=n_bins)
            feed(f"net-in/{sl}/{T}/{n_bins}/{dt}",
                 bool(np.array_equal(keep, anomaly)))
    run(f"net/{sl}/sim", net.calculate_similarity_measure,
        cd.anomaly())
    run(f"net/{sl}/const", net._cython_calculate_mutual_information,
        np.ones((5, 6)))
    run(f"net/{sl}/int", net._cython_calculate_mutual_information,
        np.arange(24).reshape(4, 6))
    run(f"net/{sl}/1d", net._cython_calculate_mutual_information,
        np.arange(6.))
feed("cd/anomaly", cd.anomaly())

print(H.hexdigest())
