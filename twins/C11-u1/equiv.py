"""
Equivalence digest for property C11 (cross / internal measures of
InteractingNetworks).  Run as

    PYTHONPATH=<worktree>/src /venv/bin/python equiv.py

Prints one sha256 digest over the full-precision results (raw bytes, dtype and
shape of every array; repr of every scalar; type names of raised exceptions).
"""
import hashlib
import warnings

import numpy as np

from pyunicorn.core.interacting_networks import InteractingNetworks
from pyunicorn.core._ext.types import to_cy, ADJ, NODE, DFIELD, DWEIGHT
from pyunicorn.core._ext.numerics import (
    _cross_transitivity, _cross_local_clustering,
    _nsi_cross_transitivity, _nsi_cross_local_clustering)

warnings.simplefilter("ignore")
np.seterr(all="ignore")

H = hashlib.sha256()
N_ITEMS = [0]


def feed(tag, value):
    N_ITEMS[0] += 1
    H.update(repr(tag).encode())
    if isinstance(value, np.ndarray):
        H.update(str(value.dtype).encode())
        H.update(repr(value.shape).encode())
        H.update(np.ascontiguousarray(value).tobytes())
    elif isinstance(value, (float, np.floating)):
        H.update(type(value).__name__.encode())
        H.update(np.float64(value).tobytes())
    else:
        H.update(type(value).__name__.encode())
        H.update(repr(value).encode())


def call(tag, fun, *args, **kwargs):
    try:
        res = fun(*args, **kwargs)
    except Exception as exc:  # pylint: disable=broad-except
        res = "EXC:" + type(exc).__name__
    feed(tag, res)
    return res


def make_net(rng, N, p, directed, with_weights=True):
    A = (rng.random((N, N)) < p).astype(int)
    np.fill_diagonal(A, 0)
    if not directed:
        A = np.triu(A, 1)
        A = A + A.T
    nw = rng.uniform(0.3, 2.5, N)
    net = InteractingNetworks(adjacency=A, directed=directed,
                              node_weights=nw, silence_level=2)
    if with_weights:
        W = rng.uniform(0.5, 3.0, (N, N))
        if not directed:
            W = np.triu(W, 1)
            W = W + W.T
        W = W * A
        net.set_link_attribute("lw", W)
    return net


def groups(rng, N):
    """Pairs of node lists: disjoint & unsorted, overlapping, whole set."""
    perm = [int(x) for x in rng.permutation(N)]
    n1 = int(rng.integers(1, max(2, N // 2)))
    n2 = int(rng.integers(1, max(2, N - n1)))
    g = [(perm[:n1], perm[n1:n1 + n2]),
         (sorted(perm[:n1]), sorted(perm[n1:n1 + n2])),
         (perm[:N // 2], perm[N // 2:]),
         (list(range(N)), list(range(N))),
         (perm[:n1 + 1], perm[n1:n1 + n2]),          # overlapping
         ([perm[0]], perm[1:])]
    return g


CROSS = ["cross_adjacency", "cross_adjacency_sparse", "number_cross_links",
         "cross_link_density", "cross_global_clustering",
         "cross_global_clustering_sparse", "cross_transitivity",
         "cross_transitivity_sparse", "cross_local_clustering",
         "cross_local_clustering_sparse", "cross_betweenness",
         "nsi_cross_degree", "nsi_cross_mean_degree",
         "nsi_cross_local_clustering", "nsi_cross_closeness_centrality",
         "nsi_cross_global_clustering", "nsi_cross_betweenness",
         "nsi_cross_edge_density", "nsi_cross_transitivity",
         "nsi_cross_average_path_length"]
CROSS_LA = ["cross_path_lengths", "cross_average_path_length",
            "average_cross_closeness", "global_efficiency", "cross_degree",
            "cross_indegree", "cross_outdegree", "cross_closeness",
            "local_efficiency"]
INTERNAL = ["internal_adjacency", "number_internal_links",
            "internal_link_density", "internal_global_clustering",
            "internal_betweenness", "nsi_internal_degree",
            "nsi_internal_closeness_centrality",
            "nsi_internal_local_clustering"]
INTERNAL_LA = ["internal_path_lengths", "internal_average_path_length",
               "internal_degree", "internal_indegree", "internal_outdegree",
               "internal_closeness"]


def exercise(net, tag, g1, g2):
    for name in CROSS:
        if not hasattr(net, name):
            continue
        call((tag, name), getattr(net, name), list(g1), list(g2))
        call((tag, name, "swap"), getattr(net, name), list(g2), list(g1))
    for name in CROSS_LA:
        if not hasattr(net, name):
            continue
        for la in (None, "lw"):
            call((tag, name, la), getattr(net, name), list(g1), list(g2), la)
            call((tag, name, la, "swap"), getattr(net, name),
                 list(g2), list(g1), la)
    call((tag, "cross_link_attribute"), net.cross_link_attribute,
         "lw", list(g1), list(g2))
    for grp in (g1, g2):
        for name in INTERNAL:
            if not hasattr(net, name):
                continue
            call((tag, name), getattr(net, name), list(grp))
        for name in INTERNAL_LA:
            if not hasattr(net, name):
                continue
            for la in (None, "lw"):
                call((tag, name, la), getattr(net, name), list(grp), la)
        call((tag, "internal_link_attribute"), net.internal_link_attribute,
             "lw", list(grp))
        sub = call((tag, "subnetwork"),
                   lambda grp=grp: net.subnetwork(list(grp)).adjacency)
        del sub


def kernels(rng, net, tag, g1, g2):
    A = to_cy(net.adjacency, ADJ)
    Ap = to_cy(net.adjacency + np.eye(net.N, dtype=ADJ), ADJ)
    n1 = np.array(g1, dtype=NODE)
    n2 = np.array(g2, dtype=NODE)
    w = to_cy(net.node_weights, DWEIGHT)
    call((tag, "k_ct"), _cross_transitivity, A, n1, n2)
    call((tag, "k_nsi_ct"), _nsi_cross_transitivity, Ap, n1, n2, w)
    # arbitrary (not degree-derived) norm, including zeros
    norm = rng.integers(0, 4, len(n1)).astype(DFIELD)
    cc = np.full(len(n1), 7.5, dtype=DFIELD)
    call((tag, "k_clc"), _cross_local_clustering, A, norm, n1, n2, cc)
    feed((tag, "k_clc_out"), cc)
    feed((tag, "k_clc_norm"), norm)
    ncc = np.full(len(n1), 0.25, dtype=DFIELD)
    call((tag, "k_nsi_clc"), _nsi_cross_local_clustering, Ap, ncc, n1, n2, w)
    feed((tag, "k_nsi_clc_out"), ncc)
    # duplicated nodes in the second list
    n2d = np.concatenate([n2, n2[:2]]).astype(NODE)
    call((tag, "k_ct_dup"), _cross_transitivity, A, n1, n2d)
    cc = np.zeros(len(n1), dtype=DFIELD)
    call((tag, "k_clc_dup"), _cross_local_clustering, A,
         np.ones(len(n1), dtype=DFIELD), n1, n2d, cc)
    feed((tag, "k_clc_dup_out"), cc)
    # non 0/1 adjacency entries
    A3 = (A * rng.integers(-2, 3, A.shape)).astype(ADJ)
    call((tag, "k_ct_A3"), _cross_transitivity, A3, n1, n2)
    cc = np.zeros(len(n1), dtype=DFIELD)
    call((tag, "k_clc_A3"), _cross_local_clustering, A3,
         np.ones(len(n1), dtype=DFIELD), n1, n2, cc)
    feed((tag, "k_clc_A3_out"), cc)
    # out of range nodes / empty lists
    bad = n2.copy()
    bad[-1] = net.N
    call((tag, "k_ct_bad2"), _cross_transitivity, A, n1, bad)
    cc = np.zeros(len(n1), dtype=DFIELD)
    call((tag, "k_clc_bad2"), _cross_local_clustering, A,
         np.ones(len(n1), dtype=DFIELD), n1, bad, cc)
    feed((tag, "k_clc_bad2_out"), cc)
    bad1 = n1.copy()
    bad1[-1] = -1
    call((tag, "k_ct_bad1"), _cross_transitivity, A, bad1, n2)
    cc = np.zeros(len(n1), dtype=DFIELD)
    call((tag, "k_clc_bad1"), _cross_local_clustering, A,
         np.ones(len(n1), dtype=DFIELD), bad1, n2, cc)
    feed((tag, "k_clc_bad1_out"), cc)
    e = np.array([], dtype=NODE)
    call((tag, "k_ct_e1"), _cross_transitivity, A, e, n2)
    call((tag, "k_ct_e2"), _cross_transitivity, A, n1, e)
    call((tag, "k_ct_rect"), _cross_transitivity, A[:, :max(1, net.N // 2)],
         n1, n2)


def general_helpers(rng, net, tag):
    for shape in [(3, 3), (4, 6), (5, 2), (1, 1), (2, 0), (0, 3)]:
        for internal in (False, True):
            P = rng.integers(0, 4, shape).astype(float)
            P[rng.random(shape) < 0.3] = np.inf
            if shape[0] > 1 and shape[1] > 0:
                P[1, :] = 0.0
            P0 = P.copy()
            call((tag, "gapl", shape, internal),
                 InteractingNetworks._calculate_general_average_path_length,
                 P, internal=internal)
            feed((tag, "gapl_P", shape, internal), P)
            call((tag, "gapl_pos", shape, internal),
                 InteractingNetworks._calculate_general_average_path_length,
                 P, internal)
            call((tag, "gclo", shape, internal),
                 net._calculate_general_closeness, P, internal=internal)
            feed((tag, "gclo_P", shape, internal), P)
            assert np.array_equal(P, P0)
    # all-infinite, integer and nan inputs
    P = np.full((3, 3), np.inf)
    call((tag, "gapl_inf"),
         InteractingNetworks._calculate_general_average_path_length, P, True)
    call((tag, "gclo_inf"), net._calculate_general_closeness, P, False)
    call((tag, "gclo_default"), net._calculate_general_closeness, P)
    call((tag, "gapl_default"),
         InteractingNetworks._calculate_general_average_path_length, P)
    Pi = np.arange(6).reshape(2, 3)
    call((tag, "gapl_int"),
         InteractingNetworks._calculate_general_average_path_length, Pi, False)
    feed((tag, "gapl_int_P"), Pi)
    call((tag, "gclo_int"), net._calculate_general_closeness, Pi, True)
    feed((tag, "gclo_int_P"), Pi)
    Pn = np.array([[0., np.nan, 1.], [np.inf, 2., 0.]])
    call((tag, "gapl_nan"),
         InteractingNetworks._calculate_general_average_path_length, Pn, True)
    call((tag, "gclo_nan"), net._calculate_general_closeness, Pn, False)
    feed((tag, "nan_P"), Pn)
    call((tag, "gapl_1d"),
         InteractingNetworks._calculate_general_average_path_length,
         np.arange(3.0))
    call((tag, "gclo_1d"), net._calculate_general_closeness, np.arange(3.0))


def odd_inputs(net, tag):
    N = net.N
    g1, g2 = [0, 1, 2], [3, 4, 5]
    variants = {
        "empty1": ([], g2), "empty2": (g1, []), "both_empty": ([], []),
        "oor": (g1, [3, N]), "neg": ([-1, 0], g2), "dup": ([0, 0, 1], [3, 3]),
        "tuple": (tuple(g1), tuple(g2)),
        "array": (np.array(g1), np.array(g2)),
        "range": (range(0, 3), range(3, 6)),
        "float": ([0.0, 1.0], g2), "bool": ([True, False], g2),
        "nested": ([[0, 1]], g2), "scalar": (0, 3),
    }
    names = CROSS + ["cross_link_attribute"]
    for vname, (a, b) in variants.items():
        for name in names:
            if not hasattr(net, name):
                continue
            if name == "cross_link_attribute":
                call((tag, vname, name), net.cross_link_attribute, "lw", a, b)
            else:
                call((tag, vname, name), getattr(net, name), a, b)
        for name in CROSS_LA:
            if hasattr(net, name):
                call((tag, vname, name), getattr(net, name), a, b, "lw")
                call((tag, vname, name, None), getattr(net, name), a, b)
        for name in INTERNAL:
            if hasattr(net, name):
                call((tag, vname, name), getattr(net, name), a)
        for name in INTERNAL_LA:
            if hasattr(net, name):
                call((tag, vname, name), getattr(net, name), a, "lw")
        call((tag, vname, "internal_link_attribute"),
             net.internal_link_attribute, "lw", a)
    call((tag, "bad_attr"), net.cross_link_attribute, "nope", g1, g2)
    call((tag, "bad_attr_int"), net.internal_link_attribute, "nope", g1)
    call((tag, "bad_attr_pl"), net.cross_path_lengths, g1, g2, "nope")


def main():
    rng = np.random.default_rng(20261004)
    nets = [("small_u", InteractingNetworks.SmallTestNetwork()),
            ("small_d", InteractingNetworks.SmallDirectedTestNetwork())]
    for idx, (N, p, directed) in enumerate([
            (9, 0.35, False), (9, 0.3, True), (14, 0.25, False),
            (14, 0.5, True), (12, 0.08, False), (12, 0.1, True),
            (20, 0.6, False), (7, 1.0, False), (8, 0.0, False)]):
        nets.append((f"rnd{idx}", make_net(rng, N, p, directed)))

    for tag, net in nets:
        if "lw" not in net.graph.es.attributes():
            if "link_weights" in net.graph.es.attributes():
                net.set_link_attribute(
                    "lw", net.link_attribute("link_weights"))
            else:
                W = rng.uniform(0.5, 3.0, (net.N, net.N)) * net.adjacency
                net.set_link_attribute("lw", W)
        for gi, (g1, g2) in enumerate(groups(rng, net.N)):
            exercise(net, (tag, gi), g1, g2)
            kernels(rng, net, (tag, gi), g1, g2)
        general_helpers(rng, net, tag)
        # object state must be untouched by the measures
        feed((tag, "adj_after"), net.adjacency)
        feed((tag, "nw_after"), net.node_weights)
        call((tag, "pl_after"), net.path_lengths)
        call((tag, "pl_lw_after"), net.path_lengths, "lw")

    odd_inputs(nets[0][1], "odd_u")
    odd_inputs(nets[1][1], "odd_d")
    odd_inputs(nets[2][1], "odd_r")

    print("items:", N_ITEMS[0])
    print("digest:", H.hexdigest())


if __name__ == "__main__":
    main()
