"""Digest of the climate C kernels (_spearman_corr, _mutual_information)."""
import hashlib

import numpy as np

from pyunicorn.climate._ext.numerics import spearman_corr, mutual_information

h = hashlib.sha256()


def feed(tag, value):
    if isinstance(value, np.ndarray):
        h.update(f"{tag}:{value.dtype}:{value.shape}:".encode())
        h.update(np.ascontiguousarray(value).tobytes())
    else:
        h.update(f"{tag}:{value!r}".encode())


def ranks(a):
    return (a.argsort(axis=1).argsort(axis=1) + 1.0).astype(np.float32)


rng = np.random.RandomState(20)
shapes = [(0, 0), (0, 5), (3, 0), (1, 1), (1, 7), (2, 1), (2, 2), (5, 3),
          (3, 5), (7, 11), (12, 40), (25, 6), (4, 200)]
for m, tmax in shapes:
    for p in (0.0, 0.3, 0.7, 1.0):
        data = rng.standard_normal((m, tmax))
        mask = (rng.random_sample((m, tmax)) < p).astype(np.int8)
        ranked = ranks(data)
        try:
            res = spearman_corr(m, tmax, np.ascontiguousarray(mask),
                                np.ascontiguousarray(ranked))
            feed(f"sp{m},{tmax},{p}", res)
        except Exception as e:  # pylint: disable=broad-except
            feed(f"sp{m},{tmax},{p}", type(e).__name__)
    # ties / non-rank inputs, masks with other non-zero values
    data = rng.randint(0, 3, size=(m, tmax)).astype(np.float32)
    mask = rng.randint(-2, 3, size=(m, tmax)).astype(np.int8)
    feed(f"spt{m},{tmax}", spearman_corr(m, tmax, mask, data))

# wrong dtype / ndim are rejected by the wrapper
for bad in (lambda: spearman_corr(2, 2, np.zeros((2, 2)), np.zeros((2, 2),
                                                                  "f4")),
            lambda: spearman_corr(2, 2, np.zeros(4, "i1"),
                                  np.zeros((2, 2), "f4")),
            lambda: spearman_corr(2, 2, None, np.zeros((2, 2), "f4"))):
    try:
        bad()
        feed("bad", "no error")
    except Exception as e:  # pylint: disable=broad-except
        feed("bad", type(e).__name__)

# mutual information kernel lives in the same C file
for N, n_samples, n_bins in [(0, 0, 4), (1, 5, 4), (2, 1, 1), (3, 10, 2),
                             (6, 50, 8), (10, 7, 32), (4, 300, 16),
                             (5, 20, 0), (5, 20, -3)]:
    a = rng.standard_normal((N, n_samples)).astype(np.float32)
    if a.size:
        rmin, rmax = float(a.min()), float(a.max())
        scaling = 1. / (rmax - rmin) if rmax > rmin else 1.0
    else:
        rmin, scaling = 0.0, 1.0
    try:
        feed(f"mi{N},{n_samples},{n_bins}",
             mutual_information(a, n_samples, N, n_bins, scaling, rmin))
    except Exception as e:  # pylint: disable=broad-except
        feed(f"mi{N},{n_samples},{n_bins}", type(e).__name__ + str(e))

print(h.hexdigest())
