"""Deterministic digest of the C17 mechanism (random models and rewirings).

Run as:  PYTHONPATH=<worktree>/src /venv/bin/python equiv.py
Prints one sha256 digest over all results (arrays at full precision, captured
stdout of the library calls, reprs of raised exception types).
"""
import contextlib
import hashlib
import io
import os
import sys
import random as pyrandom

import numpy as np
import scipy.sparse as sp

from pyunicorn.core.network import Network
from pyunicorn.core.grid import Grid
from pyunicorn.core.spatial_network import SpatialNetwork
from pyunicorn.core.interacting_networks import InteractingNetworks
from pyunicorn.core._ext.types import ADJ, NODE, FIELD, DEGREE
from pyunicorn.core._ext import numerics as cy

H = hashlib.sha256()


def seed(k):
    pyrandom.seed(k)
    np.random.seed(k)


def feed(tag, obj):
    H.update(repr(tag).encode())
    if sp.issparse(obj):
        obj = np.asarray(obj.todense())
    if isinstance(obj, np.ndarray):
        H.update(str(obj.dtype).encode() + repr(obj.shape).encode())
        H.update(np.ascontiguousarray(obj).tobytes())
    elif isinstance(obj, (tuple, list)):
        for k, o in enumerate(obj):
            feed((tag, k), o)
    else:
        H.update(repr(obj).encode())


def run(tag, fn):
    """Call fn, feed result / exception type and captured stdout."""
    out = io.StringIO()
    if os.environ.get("EQUIV_TRACE"):
        print(tag, file=sys.stderr, flush=True)
    try:
        with contextlib.redirect_stdout(out):
            res = fn()
        feed(tag, res)
    except Exception as e:  # pylint: disable=broad-except
        feed(tag, ("EXC", type(e).__name__, str(e)))
        if os.environ.get("EQUIV_TRACE"):
            print("   EXC", type(e).__name__, str(e)[:90], file=sys.stderr)
    feed((tag, "stdout"), out.getvalue())
    # RNG state after the call must agree as well
    feed((tag, "rng"), float(np.random.random()))
    feed((tag, "pyrng"), pyrandom.random())


def net_state(net):
    return [np.asarray(net.adjacency), net.degree(), int(net.n_links),
            bool(net.directed), np.array(net.graph.get_edgelist())]


# --------------------------------------------------------------------------
# model generators
# --------------------------------------------------------------------------
for s in range(4):
    for n, m in ((10, 18), (25, 40), (7, 0), (6, 15)):
        seed(s)
        run(("ER_m", s, n, m),
            lambda: Network.ErdosRenyi(n_nodes=n, n_links=m))
        seed(s)
        run(("ER_m_silent", s, n, m),
            lambda: Network.ErdosRenyi(n_nodes=n, n_links=m, silence_level=1))
    for n, p in ((10, 0.3), (30, 0.1), (5, 0.0), (5, 1.0)):
        seed(s)
        run(("ER_p", s, n, p),
            lambda: Network.ErdosRenyi(n_nodes=n, link_probability=p))
        seed(s)
        run(("ER_p_silent", s, n, p),
            lambda: Network.ErdosRenyi(n_nodes=n, link_probability=p,
                                       silence_level=2))
    seed(s)
    run(("ER_model", s), lambda: net_state(
        Network.Model("ErdosRenyi", n_nodes=12, n_links=20)))
    for n, m in ((20, 1), (40, 3), (12, 5), (6, 5), (3, 1)):
        seed(s)
        run(("BA", s, n, m),
            lambda: Network.BarabasiAlbert(n_nodes=n, n_links_each=m))
        seed(s)
        run(("BA_ig", s, n, m),
            lambda: Network.BarabasiAlbert_igraph(n_nodes=n, n_links_each=m))
    seed(s)
    run(("BA_model", s), lambda: net_state(
        Network.Model("BarabasiAlbert", n_nodes=30, n_links_each=2)))
    for deg in ([3] * 20, [1, 2, 3, 2, 1, 1], [2, 2, 2, 2], [5, 1, 1, 1, 1, 1],
                np.array([4, 3, 3, 2, 2, 1, 1]), [1, 1, 1]):
        seed(s)
        run(("CONF", s, repr(deg)), lambda: Network.Configuration(deg))
    for N, k, p in ((20, 2, 0.1), (15, 1, 0.5), (10, 3, 0.0), (10, 2, 1.0)):
        seed(s)
        run(("WS", s, N, k, p), lambda: Network.WattsStrogatz(N=N, k=k, p=p))

# error paths of the generators
run("ER_none", Network.ErdosRenyi)
run("ER_both", lambda: Network.ErdosRenyi(n_nodes=5, link_probability=0.2,
                                          n_links=3))
run("ER_both_silent", lambda: Network.ErdosRenyi(
    n_nodes=5, link_probability=0.2, n_links=3, silence_level=3))
run("ER_toomany", lambda: Network.ErdosRenyi(n_nodes=4, n_links=100))
run("ER_badp", lambda: Network.ErdosRenyi(n_nodes=4, link_probability=1.5))
run("ER_badsil", lambda: Network.ErdosRenyi(n_nodes=4, n_links=2,
                                            silence_level=None))
run("ER_badsil_invalid", lambda: Network.ErdosRenyi(n_nodes=4,
                                                    silence_level=None))
run("MODEL_unknown", lambda: Network.Model("NoSuchModel"))
run("CONF_odd", lambda: Network.Configuration([1, 1, 1, 2]))
run("CONF_neg", lambda: Network.Configuration([-1, 1]))
run("WS_bad", lambda: Network.WattsStrogatz(N=5, k=2, p=2.0))
run("BA_small", lambda: Network.BarabasiAlbert(n_nodes=2, n_links_each=5))
run("BA_zero", lambda: Network.BarabasiAlbert(n_nodes=5, n_links_each=0))
run("BAig_bad", lambda: Network.BarabasiAlbert_igraph(n_nodes=-1,
                                                      n_links_each=1))

# --------------------------------------------------------------------------
# igraph rewiring + rebuild from edge list
# --------------------------------------------------------------------------
for s in range(4):
    for its in (0, 1, 10, 50):
        for sil in (0, 2):
            def f():
                net = Network.SmallTestNetwork()
                net.silence_level = sil
                before = net_state(net)
                net.randomly_rewire(iterations=its)
                return [before, net_state(net)]
            seed(s)
            run(("RR_small", s, its, sil), f)

    def g():
        seed(100 + s)
        net = Network(Network.ErdosRenyi(n_nodes=30, n_links=60,
                                         silence_level=2), silence_level=2)
        net.randomly_rewire(iterations=40)
        st = net_state(net)
        net.randomly_rewire(iterations=5)
        return [st, net_state(net)]
    run(("RR_er", s), g)


def rr_dir():
    net = Network.SmallDirectedTestNetwork()
    net.randomly_rewire(iterations=5)
    return net_state(net)


seed(5)
run("RR_directed", rr_dir)

# --------------------------------------------------------------------------
# geographical rewiring I-III and distance-kernel model
# --------------------------------------------------------------------------


def spatial_net(n, m, s):
    seed(1000 + s)
    coords = np.random.random((2, n)) * 10
    grid = Grid(time_seq=np.arange(3), space_seq=coords, silence_level=2)
    A = Network.ErdosRenyi(n_nodes=n, n_links=m, silence_level=2)
    return SpatialNetwork(grid=grid, adjacency=A, directed=False,
                          silence_level=2)


for s in range(3):
    for model in ("I", "II", "III"):
        for its, eps in ((0, 100), (1, 100), (20, 100), (15, 1e6)):
            def f():
                net = SpatialNetwork.SmallTestNetwork()
                D = net.grid.distance()
                D0 = D.copy()
                getattr(net, "randomly_rewire_geomodel_" + model)(
                    distance_matrix=D, iterations=its, inaccuracy=eps)
                return [net_state(net), D, np.array_equal(D, D0)]
            if model == "III" and its:
                continue    # no admissible pair exists: would not halt
            seed(s)
            run(("GEO_small", model, s, its, eps), f)

        def f2():
            net = spatial_net(30, 90, s)
            D = net.grid.distance()
            eps = {"I": 1.0, "II": 3.0, "III": 8.0}[model]
            its = {"I": 25, "II": 10, "III": 3}[model]
            net.silence_level = 0
            seed(s)
            getattr(net, "randomly_rewire_geomodel_" + model)(
                distance_matrix=D, iterations=its, inaccuracy=eps)
            st = net_state(net)
            # second call on the already rewired network
            getattr(net, "randomly_rewire_geomodel_" + model)(
                distance_matrix=D, iterations=2, inaccuracy=100)
            return [st, net_state(net)]
        run(("GEO_rand", model, s), f2)

    for a, b in ((0., -4.), (0., -0.04), (-1., -0.2), (1., 0.), (-50., 0.)):
        def f3():
            net = SpatialNetwork.SmallTestNetwork()
            net.set_random_links_by_distance(a=a, b=b)
            st = net_state(net)
            net.set_random_links_by_distance(a=a, b=b)
            return [st, net_state(net)]
        seed(s)
        run(("DIST_small", s, a, b), f3)

    def f4():
        net = spatial_net(25, 40, s)
        seed(s)
        net.set_random_links_by_distance(a=-0.5, b=-0.3)
        return net_state(net)
    run(("DIST_rand", s), f4)


def geo_bad_eps(model):
    net = SpatialNetwork.SmallTestNetwork()
    getattr(net, "randomly_rewire_geomodel_" + model)(
        distance_matrix=net.grid.distance(), iterations=1, inaccuracy="x")


def geo_bad_D(model):
    net = SpatialNetwork.SmallTestNetwork()
    getattr(net, "randomly_rewire_geomodel_" + model)(
        distance_matrix=[[0, 1], [1, 0]], iterations=1, inaccuracy=1)


def geo_bad_its(model):
    net = SpatialNetwork.SmallTestNetwork()
    getattr(net, "randomly_rewire_geomodel_" + model)(
        distance_matrix=net.grid.distance(), iterations=1.5, inaccuracy=100)


for model in ("I", "II", "III"):
    seed(0)
    run(("GEO_bad_eps", model), lambda: geo_bad_eps(model))
    run(("GEO_bad_D", model), lambda: geo_bad_D(model))
    if model != "III":
        run(("GEO_bad_its", model), lambda: geo_bad_its(model))

# direct kernel calls
for s in range(3):
    for model in ("I", "II", "III"):
        def k():
            seed(2000 + s)
            n, m = 20, 60
            Adj = Network.ErdosRenyi(n_nodes=n, n_links=m,
                                     silence_level=2).astype(ADJ)
            pts = np.random.random((n, 2))
            D = np.sqrt(((pts[:, None, :] - pts[None, :, :]) ** 2).sum(-1)
                        ).astype(FIELD)
            edges = np.array(np.triu(Adj).nonzero(), dtype=NODE).T.copy()
            deg = Adj.sum(axis=0).astype(DEGREE)
            eps = {"I": 0.2, "II": 0.5, "III": 5.0}[model]
            its = {"I": 30, "II": 12, "III": 4}[model]
            args = [its, eps, Adj, D, m, edges]
            if model == "III":
                args.append(deg)
            getattr(cy, "_randomly_rewire_geomodel_" + model)(*args)
            return [Adj, edges, D, deg]
        run(("KERNEL_geo", model, s), k)

# --------------------------------------------------------------------------
# cross-link models
# --------------------------------------------------------------------------


def inet(n, m, s, directed=False):
    seed(3000 + s)
    A = Network.ErdosRenyi(n_nodes=n, n_links=m, silence_level=2)
    return InteractingNetworks(adjacency=A, directed=directed,
                               node_weights=np.arange(1, n + 1) * 0.5,
                               silence_level=2)


def inet_state(net):
    return net_state(net) + [np.asarray(net.node_weights),
                             int(net.silence_level)]


GROUPS = [([0, 3, 5], [1, 2, 4]), ([0, 1], [2, 3, 4, 5]), ([5], [0]),
          ([4, 2, 0], [5, 1])]

for s in range(3):
    for l1, l2 in GROUPS:
        for kw in ({}, {"cross_link_density": 0.5},
                   {"cross_link_density": 0.0}, {"cross_link_density": 1.0},
                   {"number_cross_links": 2}, {"number_cross_links": 0},
                   {"number_cross_links": 100},
                   {"cross_link_density": 0.3, "number_cross_links": 1},
                   {"cross_link_density": 2.0}):
            for meth in ("RandomlySetCrossLinks",
                         "RandomlySetCrossLinks_sparse"):
                def f():
                    net = InteractingNetworks.SmallTestNetwork()
                    before = inet_state(net)
                    new = getattr(InteractingNetworks, meth)(
                        net, l1, l2, **kw)
                    return [before, inet_state(net), inet_state(new)]
                seed(s)
                run((meth, s, l1, l2, sorted(kw.items())), f)
        for swaps in (0, 0.5, 1, 10., 3):
            def f5():
                net = InteractingNetworks.SmallTestNetwork()
                before = inet_state(net)
                new = InteractingNetworks.RandomlyRewireCrossLinks(
                    network=net, node_list1=l1, node_list2=l2, swaps=swaps)
                return [before, inet_state(net), inet_state(new),
                        new.cross_degree(l1, l2), new.cross_degree(l2, l1)]
            if (l1, l2) in (([5], [0]),) and swaps:
                continue    # single cross link: no admissible swap, no halt
            seed(s)
            run(("RRCL", s, l1, l2, swaps), f5)

    def f6():
        net = inet(24, 70, s)
        l1 = list(range(0, 24, 2))
        l2 = list(range(1, 24, 2))
        seed(s)
        a = InteractingNetworks.RandomlySetCrossLinks(net, l1, l2)
        b = InteractingNetworks.RandomlySetCrossLinks_sparse(
            net, l1, l2, number_cross_links=17)
        c = InteractingNetworks.RandomlyRewireCrossLinks(net, l1, l2, 2.5)
        d = InteractingNetworks.RandomlyRewireCrossLinks(
            net, np.array(l2[:7]), np.array(l1[3:]), 1)
        return [inet_state(x) for x in (net, a, b, c, d)]
    run(("CROSS_rand", s), f6)

    def f7():
        net = InteractingNetworks.SmallDirectedTestNetwork()
        seed(s)
        a = InteractingNetworks.RandomlySetCrossLinks(
            net, [0, 1, 2], [3, 4, 5], number_cross_links=4)
        b = InteractingNetworks.RandomlySetCrossLinks_sparse(
            net, [0, 1, 2], [3, 4, 5], cross_link_density=0.4)
        return [inet_state(x) for x in (net, a, b)]
    run(("CROSS_directed", s), f7)

run("CROSS_bad_nodes", lambda: InteractingNetworks.RandomlySetCrossLinks(
    InteractingNetworks.SmallTestNetwork(), [0, 99], [1, 2]))
run("CROSS_bad_nodes_sp",
    lambda: InteractingNetworks.RandomlySetCrossLinks_sparse(
        InteractingNetworks.SmallTestNetwork(), [0, 99], [1, 2]))
run("CROSS_empty", lambda: inet_state(
    InteractingNetworks.RandomlySetCrossLinks(
        InteractingNetworks.SmallTestNetwork(), [], [1, 2])))
run("CROSS_empty_sp", lambda: inet_state(
    InteractingNetworks.RandomlySetCrossLinks_sparse(
        InteractingNetworks.SmallTestNetwork(), [0, 3], [])))
run("CROSS_neg", lambda: inet_state(
    InteractingNetworks.RandomlySetCrossLinks(
        InteractingNetworks.SmallTestNetwork(), [0, 3], [1, 2],
        number_cross_links=-3)))
run("CROSS_neg_sp", lambda: inet_state(
    InteractingNetworks.RandomlySetCrossLinks_sparse(
        InteractingNetworks.SmallTestNetwork(), [0, 3], [1, 2],
        number_cross_links=-3)))
run("CROSS_str", lambda: InteractingNetworks.RandomlySetCrossLinks(
    InteractingNetworks.SmallTestNetwork(), [0, 3], [1, 2],
    number_cross_links="2"))
run("CROSS_str_sp", lambda: InteractingNetworks.RandomlySetCrossLinks_sparse(
    InteractingNetworks.SmallTestNetwork(), [0, 3], [1, 2],
    number_cross_links="2"))
run("RRCL_empty", lambda: inet_state(
    InteractingNetworks.RandomlyRewireCrossLinks(
        InteractingNetworks.SmallTestNetwork(), [], [1, 2], 1)))
run("RRCL_bad", lambda: InteractingNetworks.RandomlyRewireCrossLinks(
    InteractingNetworks.SmallTestNetwork(), [0, 77], [1, 2], 1))
run("RRCL_badswaps", lambda: InteractingNetworks.RandomlyRewireCrossLinks(
    InteractingNetworks.SmallTestNetwork(), [0, 3, 5], [1, 2, 4], "a"))

# direct kernel calls (cross links)
for s in range(3):
    def k1():
        seed(4000 + s)
        n = 12
        Adj = Network.ErdosRenyi(n_nodes=n, n_links=25,
                                 silence_level=2).astype(ADJ)
        n1 = np.array([0, 2, 4, 6, 8], dtype=NODE)
        n2 = np.array([11, 9, 7, 5], dtype=NODE)
        cA = np.zeros((5, 4), dtype=ADJ)
        cy._randomlySetCrossLinks(Adj, cA, 9, n1, n2, 5, 4)
        st = [Adj.copy(), cA.copy()]
        links = np.array(cA.nonzero(), dtype=NODE).transpose()
        cy._randomlyRewireCrossLinks(Adj, cA, links, n1, n2, 9, 14)
        return st + [Adj, cA, links]
    run(("KERNEL_cross", s), k1)

    def k2():
        seed(s)
        Adj = np.eye(3, dtype=ADJ)
        cA = np.zeros((1, 2), dtype=ADJ)
        cy._randomlySetCrossLinks(Adj, cA, 0, np.array([0], dtype=NODE),
                                  np.array([1, 2], dtype=NODE), 1, 2)
        cy._randomlySetCrossLinks(Adj, cA, 2, np.array([0], dtype=NODE),
                                  np.array([1, 2], dtype=NODE), 1, 2)
        return [Adj, cA]
    run(("KERNEL_cross_small", s), k2)

run("KERNEL_cross_badm", lambda: cy._randomlySetCrossLinks(
    np.eye(3, dtype=ADJ), np.zeros((1, 2), dtype=ADJ), 0,
    np.array([0], dtype=NODE), np.array([1, 2], dtype=NODE), 2, 2))
run("KERNEL_cross_badtype", lambda: cy._randomlySetCrossLinks(
    np.eye(3), np.zeros((1, 2), dtype=ADJ), 0,
    np.array([0], dtype=NODE), np.array([1, 2], dtype=NODE), 1, 2))
run("KERNEL_rrcl_zero", lambda: cy._randomlyRewireCrossLinks(
    np.eye(3, dtype=ADJ), np.zeros((1, 2), dtype=ADJ),
    np.zeros((0, 2), dtype=NODE), np.array([0], dtype=NODE),
    np.array([1, 2], dtype=NODE), 0, 0))

print(H.hexdigest())
