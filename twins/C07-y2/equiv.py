"""
Equivalence digest for property C07 (recurrence matrices are thresholded
distance matrices).  Run as

    PYTHONPATH=<worktree>/src /venv/bin/python equiv.py

Prints one sha256 digest over: recurrence matrices (bytes, dtype, shape) and
bookkeeping attributes produced by every setter of RecurrencePlot,
RecurrenceNetwork, CrossRecurrencePlot (constructor paths and call sequences
on one object, with and without missing values / embedding / custom
processing order), Joint / InterSystem constructions, direct calls of the
compiled kernels (incl. strided input and out-of-range arguments), printed
progress messages, and the types of all raised exceptions.
"""
import hashlib
import io
import contextlib

import numpy as np

from pyunicorn.timeseries import RecurrencePlot, RecurrenceNetwork, \
    CrossRecurrencePlot, JointRecurrencePlot, JointRecurrenceNetwork, \
    InterSystemRecurrenceNetwork
from pyunicorn.timeseries._ext import numerics as K

H = hashlib.sha256()
COUNT = [0]
OUTCOMES = {}


def put(tag, obj):
    """Feed a labelled object into the digest."""
    COUNT[0] += 1
    H.update(repr(tag).encode())
    if isinstance(obj, np.ndarray):
        H.update(str(obj.dtype).encode())
        H.update(repr(obj.shape).encode())
        H.update(np.ascontiguousarray(obj).tobytes())
    elif isinstance(obj, (np.floating, float)):
        H.update(np.float64(obj).tobytes())
        H.update(type(obj).__name__.encode())
    else:
        H.update(repr(obj).encode())


def attempt(tag, fn):
    """Run fn, record its result or the type of the exception raised."""
    try:
        res = fn()
    except BaseException as e:  # pylint: disable=broad-except
        put(tag, "EXC:" + type(e).__name__)
        key = (tag[0], type(e).__name__)
        OUTCOMES[key] = OUTCOMES.get(key, 0) + 1
        return None
    put(tag, "OK")
    OUTCOMES[(tag[0], "ok")] = OUTCOMES.get((tag[0], "ok"), 0) + 1
    return res


def series(rng, n, d, n_nan=0, ties=False):
    x = rng.standard_normal((n, d))
    if ties:
        x = np.round(x * 2) / 2
    if d == 1 and rng.random() < 0.5:
        x = x[:, 0]
    x = x.astype("float32") if rng.random() < 0.3 else x
    if n_nan:
        x = x.astype("float64")
        idx = rng.choice(x.shape[0], size=n_nan, replace=False)
        if x.ndim == 1:
            x[idx] = np.nan
        else:
            for i in idx:
                x[i, rng.integers(x.shape[1])] = np.nan
    return x


def rp_state(tag, rp):
    put(tag + ("R",), rp.R)
    put(tag + ("N",), rp.N)
    put(tag + ("mutR",), rp._mut_R)
    put(tag + ("recmat",), rp.recurrence_matrix())


def net_state(tag, rn):
    rp_state(tag, rn)
    put(tag + ("A",), rn.adjacency)
    put(tag + ("directed",), rn.directed)
    put(tag + ("nlinks",), rn.n_links)
    put(tag + ("nw",), np.asarray(rn.node_weights))
    put(tag + ("deg",), np.asarray(rn.degree()))
    put(tag + ("sil",), rn.silence_level)


MODES = [("threshold", 0.8), ("threshold", 0.0), ("threshold_std", 0.7),
         ("recurrence_rate", 0.0), ("recurrence_rate", 0.23),
         ("recurrence_rate", 1.0), ("local_recurrence_rate", 0.31),
         ("local_recurrence_rate", 0.0), ("local_recurrence_rate", 1.0),
         ("adaptive_neighborhood_size", 1),
         ("adaptive_neighborhood_size", 3)]
METRICS = ("manhattan", "euclidean", "supremum")


def rp_part():
    rng = np.random.default_rng(7001)
    case = 0
    for n, d in [(2, 1), (5, 2), (17, 1), (23, 3), (40, 1)]:
        for n_nan in (0, 2 if n > 5 else 1):
            for metric in METRICS:
                for ties in (False, True):
                    x = series(rng, n, d, n_nan, ties)
                    emb = {}
                    if x.ndim == 1 or x.shape[1] == 1:
                        if n >= 17 and rng.random() < 0.6:
                            emb = dict(dim=int(rng.integers(1, 4)),
                                       tau=int(rng.integers(1, 4)))
                    for mode, val in MODES:
                        case += 1
                        tag = ("rp", case, n, d, n_nan, metric, ties, mode,
                               val, tuple(sorted(emb.items())))
                        kw = dict(metric=metric, missing_values=bool(n_nan),
                                  normalize=bool(case % 3 == 0),
                                  silence_level=2, **emb)
                        kw[mode] = val
                        rp = attempt(tag, lambda: RecurrencePlot(x, **kw))
                        if rp is None:
                            continue
                        rp_state(tag, rp)
                        put(tag + ("rr",), rp.recurrence_rate())
    return case


def rp_sequences():
    rng = np.random.default_rng(7002)
    for rep in range(12):
        n = int(rng.integers(6, 30))
        d = int(rng.integers(1, 4))
        n_nan = int(rng.integers(0, 3))
        metric = METRICS[rep % 3]
        x = series(rng, n, d, n_nan, ties=bool(rep % 2))
        rp = RecurrencePlot(x, metric=metric, missing_values=bool(n_nan),
                            threshold=0.5, silence_level=2)
        tag = ("rpseq", rep)
        rp_state(tag + (0,), rp)
        N = rp.N
        perm = rng.permutation(N)
        steps = [
            ("set_fixed_threshold", (1.1,)),
            ("set_fixed_local_recurrence_rate", (0.4,)),
            ("set_adaptive_neighborhood_size", (2,)),
            ("set_adaptive_neighborhood_size", (2, perm.astype("int32"))),
            ("set_adaptive_neighborhood_size", (3, perm[::-1].copy())),
            ("set_adaptive_neighborhood_size", (1, perm.astype("int16"))),
            ("set_fixed_recurrence_rate", (0.15,)),
            ("set_fixed_threshold_std", (0.4,)),
            ("set_fixed_threshold", (np.float32(0.3),)),
            ("set_fixed_threshold", (np.full(N, 0.6),)),
            ("set_fixed_threshold", (np.linspace(0, 2, N)[:, None],)),
            # error paths: object state must stay as it was
            ("set_fixed_recurrence_rate", (1.5,)),
            ("set_fixed_recurrence_rate", (-0.1,)),
            ("set_fixed_recurrence_rate", (float("nan"),)),
            ("set_fixed_local_recurrence_rate", (1.0001,)),
            ("set_fixed_local_recurrence_rate", (float("nan"),)),
            ("set_adaptive_neighborhood_size", (N,)),
            ("set_adaptive_neighborhood_size", (N - 1,)),
            ("set_adaptive_neighborhood_size", (0,)),
            ("set_adaptive_neighborhood_size", (-3,)),
            ("set_adaptive_neighborhood_size", (2, perm.astype("float64"))),
            ("set_adaptive_neighborhood_size", (2, perm[:N // 2])),
            ("set_adaptive_neighborhood_size", (2, perm + 1)),
            ("set_adaptive_neighborhood_size", (2, perm - 1)),
            ("set_adaptive_neighborhood_size", (2, [0, 1])),
            ("set_adaptive_neighborhood_size", (2.5,)),
            ("set_fixed_threshold", (None,)),
            ("set_fixed_threshold", ("a",)),
            ("set_fixed_threshold", (np.ones(N + 1),)),
            ("set_fixed_threshold_std", (None,)),
            ("set_fixed_threshold", (float("nan"),)),
            ("set_fixed_threshold", (float("inf"),)),
            ("set_fixed_local_recurrence_rate", (0.5,)),
        ]
        for s, (name, args) in enumerate(steps):
            t = tag + (s + 1, name)
            attempt(t, lambda: getattr(rp, name)(*args))
            rp_state(t, rp)
            # cached distance matrix must be untouched
            put(t + ("D",), rp.distance_matrix(metric))


def messages():
    rng = np.random.default_rng(7003)
    x = series(rng, 12, 2, 1)
    y = series(rng, 9, 2)
    for sil in (0, 1, 2):
        buf = io.StringIO()
        with contextlib.redirect_stdout(buf):
            rp = RecurrencePlot(x, missing_values=True, threshold_std=0.5,
                                silence_level=sil)
            rp.set_fixed_threshold(0.4)
            rp.set_fixed_recurrence_rate(0.2)
            rp.set_fixed_local_recurrence_rate(0.2)
            rp.set_adaptive_neighborhood_size(2)
            try:
                rp.set_fixed_recurrence_rate(3)
            except AssertionError:
                print("assert")
            rn = RecurrenceNetwork(x[:, 0], dim=2, tau=1,
                                   local_recurrence_rate=0.3,
                                   silence_level=sil)
            rn.set_fixed_threshold(0.4)
            rn.set_fixed_threshold_std(0.4)
            rn.set_fixed_recurrence_rate(0.2)
            rn.set_fixed_local_recurrence_rate(0.2)
            rn.set_adaptive_neighborhood_size(2)
            c = CrossRecurrencePlot(np.nan_to_num(x), y, threshold=0.7,
                                    silence_level=sil)
            c.set_fixed_recurrence_rate(0.3)
            c.set_fixed_threshold(0.3)
        put(("msg", sil), buf.getvalue())


def rn_part():
    rng = np.random.default_rng(7004)
    case = 0
    for n, d in [(4, 1), (15, 2), (26, 1)]:
        for n_nan in (0, 2):
            for metric in METRICS:
                x = series(rng, n, d, n_nan if n > 4 else 0, ties=(d == 2))
                nanflag = bool(n_nan) and n > 4
                emb = dict(dim=2, tau=2) if (n == 26) else {}
                for mode, val in MODES:
                    for with_w in (False, True):
                        case += 1
                        tag = ("rn", case, n, d, n_nan, metric, mode, val,
                               with_w)
                        kw = dict(metric=metric, missing_values=nanflag,
                                  silence_level=2, **emb)
                        kw[mode] = val
                        if with_w:
                            kw["node_weights"] = rng.random(n) + 0.5
                        rn = attempt(tag,
                                     lambda: RecurrenceNetwork(x, **kw))
                        if rn is None:
                            continue
                        net_state(tag, rn)
                        if nanflag and with_w:
                            # weights do not match the reduced network:
                            # keep the failure mode in the digest, too
                            continue
                        #  call sequence of setters on the same object
                        N = rn.R.shape[0]
                        steps = [
                            ("set_fixed_local_recurrence_rate", (0.3,)),
                            ("set_fixed_threshold", (0.9,)),
                            ("set_adaptive_neighborhood_size", (2,)),
                            ("set_adaptive_neighborhood_size",
                             (1, rng.permutation(N).astype("int32"))),
                            ("set_fixed_recurrence_rate", (0.2,)),
                            ("set_fixed_threshold_std", (0.5,)),
                            ("set_fixed_recurrence_rate", (7,)),
                            ("set_adaptive_neighborhood_size", (N + 1,)),
                            ("set_fixed_threshold", ("zz",)),
                        ]
                        if case % 4 != 1:
                            steps = steps[case % 3::2]
                        for s, (name, args) in enumerate(steps):
                            t = tag + (s, name)
                            attempt(t, lambda: getattr(rn, name)(*args))
                            net_state(t, rn)
    # constructor failure modes
    x = series(rng, 10, 1)
    attempt(("rn", "nokw"), lambda: RecurrenceNetwork(x, silence_level=2))
    attempt(("rn", "sparse"), lambda: RecurrenceNetwork(
        x, threshold=0.2, sparse_rqa=True, silence_level=2))
    attempt(("rn", "sparse-w"), lambda: RecurrenceNetwork(
        x, threshold=0.2, sparse_rqa=True, node_weights=5, silence_level=2))
    attempt(("rn", "skip"), lambda: RecurrenceNetwork(
        x, threshold=0.2, skip_recurrence=True, silence_level=2))
    attempt(("rn", "badw"), lambda: RecurrenceNetwork(
        x, threshold=0.2, node_weights=5, silence_level=2))
    attempt(("rn", "shortw"), lambda: RecurrenceNetwork(
        x, threshold=0.2, node_weights=np.ones(4), silence_level=2))
    return case


def crp_part():
    rng = np.random.default_rng(7005)
    case = 0
    for nx, ny, d in [(3, 5, 1), (14, 9, 2), (20, 20, 1), (11, 30, 3)]:
        for metric in METRICS:
            x = series(rng, nx, d, ties=(d == 2))
            y = series(rng, ny, d, ties=(d == 2))
            if x.ndim != y.ndim:
                x = x.reshape(nx, -1)
                y = y.reshape(ny, -1)
            emb = dict(dim=2, tau=3) if (d == 1 and nx >= 20) else {}
            for mode, val in [("threshold", 0.6), ("threshold", 0.0),
                              ("recurrence_rate", 0.0),
                              ("recurrence_rate", 0.37),
                              ("recurrence_rate", 1.0),
                              ("recurrence_rate", 1.2),
                              ("threshold", "q")]:
                case += 1
                tag = ("crp", case, nx, ny, d, metric, mode, val)
                kw = dict(metric=metric, silence_level=2,
                          normalize=bool(case % 2), **emb)
                kw[mode] = val
                c = attempt(tag, lambda: CrossRecurrencePlot(x, y, **kw))
                if c is None:
                    continue

                def st(t):
                    put(t + ("CR",), c.CR)
                    put(t + ("NM",), (c.N, c.M))
                    put(t + ("recmat",), c.recurrence_matrix())
                    put(t + ("crr",), c.cross_recurrence_rate())
                    put(t + ("R",), c.R)
                    put(t + ("mutR",), c._mut_R)
                st(tag)
                for s, (name, arg) in enumerate([
                        ("set_fixed_recurrence_rate", 0.5),
                        ("set_fixed_threshold", 1.3),
                        ("set_fixed_recurrence_rate", -1),
                        ("set_fixed_threshold", None),
                        ("set_fixed_threshold", np.float32(0.2)),
                        ("set_fixed_recurrence_rate", np.float64(0.9))]):
                    t = tag + (s, name)
                    attempt(t, lambda: getattr(c, name)(arg))
                    st(t)
    x = series(rng, 10, 1)
    attempt(("crp", "nokw"),
            lambda: CrossRecurrencePlot(x, x, silence_level=2))
    return case


def compositions():
    rng = np.random.default_rng(7006)
    for rep in range(6):
        n = int(rng.integers(12, 25))
        x = rng.standard_normal((n, 2))
        y = rng.standard_normal((n, 2))
        metric = (METRICS[rep % 3], METRICS[(rep + 1) % 3])
        lag = int(rng.integers(-3, 4))
        for kw in (dict(threshold=(0.8, 1.1)),
                   dict(threshold_std=(0.6, 0.9)),
                   dict(recurrence_rate=(0.2, 0.3))):
            tag = ("jrp", rep, tuple(kw), lag)
            j = attempt(tag, lambda: JointRecurrencePlot(
                x, y, metric=metric, lag=lag, silence_level=2, **kw))
            if j is not None:
                put(tag + ("JR",), j.recurrence_matrix())
                put(tag + ("N",), j.N)
            jn = attempt(tag + ("net",), lambda: JointRecurrenceNetwork(
                x, y, metric=metric, lag=lag, silence_level=2, **kw))
            if jn is not None:
                put(tag + ("A",), jn.adjacency)
        m = int(rng.integers(8, 20))
        z = rng.standard_normal((m, 2))
        for kw in (dict(threshold=(0.7, 0.9, 1.0)),
                   dict(recurrence_rate=(0.2, 0.3, 0.25))):
            tag = ("isrn", rep, tuple(kw))
            net = attempt(tag, lambda: InterSystemRecurrenceNetwork(
                x, z, metric=METRICS[rep % 3], silence_level=2, **kw))
            if net is not None:
                put(tag + ("A",), net.adjacency)
                put(tag + ("N",), (net.N, net.N_x, net.N_y))


def kernels():
    rng = np.random.default_rng(7007)
    rp_k = (K._manhattan_distance_matrix_rp, K._euclidean_distance_matrix_rp,
            K._supremum_distance_matrix_rp)
    crp_k = (K._manhattan_distance_matrix_crp,
             K._euclidean_distance_matrix_crp,
             K._supremum_distance_matrix_crp)
    for rep in range(8):
        n = int(rng.integers(1, 30))
        m = int(rng.integers(1, 30))
        d = int(rng.integers(1, 5))
        big = rng.standard_normal((2 * n, 2 * d)) * 10.0 ** rng.integers(-3, 4)
        e = np.ascontiguousarray(big[:n, :d])
        f = rng.standard_normal((m, d))
        if rep % 3 == 0:
            e[rng.integers(n), rng.integers(d)] = np.nan
            f[rng.integers(m), rng.integers(d)] = np.inf
        views = {"c": e, "strided": big[::2, ::2], "fortran":
                 np.asfortranarray(e)}
        for ki, k in enumerate(rp_k):
            for vn, v in views.items():
                t = ("k-rp", rep, ki, vn)
                put(t, attempt(t + ("call",),
                               lambda: k(v.shape[0], v.shape[1], v)))
            t = ("k-rp", rep, ki)
            #  inconsistent sizes
            put(t + ("small",), attempt(
                t + ("small", "call"), lambda: k(max(n - 1, 0), d, e)))
            attempt(t + ("toolong",), lambda: k(n + 1, d, e))
            attempt(t + ("toowide",), lambda: k(n, d + 1, e)
                    if n > 1 else k(n + 1, d, e))
            put(t + ("dim0",), attempt(t + ("dim0", "call"),
                                       lambda: k(n, 0, e)))
            put(t + ("neg",), attempt(t + ("neg", "call"),
                                      lambda: k(n, -1, e)))
            attempt(t + ("f32",), lambda: k(n, d, e.astype("float32")))
            attempt(t + ("none",), lambda: k(n, d, None))
        for ki, k in enumerate(crp_k):
            t = ("k-crp", rep, ki)
            put(t, attempt(t + ("call",), lambda: k(n, m, d, e, f)))
            put(t + ("swap",), attempt(t + ("swap", "call"),
                                       lambda: k(m, n, d, f, e)))
            attempt(t + ("strided",),
                    lambda: k(n, m, d, big[::2, ::2], f))
            attempt(t + ("toolong",), lambda: k(n + 1, m, d, e, f))
            attempt(t + ("toolong2",), lambda: k(n, m + 1, d, e, f))
            attempt(t + ("toowide",), lambda: k(n, m, d + 1, e, f))
            put(t + ("dim0",), attempt(t + ("dim0", "call"),
                                       lambda: k(n, m, 0, e, f)))
            attempt(t + ("none",), lambda: k(n, m, d, None, f))
        #  embedding kernel
        L = int(rng.integers(5, 40))
        ts = rng.standard_normal(L).astype("float32")
        ts2 = rng.standard_normal(2 * L).astype("float32")[::2]
        for dim, tau in [(1, 1), (2, 1), (3, 2), (2, 0), (1, 5), (4, 3),
                         (3, -1), (0, 1), (L, 1)]:
            for vn, v in (("c", ts), ("strided", ts2)):
                t = ("k-emb", rep, dim, tau, vn)
                rows = L - (dim - 1) * tau

                def run():
                    out = np.full((max(rows, 0), max(dim, 0)), -7.0,
                                  dtype="float32")
                    K._embed_time_series(L, dim, tau, v, out)
                    return out
                put(t, attempt(t + ("call",), run))
                if dim >= 1 and tau >= 1 and rows >= 1:
                    put(t + ("static",),
                        RecurrencePlot.embed_time_series(v, dim, tau))

                def run_short():
                    out = np.full((max(rows - 1, 0), max(dim, 1)), -7.0,
                                  dtype="float32")
                    K._embed_time_series(L, dim, tau, v, out)
                    return out
                attempt(t + ("short",), run_short)

                def run_long():
                    out = np.full((max(rows, 0), max(dim, 0)), -7.0,
                                  dtype="float32")
                    K._embed_time_series(L + 3, dim, tau, v, out)
                    return out
                attempt(t + ("long",), run_long)
        #  adaptive neighbourhood kernel
        n = int(rng.integers(3, 25))
        D = rng.random((n, n))
        D = D + D.T
        np.fill_diagonal(D, 0)
        sn = D.argsort(axis=1).astype("int32")
        for size in (0, 1, 2, n // 2, n - 2, n - 1, n, n + 2, -1):
            for oname, order in (
                    ("id", np.arange(n, dtype="int32")),
                    ("perm", rng.permutation(n).astype("int32")),
                    ("rep", rng.integers(0, n, size=n).astype("int32")),
                    ("oob", np.arange(1, n + 1, dtype="int32")),
                    ("negidx", np.arange(-1, n - 1, dtype="int32")),
                    ("short", np.arange(n - 1, dtype="int32"))):
                t = ("k-ada", rep, n, size, oname)
                rec = np.zeros((n, n), dtype="int8")
                attempt(t, lambda: K._set_adaptive_neighborhood_size(
                    n, size, sn, order, rec))
                put(t + ("rec",), rec)
        #  pre-filled recurrence matrix and unsorted / out-of-range
        #  neighbour tables
        rec = (rng.random((n, n)) < 0.3).astype("int8")
        attempt(("k-ada", rep, "prefilled"),
                lambda: K._set_adaptive_neighborhood_size(
                    n, 2, sn, np.arange(n, dtype="int32"), rec))
        put(("k-ada", rep, "prefilled", "rec"), rec)
        rec = np.zeros((n, n), dtype="int8")
        bad = sn.copy()
        bad[n // 2, 1] = n
        attempt(("k-ada", rep, "badtable"),
                lambda: K._set_adaptive_neighborhood_size(
                    n, 2, bad, np.arange(n, dtype="int32"), rec))
        put(("k-ada", rep, "badtable", "rec"), rec)
        rec = np.full((n, n), 2, dtype="int8")
        attempt(("k-ada", rep, "twos"),
                lambda: K._set_adaptive_neighborhood_size(
                    n, 2, sn, np.arange(n, dtype="int32"), rec))
        put(("k-ada", rep, "twos", "rec"), rec)


def main():
    rp_part()
    rp_sequences()
    messages()
    rn_part()
    crp_part()
    compositions()
    kernels()
    print("items", COUNT[0])
    print("outcomes", sorted(OUTCOMES.items()))
    print("digest", H.hexdigest())


if __name__ == "__main__":
    main()
