"""Equivalence digest for the cross-link set / rewire code paths."""
import hashlib
import io
import contextlib
import warnings

import numpy as np

from pyunicorn.core.interacting_networks import InteractingNetworks
from pyunicorn.core._ext.types import ADJ, NODE
from pyunicorn.core._ext import numerics as cy

warnings.simplefilter("ignore")
H = hashlib.sha256()
n_exc = 0


def feed(tag, obj):
    H.update(tag.encode())
    if isinstance(obj, (tuple, list)):
        for x in obj:
            feed(tag + ".", x)
    elif isinstance(obj, np.ndarray):
        H.update(str(obj.dtype).encode() + str(obj.shape).encode())
        H.update(np.ascontiguousarray(obj).tobytes())
    else:
        H.update(repr(obj).encode())


def run(tag, fn):
    global n_exc
    buf = io.StringIO()
    try:
        with contextlib.redirect_stdout(buf):
            res = fn()
        feed(tag, res)
    except Exception as e:  # pylint: disable=broad-except
        n_exc += 1
        feed(tag, (type(e).__name__, str(e)))
    feed(tag + ":out", buf.getvalue())


def random_net(N, p, seed, directed=False, weights=False, silence=2):
    rs = np.random.RandomState(seed)
    A = np.triu((rs.random_sample((N, N)) < p).astype(np.int8), 1)
    if directed:
        A = A + np.tril((rs.random_sample((N, N)) < p).astype(np.int8), -1)
    else:
        A = A + A.T
    w = rs.random_sample(N) + 0.5 if weights else None
    return InteractingNetworks(adjacency=A, directed=directed,
                               node_weights=w, silence_level=silence)


def describe(net, new, seed_tail=True):
    return (type(new).__name__, new.adjacency, new.directed,
            new.node_weights, new.silence_level, new.n_links, new.degree(),
            net.adjacency, net.n_links,
            np.random.random() if seed_tail else None)


def split(N, seed, overlap=False):
    rs = np.random.RandomState(seed + 77)
    perm = rs.permutation(N)
    n1 = N // 2
    l1, l2 = list(map(int, perm[:n1])), list(map(int, perm[n1:]))
    if overlap:
        l2 = l2 + l1[:2]
    return l1, l2


def set_case(method, N, p, seed, directed=False, weights=False,
             overlap=False, as_array=False, **kw):
    def fn():
        net = random_net(N, p, seed, directed, weights)
        l1, l2 = split(N, seed, overlap)
        if as_array:
            l1, l2 = np.array(l1), np.array(l2)
        np.random.seed(seed + 5)
        new = getattr(InteractingNetworks, method)(net, l1, l2, **kw)
        return describe(net, new) + (new.cross_adjacency(l1, l2),
                                     new.internal_adjacency(l1),
                                     new.internal_adjacency(l2))
    return fn


for method in ("RandomlySetCrossLinks", "RandomlySetCrossLinks_sparse"):
    for seed in (1, 2, 3):
        for N, p in ((8, 0.4), (15, 0.3), (24, 0.2)):
            t = f"{method}-{N}-{seed}"
            run(t + "-null", set_case(method, N, p, seed))
            run(t + "-dens", set_case(method, N, p, seed,
                                      cross_link_density=0.35))
            run(t + "-num", set_case(method, N, p, seed,
                                     number_cross_links=5))
            run(t + "-both", set_case(method, N, p, seed,
                                      cross_link_density=0.1,
                                      number_cross_links=9))
    run(method + "-zero", set_case(method, 10, 0.4, 4, number_cross_links=0))
    run(method + "-full", set_case(method, 10, 0.4, 4, number_cross_links=25))
    run(method + "-over", set_case(method, 10, 0.4, 4,
                                   number_cross_links=26))
    run(method + "-overd", set_case(method, 10, 0.4, 4,
                                    cross_link_density=1.5))
    run(method + "-negd", set_case(method, 10, 0.4, 4,
                                   cross_link_density=-0.5))
    run(method + "-dir", set_case(method, 12, 0.3, 5, directed=True,
                                  number_cross_links=7))
    run(method + "-w", set_case(method, 12, 0.3, 6, weights=True,
                                cross_link_density=0.5))
    run(method + "-ovl", set_case(method, 12, 0.3, 7, overlap=True,
                                  number_cross_links=10))
    run(method + "-arr", set_case(method, 12, 0.3, 8, as_array=True,
                                  number_cross_links=10))
    run(method + "-str", set_case(method, 12, 0.3, 8,
                                  number_cross_links="3"))
    run(method + "-fl", set_case(method, 12, 0.3, 8,
                                 number_cross_links=4.0))

    def bad_nodes(method=method):
        net = random_net(8, 0.5, 9)
        np.random.seed(0)
        return describe(net, getattr(InteractingNetworks, method)(
            net, [0, 1, 20], [2, 3], number_cross_links=2))
    run(method + "-badnodes", bad_nodes)

    def empty_nodes(method=method):
        net = random_net(8, 0.5, 9)
        np.random.seed(0)
        return describe(net, getattr(InteractingNetworks, method)(
            net, [], [2, 3], number_cross_links=0))
    run(method + "-empty", empty_nodes)


def rewire_case(N, p, seed, swaps, directed=False, weights=False,
                small=False):
    def fn():
        if small:
            net = InteractingNetworks.SmallTestNetwork()
            l1, l2 = [0, 3, 5], [1, 2, 4]
        else:
            net = random_net(N, p, seed, directed, weights)
            l1, l2 = split(N, seed)
        cd1 = net.cross_degree(l1, l2)
        np.random.seed(seed + 9)
        new = InteractingNetworks.RandomlyRewireCrossLinks(
            network=net, node_list1=l1, node_list2=l2, swaps=swaps)
        return describe(net, new) + (cd1, new.cross_degree(l1, l2),
                                     new.cross_degree(l2, l1),
                                     new.cross_adjacency(l1, l2),
                                     new.internal_adjacency(l1))
    return fn


for seed in range(6):
    run(f"rw-small-{seed}", rewire_case(0, 0, seed, 10., small=True))
for seed in (1, 2, 3):
    for N, p in ((12, 0.3), (20, 0.25), (30, 0.15)):
        for swaps in (0, 0.5, 3, 10.0):
            run(f"rw-{N}-{seed}-{swaps}", rewire_case(N, p, seed, swaps))
run("rw-dir", rewire_case(16, 0.3, 4, 2.0, directed=True))
run("rw-w", rewire_case(16, 0.3, 5, 2.0, weights=True))
run("rw-nolinks", rewire_case(10, 0.0, 5, 2.0))
run("rw-negswaps", rewire_case(12, 0.3, 5, -2.0))
run("rw-strswaps", rewire_case(12, 0.3, 5, "a"))


def bad_rewire():
    net = random_net(8, 0.5, 9)
    return describe(net, InteractingNetworks.RandomlyRewireCrossLinks(
        net, [0, 1, 20], [2, 3], 1.0))


run("rw-badnodes", bad_rewire)


# --- direct kernel calls ------------------------------------------------------
def k_set(seed, n_links, m_off=0, n_off=0, dtype=ADJ):
    def fn():
        net = random_net(14, 0.3, seed)
        l1, l2 = split(14, seed)
        nodes1, nodes2 = np.array(l1, dtype=NODE), np.array(l2, dtype=NODE)
        A = net.adjacency.astype(dtype)
        cross = np.zeros((len(l1), len(l2)), dtype=ADJ)
        np.random.seed(seed)
        ret = cy._randomlySetCrossLinks(A, cross, n_links, nodes1, nodes2,
                                        len(l1) + m_off, len(l2) + n_off)
        return ret, A, cross, nodes1, nodes2, np.random.random()
    return fn


def k_rewire(seed, swaps, extra=0):
    def fn():
        net = random_net(14, 0.3, seed)
        l1, l2 = split(14, seed)
        nodes1, nodes2 = np.array(l1, dtype=NODE), np.array(l2, dtype=NODE)
        A = net.adjacency.astype(ADJ)
        cross = net.cross_adjacency(l1, l2).astype(ADJ)
        links = np.array(cross.nonzero(), dtype=NODE).transpose()
        np.random.seed(seed)
        ret = cy._randomlyRewireCrossLinks(A, cross, links, nodes1, nodes2,
                                           int(cross.sum()) + extra, swaps)
        return ret, A, cross, links, np.random.random()
    return fn


for seed in (21, 22, 23):
    run(f"kset-{seed}", k_set(seed, 11))
    run(f"krw-{seed}", k_rewire(seed, 15))
run("kset-msmall", k_set(24, 6, m_off=-2, n_off=-3))
run("kset-mbig", k_set(24, 6, m_off=2))
run("kset-dtype", k_set(24, 6, dtype=np.int64))
run("krw-extra", k_rewire(25, 200, extra=4))
run("krw-zero", k_rewire(25, 0))
run("krw-neg", k_rewire(25, -3))

print(n_exc, H.hexdigest())
