"""Equivalence digest for the measures that accept a `link_attribute`
(Laplacian, path lengths, average path length, PageRank, closeness, global
efficiency, vulnerability), including the deprecated value "topological"."""
import hashlib
import io
import contextlib

import numpy as np

from pyunicorn.core.network import Network

h = hashlib.sha256()


def feed(tag, value):
    h.update(tag.encode())
    if isinstance(value, np.ndarray):
        h.update(str(value.dtype).encode())
        h.update(str(value.shape).encode())
        h.update(np.ascontiguousarray(value).tobytes())
    else:
        h.update(type(value).__name__.encode())
        h.update(repr(value).encode())


def attempt(tag, func, *args, **kwargs):
    out = io.StringIO()
    try:
        with contextlib.redirect_stdout(out), np.errstate(all="ignore"):
            res = func(*args, **kwargs)
        feed(tag, res)
    except Exception as exc:  # pylint: disable=broad-except
        feed(tag, "EXC:" + type(exc).__name__ + ":" + str(exc))
    # printed messages are part of the observable behaviour
    feed(tag + "/stdout", out.getvalue())


def adjacency(rng, N, p, directed):
    A = (rng.random((N, N)) < p).astype(int)
    if not directed:
        A = np.triu(A, 1)
        A = A + A.T
    np.fill_diagonal(A, 0)
    return A


class Weird:
    """Compares equal to everything, is not a string."""
    def __eq__(self, other):
        return True

    def __hash__(self):
        return 7

    def __repr__(self):
        return "Weird()"


rng = np.random.default_rng(31415926)
ATTRS = [None, "topological", "w", "topological", None, "missing", 5,
         np.array(["topological", "w"]), np.array(["topological"]), Weird(),
         b"topological", "Topological"]

for directed in (False, True):
    for N in (2, 3, 5, 8, 12):
        for p in (0.0, 0.25, 0.6, 1.0):
            for silence in (0, 1, 2):
                if silence == 0 and N > 5:
                    continue
                A = adjacency(rng, N, p, directed)
                net = Network(adjacency=A, directed=directed,
                              silence_level=silence)
                W = rng.random((N, N)) + 0.1
                if not directed:
                    W = (W + W.T) / 2
                if rng.random() < 0.3 and N > 2:
                    W[W < 0.4] = 0.0          # zero-length links
                net.set_link_attribute("w", W)
                tag = f"{directed},{N},{p},{silence}"
                for n, la in enumerate(ATTRS):
                    t = f"{tag},{n}"
                    attempt(t + "pl", net.path_lengths, la)
                    attempt(t + "plk", net.path_lengths, link_attribute=la)
                    attempt(t + "apl", net.average_path_length, la)
                    attempt(t + "cc", net.closeness, la)
                    attempt(t + "pr", net.pagerank, la)
                    attempt(t + "pru", net.pagerank, la, False)
                    attempt(t + "ge", net.global_efficiency, la)
                    attempt(t + "lap", net.laplacian, "out", la)
                    attempt(t + "lapin", net.laplacian, "in", la)
                    attempt(t + "lapx", net.laplacian, "sideways", la)
                    if N <= 8:
                        attempt(t + "lv", net.local_vulnerability, la)
                # cached matrices must be left as they were found
                attempt(tag + "pl-again", net.path_lengths)
                attempt(tag + "plw-again", net.path_lengths, "w")
                attempt(tag + "plt-again", net.path_lengths, "topological")
                # changing the attribute invalidates, then the same sequence
                net.set_link_attribute("w", 2 * W)
                attempt(tag + "cc2", net.closeness, "w")
                attempt(tag + "cc2t", net.closeness, "topological")
                attempt(tag + "apl2", net.average_path_length, "w")
                attempt(tag + "ge2", net.global_efficiency, "topological")
                attempt(tag + "ge2w", net.global_efficiency, "w")
                feed(tag + "state", (net._mut_la, net._mut_nw))

print(h.hexdigest())
