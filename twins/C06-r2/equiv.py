"""Equivalence digest for twin_2 (interacting_networks.py: general average
path length / general closeness with temporary edits of the path lengths)."""
import hashlib
import io
import contextlib
import warnings

import numpy as np

from pyunicorn.core.interacting_networks import InteractingNetworks

warnings.simplefilter("ignore")
H = hashlib.sha256()


def feed(tag, value):
    H.update(tag.encode())
    if isinstance(value, np.ndarray):
        H.update(str(value.dtype).encode())
        H.update(repr(value.shape).encode())
        if value.dtype == object:
            H.update(repr(value.tolist()).encode())
        else:
            H.update(np.ascontiguousarray(value).tobytes())
    else:
        H.update(repr(value).encode())


def attempt(tag, f, *args, **kwargs):
    try:
        res = f(*args, **kwargs)
    except Exception as e:  # pylint: disable=broad-except
        feed(tag, "EXC:" + type(e).__name__)
        return
    if isinstance(res, np.ndarray):
        feed(tag, res)
    else:
        feed(tag, float(res).hex())


def make(n, p, seed, directed=False):
    rng = np.random.RandomState(seed)
    A = (rng.rand(n, n) < p).astype(int)
    if not directed:
        A = np.triu(A, 1)
        A = A + A.T
    else:
        np.fill_diagonal(A, 0)
    net = InteractingNetworks(adjacency=A, directed=directed,
                              silence_level=2)
    W = rng.rand(n, n) * 3
    W[rng.rand(n, n) < 0.05] = 0
    if not directed:
        W = np.minimum(W, W.T)
    net.set_link_attribute("w", W)
    net.set_link_attribute("iw", np.rint(W * 3 + 1))
    perm = rng.permutation(n)
    k = max(1, n // 3)
    return net, [int(i) for i in perm[:k]], [int(i) for i in perm[k:]]


out = io.StringIO()
with contextlib.redirect_stdout(out):
    cases = [(3, 0.9, 0), (2, 0.0, 1), (2, 1.0, 2), (5, 0.2, 3), (6, 0.5, 4),
             (9, 0.15, 5), (12, 0.3, 6), (20, 0.08, 7), (20, 0.5, 8),
             (33, 0.05, 9)]
    for directed in (False, True):
        for (n, p, seed) in cases:
            net, l1, l2 = make(n, p, seed, directed)
            for la in (None, "w", "iw", "missing"):
                for rep in range(2):
                    t = f"{n}/{seed}/{la}/{rep}"
                    attempt(t + "capl", net.cross_average_path_length,
                            l1, l2, la)
                    attempt(t + "capl'", net.cross_average_path_length,
                            l2, l1, la)
                    attempt(t + "iapl1", net.internal_average_path_length,
                            l1, la)
                    attempt(t + "iapl2", net.internal_average_path_length,
                            l2, la)
                    attempt(t + "cc", net.cross_closeness, l1, l2, la)
                    attempt(t + "cc'", net.cross_closeness, l2, l1, la)
                    attempt(t + "ic1", net.internal_closeness, l1, la)
                    attempt(t + "ic2", net.internal_closeness, l2, la)
                    attempt(t + "pl", net.path_lengths, la)
                    attempt(t + "apl", net.average_path_length, la)
                    attempt(t + "clo", net.closeness, la)
            attempt("gcc", net.average_cross_closeness, l1, l2)
            attempt("ge", net.global_efficiency, l1, l2)
            attempt("le", net.local_efficiency, l1, l2)

    #  direct calls on arrays owned by the caller
    net = InteractingNetworks.SmallTestNetwork()
    rng = np.random.RandomState(42)
    arrays = []
    for shape in ((1, 1), (1, 4), (4, 1), (3, 3), (5, 7), (7, 5), (6, 6)):
        a = rng.rand(*shape) * 4
        a[rng.rand(*shape) < 0.3] = np.inf
        arrays.append(a)
        b = a.copy()
        b[rng.rand(*shape) < 0.2] = 0
        arrays.append(b)
        c = a.copy()
        c[rng.rand(*shape) < 0.2] = np.nan
        arrays.append(c)
        d = a.copy()
        d[rng.rand(*shape) < 0.2] = -np.inf
        arrays.append(d)
        arrays.append(np.full(shape, np.inf))
        arrays.append(np.zeros(shape))
        arrays.append(rng.randint(0, 4, size=shape))
        arrays.append((rng.rand(*shape) * 3).astype("float32"))
        arrays.append(np.asfortranarray(a.copy()))
        arrays.append(a.copy().T)
        arrays.append(a.astype(complex))
    arrays += [np.zeros((0, 0)), np.zeros((0, 3)), np.zeros((3, 0)),
               np.arange(4.), np.zeros((2, 2, 2)), np.array(1.0),
               np.array([["a", "b"], ["c", "d"]]),
               np.array([[1, None], [2, 3]], dtype=object)]
    for trap in (False, True):
        for a0 in arrays:
            for internal in (False, True, 0, 1, 2, None, "x", ""):
                a = a0.copy(order="K")
                with np.errstate(all="raise" if trap else "ignore"):
                    attempt(f"dapl{trap}{internal!r}",
                            net._calculate_general_average_path_length,
                            a, internal=internal)
                feed("after", a)
                a = a0.copy(order="K")
                with np.errstate(all="raise" if trap else "ignore"):
                    attempt(f"dclo{trap}{internal!r}",
                            net._calculate_general_closeness,
                            a, internal=internal)
                feed("after", a)
    #  lists instead of arrays, defaults
    attempt("list", net._calculate_general_average_path_length,
            [[0., 1.], [1., 0.]])
    attempt("list", net._calculate_general_closeness, [[0., 1.], [1., 0.]])
    a = arrays[3].copy()
    attempt("default", net._calculate_general_average_path_length, a)
    attempt("default", net._calculate_general_closeness, a)
    attempt("static", InteractingNetworks.
            _calculate_general_average_path_length, a, True)
    feed("after", a)

feed("stdout", out.getvalue())
print(H.hexdigest())
