"""Equivalence digest for twin_1: Network.average_path_length / closeness /
global_efficiency (temporary in-place edits of the cached path lengths)."""
import hashlib
import io
import contextlib
import warnings

import numpy as np

from pyunicorn.core.network import Network

warnings.simplefilter("ignore")
H = hashlib.sha256()


def feed(tag, value):
    H.update(tag.encode())
    if isinstance(value, BaseException):
        H.update(("EXC:" + type(value).__name__).encode())
        return
    a = np.asarray(value)
    H.update(str(a.dtype).encode())
    H.update(str(a.shape).encode())
    H.update(np.ascontiguousarray(a).tobytes())


def call(tag, f, *args, **kwargs):
    out = io.StringIO()
    try:
        with contextlib.redirect_stdout(out):
            res = f(*args, **kwargs)
    except Exception as e:  # pylint: disable=broad-except
        res = e
    feed(tag, res)
    H.update(out.getvalue().encode())
    return res


def random_net(rng, N, p, directed, blocks, silence):
    A = (rng.random((N, N)) < p).astype(int)
    if blocks > 1:
        #  disconnect into blocks => infinite path lengths
        lab = rng.integers(0, blocks, N)
        A *= (lab[:, None] == lab[None, :])
    np.fill_diagonal(A, 0)
    if not directed:
        A = np.triu(A, 1)
        A = A + A.T
    net = Network(adjacency=A, directed=directed, silence_level=silence)
    W = rng.random((N, N)) * 3 + 0.1
    if not directed:
        W = np.triu(W, 1)
        W = W + W.T
    #  some zero-length links ("polar nodes")
    Z = W.copy()
    Z[rng.integers(0, N, 3), :] = 0
    Z[:, rng.integers(0, N, 3)] = 0
    if not directed:
        Z = np.minimum(Z, Z.T)
    net.set_link_attribute("w", W)
    net.set_link_attribute("z", Z)
    net.set_link_attribute("i", np.ones((N, N), dtype=int))
    return net


def exercise(tag, net):
    attrs = [None, "w", "z", "i", "topological", "missing"]
    orders = [("apl", "clo", "eff"), ("eff", "clo", "apl"),
              ("clo", "eff", "apl", "apl", "eff", "clo")]
    for o, order in enumerate(orders):
        for la in attrs:
            t = f"{tag}/{o}/{la}"
            call(t + "/pl0", net.path_lengths, la)
            for m in order:
                f = {"apl": net.average_path_length,
                     "clo": net.closeness,
                     "eff": net.global_efficiency}[m]
                call(t + "/" + m, f, la)
                #  cached path lengths must be back to their original state
                call(t + "/pl", net.path_lengths, la)
        net.cache_clear()


rng = np.random.default_rng(20240606)
k = 0
for N in (2, 3, 5, 8, 13, 30):
    for p in (0.0, 0.15, 0.5, 1.0):
        for directed in (False, True):
            for blocks in (1, 3):
                k += 1
                net = random_net(rng, N, p, directed, blocks,
                                 silence=2 if k % 5 else 0)
                exercise(f"n{k}", net)

#  documented examples
net = Network.SmallTestNetwork()
net.silence_level = 0
exercise("small", net)
net = Network.SmallDirectedTestNetwork()
exercise("smalldir", net)

#  floating point error state set to raise: failures must leave the same
#  state behind
with np.errstate(all="raise"):
    for N in (2, 6):
        for p in (0.0, 0.4):
            k += 1
            net = random_net(rng, N, p, False, 2, silence=2)
            exercise(f"raise{k}", net)

print(H.hexdigest())
