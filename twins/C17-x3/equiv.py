"""Digest of the cross-link generators of InteractingNetworks."""
import contextlib
import hashlib
import io
import warnings

import numpy as np
from scipy import sparse as sp

from pyunicorn.core.interacting_networks import InteractingNetworks

warnings.simplefilter("ignore")
H = hashlib.sha256()


def feed(*items):
    for x in items:
        if sp.issparse(x):
            H.update(type(x).__name__.encode())
            x = x.toarray()
        if isinstance(x, np.ndarray):
            H.update(str(x.dtype).encode())
            H.update(str(x.shape).encode())
            H.update(np.ascontiguousarray(x).tobytes())
        else:
            H.update(repr(x).encode())
        H.update(b"|")


def attempt(fun, *args, **kwargs):
    out = io.StringIO()
    try:
        with contextlib.redirect_stdout(out):
            res = fun(*args, **kwargs)
        return res, "ok", out.getvalue()
    except BaseException as e:  # pylint: disable=broad-except
        return None, "EXC:" + type(e).__name__, out.getvalue()


def describe(net, base, l1, l2):
    feed(type(net).__name__, net.adjacency, net.sp_A.dtype, net.directed,
         net.silence_level, net.n_links, net.N, net.degree())
    nw = net.node_weights
    feed(nw, nw is base.node_weights)
    feed(net.cross_degree(l1, l2), net.cross_degree(l2, l1),
         net.internal_adjacency(l1), net.internal_adjacency(l2))


def random_net(rs, N, p, directed=False, weights=False, silence_level=2):
    U = rs.random_sample((N, N)) < p
    if directed:
        A = (U & ~np.eye(N, dtype=bool)).astype(int)
    else:
        A = np.triu(U, 1)
        A = (A + A.T).astype(int)
    w = rs.random_sample(N) + 0.5 if weights else None
    return InteractingNetworks(A, directed=directed, node_weights=w,
                               silence_level=silence_level)


rs = np.random.RandomState(4242)
nets = [(InteractingNetworks.SmallTestNetwork(), [0, 3, 5], [1, 2, 4]),
        (InteractingNetworks.SmallTestNetwork(), [0, 5], [1, 2, 3, 4]),
        (random_net(rs, 14, 0.4, weights=True), list(range(0, 6)),
         list(range(6, 14))),
        (random_net(rs, 20, 0.3, silence_level=0), [1, 3, 5, 7, 9, 11, 13],
         [0, 2, 4, 6, 8]),
        (random_net(rs, 12, 0.5, directed=True, weights=True),
         [0, 1, 2, 3], [8, 9, 10, 11]),
        (random_net(rs, 9, 0.0), [0, 1, 2], [3, 4, 5, 6])]

set_kwargs = [{}, {"cross_link_density": 0.5}, {"cross_link_density": 0.0},
              {"cross_link_density": 1.0}, {"number_cross_links": 3},
              {"number_cross_links": 0},
              {"number_cross_links": 10 ** 6},
              {"cross_link_density": 0.25, "number_cross_links": 2},
              {"cross_link_density": 1.5},
              {"number_cross_links": "many"},
              {"cross_link_density": "dense"},
              {"number_cross_links": 2.0}]

for n, (net, l1, l2) in enumerate(nets):
    for kw in set_kwargs:
        # a count above the maximum falls back to the initial count, which
        # never terminates only if that is itself too large: not the case
        for seed in (0, 31):
            for fun in (InteractingNetworks.RandomlySetCrossLinks,
                        InteractingNetworks.RandomlySetCrossLinks_sparse):
                np.random.seed(seed)
                res, status, text = attempt(fun, net, l1, l2, **kw)
                feed(n, sorted(kw.items()), seed, fun.__name__, status, text)
                if res is not None:
                    describe(res, net, l1, l2)
                feed(np.random.random_sample(2), net.adjacency)
    for swaps in (0, 0.5, 1, 3.0, 10):
        for seed in (2, 77):
            # rewiring needs at least two swappable cross links
            np.random.seed(seed)
            cross = net.cross_adjacency(l1, l2)
            links = np.transpose(cross.nonzero())
            swappable = any(not (cross[a, d] or cross[c, b])
                            for a, b in links for c, d in links)
            if swaps and not swappable:
                continue
            res, status, text = attempt(
                InteractingNetworks.RandomlyRewireCrossLinks, net, l1, l2,
                swaps)
            feed(n, swaps, seed, status, text)
            if res is not None:
                describe(res, net, l1, l2)
            feed(np.random.random_sample(2), net.adjacency)

# argument errors
net, l1, l2 = nets[0]
for args in ((net, [0, 9], [1, 2]), (net, [], [1, 2]), (None, [0], [1]),
             (net, [0, 3], [[1], [2]])):
    for fun in (InteractingNetworks.RandomlySetCrossLinks,
                InteractingNetworks.RandomlySetCrossLinks_sparse):
        np.random.seed(1)
        res, status, text = attempt(fun, *args, number_cross_links=1)
        feed(fun.__name__, status, text, np.random.random_sample(1))
    np.random.seed(1)
    res, status, text = attempt(InteractingNetworks.RandomlyRewireCrossLinks,
                                *args, 0)
    feed(status, text)
res, status, text = attempt(InteractingNetworks.RandomlyRewireCrossLinks,
                            net, l1, l2, "x")
feed(status, text)

print(H.hexdigest())
