"""Equivalence digest for ClimateNetwork thresholding / link-density code."""
import contextlib
import hashlib
import io
import warnings

import numpy as np

from pyunicorn.core import GeoGrid
from pyunicorn.climate.climate_network import ClimateNetwork

warnings.simplefilter("ignore")
H = hashlib.sha256()


def put(tag, obj):
    H.update(tag.encode())
    if isinstance(obj, np.ndarray):
        H.update(str(obj.dtype).encode())
        H.update(str(obj.shape).encode())
        H.update(np.ascontiguousarray(obj).tobytes())
    else:
        H.update(repr(type(obj)).encode())
        H.update(repr(obj).encode())


def attempt(tag, fn):
    buf = io.StringIO()
    try:
        with contextlib.redirect_stdout(buf):
            res = fn()
        put(tag, res if res is not None else "None")
    except Exception as e:  # pylint: disable=broad-except
        put(tag + ":exc", type(e).__name__ + ":" + str(e)[:80])
    put(tag + ":out", buf.getvalue())


def state(tag, net):
    put(tag + ":A", net.adjacency)
    put(tag + ":thr", net.threshold())
    put(tag + ":_thr", net._threshold)
    put(tag + ":ld", float(net.link_density))
    put(tag + ":nl", int(net.n_links))
    put(tag + ":nonloc", net.non_local())
    put(tag + ":dir", net.directed)
    put(tag + ":sim", net.similarity_measure())
    put(tag + ":mut", (net._mut_clim, net._mut_la, net._mut_nw))
    put(tag + ":str", str(net))


def make_grid(rng, N):
    lat = rng.uniform(-90, 90, N)
    lon = rng.uniform(-180, 180, N)
    return GeoGrid(np.arange(5.), lat, lon, silence_level=2)


def make_sim(rng, N, kind):
    x = rng.uniform(-1, 1, (N, N))
    if kind == "sym":
        x = (x + x.T) / 2
    elif kind == "ties":
        x = np.round((x + x.T) / 2, 1)
    elif kind == "asym":
        pass
    elif kind == "nan":
        x = (x + x.T) / 2
        x[rng.integers(0, N, 3), rng.integers(0, N, 3)] = np.nan
    elif kind == "const":
        x = np.full((N, N), 0.5)
    elif kind == "int":
        x = rng.integers(-3, 4, (N, N))
    elif kind == "f32":
        x = x.astype("float32")
    return x


rng = np.random.default_rng(20260904)
THRS = [0.0, 0.3, np.float32(0.45), np.float64(0.7), 1, -0.1, 2.5, True,
        np.float32(0.1) * 5]
LDS = [0.0, 0.05, 0.1, 0.33, 0.5, 0.77, 1.0, np.float32(0.25), 1.5, 1]

case = 0
for N in (1, 2, 3, 7, 12, 25):
    for kind in ("sym", "ties", "asym", "nan", "const", "int", "f32"):
        grid = make_grid(rng, N)
        sim = make_sim(rng, N, kind)
        sim_before = sim.copy()
        for non_local in (False, True):
            for directed in (False, True):
                case += 1
                sl = case % 3
                tag = f"c{case}"
                thr = THRS[case % len(THRS)]
                ld = LDS[case % len(LDS)]
                holder = {}

                def build_t():
                    holder["t"] = ClimateNetwork(
                        grid, sim, threshold=thr, non_local=non_local,
                        directed=directed, silence_level=sl)
                    return holder["t"].adjacency

                def build_d():
                    holder["d"] = ClimateNetwork(
                        grid, sim, link_density=ld, non_local=non_local,
                        directed=directed, silence_level=sl,
                        node_weight_type=None)
                    return holder["d"].adjacency

                attempt(tag + ":bt", build_t)
                attempt(tag + ":bd", build_d)
                for key in ("t", "d"):
                    net = holder.get(key)
                    if net is None:
                        continue
                    attempt(f"{tag}{key}:st0", lambda n=net: state("s", n))
                    for k, t2 in enumerate(THRS[:5]):
                        attempt(f"{tag}{key}:tfl{k}",
                                lambda n=net, q=LDS[(k + case) % len(LDS)]:
                                n.threshold_from_link_density(q))
                    attempt(f"{tag}{key}:sld",
                            lambda n=net: n.set_link_density(
                                LDS[(case + 3) % len(LDS)]))
                    attempt(f"{tag}{key}:st1", lambda n=net: state("s", n))
                    attempt(f"{tag}{key}:snl",
                            lambda n=net: n.set_non_local(not n.non_local()))
                    attempt(f"{tag}{key}:st2", lambda n=net: state("s", n))
                    attempt(f"{tag}{key}:sth",
                            lambda n=net: n.set_threshold(
                                THRS[(case + 2) % len(THRS)]))
                    attempt(f"{tag}{key}:st3", lambda n=net: state("s", n))
                    attempt(f"{tag}{key}:snl2",
                            lambda n=net: n.set_non_local(n.non_local()))
                    attempt(f"{tag}{key}:regen",
                            lambda n=net: n._regenerate_network())
                    attempt(f"{tag}{key}:st4", lambda n=net: state("s", n))
                    attempt(f"{tag}{key}:ldf",
                            lambda n=net: n.link_density_function(4))
                    # direct calls of the private helpers
                    w = rng.uniform(0, 1, (N, N))
                    attempt(f"{tag}{key}:cta",
                            lambda n=net: n._calculate_threshold_adjacency(
                                w, 0.4))
                    attempt(f"{tag}{key}:cnl",
                            lambda n=net: n._calculate_non_local_adjacency(
                                w, 0.2, a=30, d_min=0.2))
                    attempt(f"{tag}{key}:cnl2",
                            lambda n=net: n._calculate_non_local_adjacency(
                                similarity_measure=w.astype("float32"),
                                threshold=np.float32(0.2), d_min=0.5))
                    put(f"{tag}{key}:w", w)
                put(tag + ":simuntouched", bool(
                    np.array_equal(sim, sim_before, equal_nan=True)))

# error behaviour and odd inputs
net = ClimateNetwork.SmallTestNetwork()
for i, bad in enumerate(["0.5", None, -0.2, 2.0, 7, np.nan, [0.5],
                         np.array([0.2, 0.4]), 1 + 1j]):
    attempt(f"bad_ld{i}", lambda: net.threshold_from_link_density(bad))
    attempt(f"bad_sld{i}", lambda: net.set_link_density(bad))
    attempt(f"bad_ld_state{i}", lambda: state("s", net))
net = ClimateNetwork.SmallTestNetwork()
for i, bad in enumerate(["0.5", None, np.nan, [0.5], 1j,
                         np.array([0.2, 0.4, 0.6, 0.1, 0.2, 0.9]),
                         np.full((6, 6), 0.35)]):
    attempt(f"bad_thr{i}", lambda: net.set_threshold(bad))
    attempt(f"bad_thr_nl{i}", lambda: net._calculate_non_local_adjacency(
        net.similarity_measure(), bad))
    attempt(f"bad_thr_state{i}", lambda: (put("a", net.adjacency),
                                          put("t", repr(net._threshold))))
net = ClimateNetwork.SmallTestNetwork()
for i, badsim in enumerate([np.ones((6, 5)), np.ones((5, 6)), np.ones(6),
                            np.ones((6, 6, 2)), np.ones((4, 4)),
                            np.arange(36).reshape(6, 6), np.ones((0, 0)),
                            [[1, 2], [3, 4]], np.float64(3.0),
                            np.arange(6.) / 5]):
    attempt(f"bad_sim_t{i}",
            lambda: net._calculate_threshold_adjacency(badsim, 0.5))
    attempt(f"bad_sim_n{i}",
            lambda: net._calculate_non_local_adjacency(badsim, 0.5))
net.silence_level = 0
attempt("del0", lambda: state("s", net))
del net._similarity_measure
attempt("del1", lambda: net.set_threshold(0.3))
attempt("del2", lambda: net.set_link_density(0.3))
attempt("del3", lambda: net.set_non_local(True))
attempt("del4", lambda: (put("a", net.adjacency), put("t", net._threshold),
                         put("n", net._non_local)))
attempt("nothing", lambda: ClimateNetwork(GeoGrid.SmallTestGrid(),
                                          np.ones((6, 6))))
attempt("badshape", lambda: ClimateNetwork(GeoGrid.SmallTestGrid(),
                                           np.ones((5, 5)), threshold=0.1))
attempt("badshape2", lambda: ClimateNetwork(GeoGrid.SmallTestGrid(),
                                            np.ones((6, 5)), link_density=.1))

# subclass consumers of the mechanism
from pyunicorn.climate import ClimateData, TsonisClimateNetwork  # noqa
data = ClimateData.SmallTestData()
for ld in (0.2, 0.5):
    attempt(f"tsonis{ld}", lambda: TsonisClimateNetwork(
        data, link_density=ld, winter_only=False,
        silence_level=2).adjacency)
def tsonis_cycle():
    tn = TsonisClimateNetwork(data, threshold=0.3, winter_only=False,
                              silence_level=2)
    state("ts0", tn)
    tn.set_link_density(0.4)
    state("ts1", tn)
    tn.set_non_local(True)
    state("ts2", tn)
    tn.set_winter_only(False)
    state("ts3", tn)


attempt("tsonis_cycle", tsonis_cycle)
attempt("tsonis_nl", lambda: TsonisClimateNetwork(
    data, threshold=0.4, non_local=True, winter_only=False,
    silence_level=1).adjacency)

print(H.hexdigest())
