"""
Equivalence digest for twin_2 (local motif clustering coefficients, plain and
n.s.i., of core/network.py).

Run as:  PYTHONPATH=<worktree>/src /venv/bin/python equiv.py
"""
import hashlib
import io
from contextlib import redirect_stdout

import numpy as np

from pyunicorn.core.network import Network

H = hashlib.sha256()
np.seterr(all="ignore")

PLAIN = ["local_cyclemotif_clustering", "local_midmotif_clustering",
         "local_inmotif_clustering", "local_outmotif_clustering"]
NSI = ["nsi_" + name for name in PLAIN]
DEGREES = ["indegree", "outdegree", "bildegree", "nsi_indegree",
           "nsi_outdegree", "nsi_bildegree"]


def feed(tag, obj):
    H.update(tag.encode())
    if isinstance(obj, np.ndarray):
        H.update(str(obj.dtype).encode())
        H.update(str(obj.shape).encode())
        H.update(np.ascontiguousarray(obj).tobytes())
    else:
        H.update(repr(obj).encode())


def attempt(tag, func, *args, **kwargs):
    try:
        feed(tag, func(*args, **kwargs))
    except Exception as exc:  # pylint: disable=broad-except
        feed(tag, "EXC:" + type(exc).__name__ + ":" + str(exc))


def cache_state(tag):
    for name in PLAIN + NSI + DEGREES:
        info = getattr(Network, name).cache_info()
        feed(f"{tag}/cache/{name}", tuple(info))


def exercise(tag, net, keys):
    for key in keys:
        for name in PLAIN:
            attempt(f"{tag}/{name}/{key}", getattr(net, name), key=key)
            attempt(f"{tag}/{name}/{key}/pos", getattr(net, name), key)
        for name in NSI:
            for tw in (None, 1.0, 0.37, 2.5):
                attempt(f"{tag}/{name}/{key}/{tw}", getattr(net, name),
                        key=key, typical_weight=tw)
            attempt(f"{tag}/{name}/{key}/pos", getattr(net, name), key, 1.5)
    for name in PLAIN + NSI:
        attempt(f"{tag}/{name}/default", getattr(net, name))
        attempt(f"{tag}/{name}/again", getattr(net, name))
    cache_state(tag)


rng = np.random.default_rng(987654321)
out = io.StringIO()
with redirect_stdout(out):
    for directed in (True, False):
        for n, p in [(2, 1.0), (3, 0.6), (5, 0.0), (6, 0.5), (11, 0.3),
                     (17, 0.6), (30, 0.15), (12, 1.0)]:
            A = (rng.random((n, n)) < p).astype(np.int8)
            np.fill_diagonal(A, 0)
            if not directed:
                A = np.triu(A, 1)
                A = A + A.T
            weights = [None, rng.random(n) + 0.25, np.ones(n)]
            for wi, w in enumerate(weights):
                net = Network(adjacency=A, directed=directed, node_weights=w,
                              silence_level=wi)
                link_w = rng.random((n, n)) * 3
                if not directed:
                    link_w = link_w + link_w.T
                net.set_link_attribute("lw", link_w)
                exercise(f"{directed}/{n}/{p}/{wi}", net,
                         [None, "lw", "missing"])
                # mutate weights / attributes and look again
                net.node_weights = rng.random(n) + 0.5
                net.set_link_attribute("lw", link_w**2)
                exercise(f"{directed}/{n}/{p}/{wi}/mut", net, [None, "lw"])

    for make in (Network.SmallTestNetwork, Network.SmallDirectedTestNetwork):
        net = make()
        exercise(make.__name__, net, [None])
        exercise(make.__name__ + "/split", net.splitted_copy(node=1), [None])

        # the shared private helper, called the way the methods call it and
        # with positional arguments
        def t_func(x, xT):
            return x * xT * x
        T = net.indegree() * net.outdegree() - net.bildegree()
        attempt("helper/plain", net._motif_clustering_helper, t_func, T)
        attempt("helper/T-unchanged", lambda: T.copy())
        attempt("helper/plain/tw", net._motif_clustering_helper, t_func, T,
                None, False, 1.3, T * 2)
        attempt("helper/nsi/pos", net._motif_clustering_helper, t_func,
                T.astype(float), None, True, 0.8, T * 0.5)
        attempt("helper/nsi/kw", net._motif_clustering_helper, t_func, T,
                nsi=True)
        attempt("helper/zero-T", net._motif_clustering_helper, t_func,
                np.zeros(net.N, dtype=int), nsi=True)
        attempt("helper/no-ksum", net._motif_clustering_helper, t_func, T,
                nsi=True, typical_weight=2.0)
        attempt("helper/bad-t_func", net._motif_clustering_helper, None, T)
        attempt("helper/bad-T", net._motif_clustering_helper, t_func, None)
        attempt("helper/bad-key", net._motif_clustering_helper, t_func, T,
                key="nope", nsi=True)
        cache_state(make.__name__ + "/helper")

feed("stdout", out.getvalue())
print(H.hexdigest())
