"""Digest of RecurrencePlot's thresholding methods (fixed threshold, std
threshold, global / local recurrence rate, adaptive neighbourhood) incl.
missing values, repeated calls on one object, subclass dispatch and errors."""
import hashlib
import io
import contextlib

import numpy as np

from pyunicorn.timeseries import RecurrencePlot, RecurrenceNetwork, \
    CrossRecurrencePlot, JointRecurrencePlot

H = hashlib.sha256()


def put(tag, obj):
    H.update(tag.encode())
    if isinstance(obj, np.ndarray):
        H.update(str(obj.dtype).encode())
        H.update(str(obj.shape).encode())
        H.update(np.ascontiguousarray(obj).tobytes())
    else:
        H.update(repr(obj).encode())


def attempt(tag, fn):
    out = io.StringIO()
    try:
        with contextlib.redirect_stdout(out):
            res = fn()
        put(tag, res)
    except Exception as e:  # pylint: disable=broad-except
        put(tag, "EXC:" + type(e).__name__ + ":" + str(e))
    put(tag + "/stdout", out.getvalue())


def state(tag, rp):
    put(tag + "/R", rp.R)
    put(tag + "/meta", (rp.N, rp._mut_R, rp._mut_embedding,
                        None if rp.R is None else rp.R.flags.writeable,
                        None if rp.R is None else rp.R.flags.owndata))


rng = np.random.RandomState(7077)


def series(n, d, nan=False, ties=False):
    x = rng.standard_normal((n, d))
    if ties:
        x = np.round(x)
    if nan:
        idx = rng.choice(n, size=max(1, n // 6), replace=False)
        x[idx, rng.randint(0, d, size=idx.size)] = np.nan
    return x


class OddRP(RecurrencePlot):
    """Subclass that overrides the hooks reachable through ``self``."""
    @staticmethod
    def threshold_from_recurrence_rate(distance, recurrence_rate):
        return 2 * RecurrencePlot.threshold_from_recurrence_rate(
            distance, recurrence_rate)

    def distance_matrix(self, metric):
        return RecurrencePlot.distance_matrix(self, metric) + 100.


for metric in ("manhattan", "euclidean", "supremum"):
    for (n, d) in ((1, 1), (2, 2), (9, 1), (25, 3)):
        for nan in (False, True):
            for ties in (False, True):
                x = series(n, d, nan, ties)
                tag = f"{metric},{n},{d},{nan},{ties}"
                for cls in (RecurrencePlot, OddRP):
                    for sl in (0, 2):
                        attempt(tag + "ctor", lambda: cls(
                            x, metric=metric, threshold=0.7, silence_level=sl,
                            missing_values=nan).R)
                    try:
                        with contextlib.redirect_stdout(io.StringIO()):
                            rp = cls(x, metric=metric, threshold=0.7,
                                     silence_level=2, missing_values=nan)
                    except Exception as e:  # pylint: disable=broad-except
                        put(tag + "ctorfail", type(e).__name__)
                        continue
                    state(tag + "init", rp)
                    calls = [
                        ("thr0", lambda: rp.set_fixed_threshold(0.0)),
                        ("thr1", lambda: rp.set_fixed_threshold(1.3)),
                        ("thrneg", lambda: rp.set_fixed_threshold(-1)),
                        ("thrinf", lambda: rp.set_fixed_threshold(np.inf)),
                        ("thrnan", lambda: rp.set_fixed_threshold(np.nan)),
                        ("thrnone", lambda: rp.set_fixed_threshold(None)),
                        ("thrstr", lambda: rp.set_fixed_threshold("a")),
                        ("thrrow", lambda: rp.set_fixed_threshold(
                            np.linspace(0, 2, n))),
                        ("thrcol", lambda: rp.set_fixed_threshold(
                            np.linspace(0, 2, n)[:, None])),
                        ("thr3d", lambda: rp.set_fixed_threshold(
                            np.ones((1, n, n)))),
                        ("thrbad", lambda: rp.set_fixed_threshold(
                            np.ones(n + 2))),
                        ("std", lambda: rp.set_fixed_threshold_std(0.4)),
                        ("stdnone", lambda: rp.set_fixed_threshold_std(None)),
                        ("rr0", lambda: rp.set_fixed_recurrence_rate(0.0)),
                        ("rr.3", lambda: rp.set_fixed_recurrence_rate(0.3)),
                        ("rr1", lambda: rp.set_fixed_recurrence_rate(1)),
                        ("rr1.5", lambda: rp.set_fixed_recurrence_rate(1.5)),
                        ("rrneg", lambda: rp.set_fixed_recurrence_rate(-.1)),
                        ("rrnone", lambda: rp.set_fixed_recurrence_rate(None)),
                        ("lrr0", lambda:
                         rp.set_fixed_local_recurrence_rate(0.0)),
                        ("lrr.3", lambda:
                         rp.set_fixed_local_recurrence_rate(0.3)),
                        ("lrr1", lambda:
                         rp.set_fixed_local_recurrence_rate(1.0)),
                        ("lrr2", lambda:
                         rp.set_fixed_local_recurrence_rate(2.0)),
                        ("lrrnone", lambda:
                         rp.set_fixed_local_recurrence_rate(None)),
                        ("ad0", lambda:
                         rp.set_adaptive_neighborhood_size(0)),
                        ("ad2", lambda:
                         rp.set_adaptive_neighborhood_size(2)),
                        ("ad2o", lambda:
                         rp.set_adaptive_neighborhood_size(
                             2, order=np.arange(n)[::-1])),
                        ("ad2of", lambda:
                         rp.set_adaptive_neighborhood_size(
                             2, order=np.arange(n, dtype=float))),
                        ("ad2ol", lambda:
                         rp.set_adaptive_neighborhood_size(
                             1, order=list(range(n)))),
                        ("adbig", lambda:
                         rp.set_adaptive_neighborhood_size(n + 3)),
                        ("adnone", lambda:
                         rp.set_adaptive_neighborhood_size(None)),
                    ]
                    for name, fn in calls:
                        before = rp.R
                        attempt(tag + name, fn)
                        state(tag + name, rp)
                        put(tag + name + "/fresh", rp.R is before)
                        # the stored matrix must not alias the cached
                        # distance matrix or an earlier result
                        if rp.R is not None and before is not None:
                            put(tag + name + "/share",
                                np.shares_memory(rp.R, before))
                    # RQA on top of the last matrix still works
                    attempt(tag + "rqa", lambda: (
                        rp.recurrence_rate(), rp.determinism(),
                        rp.laminarity()))
                    # verbose path
                    rp.silence_level = 0
                    attempt(tag + "v1", lambda: rp.set_fixed_threshold(0.5))
                    attempt(tag + "v2",
                            lambda: rp.set_fixed_recurrence_rate(0.5))
                    attempt(tag + "v3",
                            lambda: rp.set_fixed_local_recurrence_rate(0.5))
                    attempt(tag + "v4",
                            lambda: rp.set_adaptive_neighborhood_size(1))
                    attempt(tag + "v5",
                            lambda: rp.set_fixed_threshold_std(0.5))
                    state(tag + "verbose", rp)

# flag toggled after construction: attribute missing_value_indices is absent
x = series(8, 2)
rp = RecurrencePlot(x, threshold=1., silence_level=2)
rp.missing_values = True
for name, fn in (("a", lambda: rp.set_fixed_threshold(1.)),
                 ("b", lambda: rp.set_fixed_recurrence_rate(.2)),
                 ("c", lambda: rp.set_fixed_local_recurrence_rate(.2))):
    attempt("toggle" + name, fn)
    state("toggle" + name, rp)
rp.missing_value_indices = np.array([0, 3])        # integer indices
for name, fn in (("a", lambda: rp.set_fixed_threshold(1.)),
                 ("b", lambda: rp.set_fixed_recurrence_rate(.2)),
                 ("c", lambda: rp.set_fixed_local_recurrence_rate(.2))):
    attempt("toggle2" + name, fn)
    state("toggle2" + name, rp)
rp.missing_value_indices = np.array([0, 30])       # out of range
for name, fn in (("a", lambda: rp.set_fixed_threshold(1.)),
                 ("b", lambda: rp.set_fixed_recurrence_rate(.2)),
                 ("c", lambda: rp.set_fixed_local_recurrence_rate(.2))):
    attempt("toggle3" + name, fn)
    state("toggle3" + name, rp)

# embedding replaced after construction
rp = RecurrencePlot(series(10, 2), threshold=1., silence_level=2)
rp.embedding = series(6, 3)
for name, fn in (("a", lambda: rp.set_fixed_threshold(1.)),
                 ("b", lambda: rp.set_fixed_recurrence_rate(.2)),
                 ("c", lambda: rp.set_fixed_local_recurrence_rate(.2)),
                 ("d", lambda: rp.set_adaptive_neighborhood_size(2))):
    attempt("reembed" + name, fn)
    state("reembed" + name, rp)

# constructor keyword paths, embedding, sparse mode
x1 = rng.standard_normal(40)
for kw in ({"threshold": .5}, {"threshold_std": .5}, {"recurrence_rate": .1},
           {"local_recurrence_rate": .1}, {"adaptive_neighborhood_size": 4},
           {}, {"threshold": .5, "sparse_rqa": True},
           {"recurrence_rate": .1, "skip_recurrence": True}):
    for emb in ({}, {"dim": 3, "tau": 2}):
        for norm in (False, True):
            def build():
                rp = RecurrencePlot(x1, silence_level=2, normalize=norm,
                                    **kw, **emb)
                return (rp.R, rp.N, rp._mut_R)
            attempt(f"kw{sorted(kw)}{sorted(emb)}{norm}", build)
            attempt(f"kwRN{sorted(kw)}{sorted(emb)}{norm}",
                    lambda: RecurrenceNetwork(
                        x1, silence_level=2, normalize=norm,
                        **kw, **emb).adjacency)

# static quantile helper
for shape in ((5,), (4, 4), (3, 5), (0,), (2, 2, 2)):
    d = rng.rand(*shape)
    keep = d.copy()
    for rr in (0, 0.25, 0.5, 0.999, 1, 1.01, -0.01, np.nan):
        attempt(f"q{shape}{rr}", lambda:
                RecurrencePlot.threshold_from_recurrence_rate(d, rr))
    put("q-unmodified", bool((d == keep).all()))
attempt("qlist", lambda:
        RecurrencePlot.threshold_from_recurrence_rate([1., 2.], 0.5))
attempt("qmat", lambda: RecurrencePlot.threshold_from_recurrence_rate(
    np.matrix([[3., 1.], [2., 0.]]), 0.5))

# subclasses which reuse the helpers / distance matrices
x = series(20, 2)
y = series(20, 2)
attempt("crp", lambda: CrossRecurrencePlot(
    x, y, threshold=1., silence_level=2).recurrence_matrix())
attempt("crp2", lambda: CrossRecurrencePlot(
    x, y, recurrence_rate=.2, silence_level=2).recurrence_matrix())
attempt("jrp", lambda: JointRecurrencePlot(
    x, y, threshold=(1., 1.), lag=2, silence_level=2).recurrence_matrix())
attempt("jrp2", lambda: JointRecurrencePlot(
    x, y, recurrence_rate=(.2, .3), lag=-3,
    silence_level=2).recurrence_matrix())

print(H.hexdigest())
