"""
Equivalence digest for property C13 (data windows / climatological anomalies).

Run as:  PYTHONPATH=<worktree>/src /venv/bin/python equiv.py
Prints one deterministic sha256 digest over everything observable from
Data.set_window / set_global_window / window / observable and
ClimateData.phase_mean / anomaly / set_window / set_global_window for a spread
of inputs (fixed seeds), including object state after failing calls.
"""
import hashlib
import warnings

import numpy as np

from pyunicorn.core.data import Data
from pyunicorn.core.geo_grid import GeoGrid
from pyunicorn.climate.climate_data import ClimateData

warnings.simplefilter("ignore")

H = hashlib.sha256()
N_ITEMS = [0]


def put(tag, value):
    """Feed a tagged value into the digest."""
    N_ITEMS[0] += 1
    H.update(("|" + tag + "=").encode())
    if isinstance(value, np.ma.MaskedArray):
        H.update(b"MA")
        put(tag + ".data", np.asarray(value.data))
        put(tag + ".mask", np.asarray(np.ma.getmaskarray(value)))
    elif isinstance(value, np.ndarray):
        H.update(repr((type(value).__name__, str(value.dtype), value.shape,
                       bool(value.flags["C_CONTIGUOUS"]),
                       bool(value.flags["F_CONTIGUOUS"]),
                       bool(value.flags["OWNDATA"]),
                       bool(value.flags["WRITEABLE"]))).encode())
        H.update(np.ascontiguousarray(value).tobytes())
    elif isinstance(value, np.generic):
        H.update(repr((type(value).__name__, value.tobytes())).encode())
    elif isinstance(value, dict):
        H.update(repr(list(value.keys())).encode())
        for k, v in value.items():
            put(tag + "." + str(k), v)
    elif isinstance(value, (tuple, list)):
        H.update(repr((type(value).__name__, len(value))).encode())
        for k, v in enumerate(value):
            put(tag + "." + str(k), v)
    else:
        H.update(repr((type(value).__name__, value)).encode())


def attempt(tag, fn):
    """Call fn, digest result or the exception type; return result/None."""
    try:
        res = fn()
    except Exception as e:  # pylint: disable=broad-except
        put(tag + "!exc", type(e).__name__)
        return None
    put(tag, res)
    return res


def dump_data_state(tag, d):
    """Digest the complete visible state of a Data / ClimateData object."""
    obs = d.observable()
    put(tag + ".obs", obs)
    put(tag + ".obs_is_attr", obs is d._observable)
    put(tag + ".obs_is_full", obs is d._full_observable)
    put(tag + ".obs_shares_full",
        isinstance(obs, np.ndarray)
        and isinstance(d._full_observable, np.ndarray)
        and np.shares_memory(obs, d._full_observable))
    g = d.grid
    put(tag + ".grid_type", type(g).__name__ if g is not None else None)
    if g is not None:
        put(tag + ".grid", g.grid())
        put(tag + ".grid_raw", g._grid)
        put(tag + ".grid_size", g.grid_size())
        put(tag + ".N", g.N)
        put(tag + ".bounds", g.boundaries())
        put(tag + ".window", d.window())
        put(tag + ".grid_silence", g.silence_level)
        put(tag + ".grid_is_full", g is d._full_grid)
        attempt(tag + ".str", lambda: str(g))
    put(tag + ".full_grid", d._full_grid.grid())
    put(tag + ".full_obs", d._full_observable)
    put(tag + ".attrs", sorted(k for k in vars(d)))
    if isinstance(d, ClimateData):
        put(tag + ".mut", d._mut_window)
        put(tag + ".cache_state", d.__cache_state__())
        put(tag + ".time_cycle", d.time_cycle)
        put(tag + ".anomalies", d.anomalies)


def dump_climate(tag, c):
    """Digest derived series + cache identity behaviour."""
    pm = attempt(tag + ".phase_mean", c.phase_mean)
    an = attempt(tag + ".anomaly", c.anomaly)
    pm2 = attempt(tag + ".phase_mean2", c.phase_mean)
    an2 = attempt(tag + ".anomaly2", c.anomaly)
    put(tag + ".pm_cached", pm is pm2)
    put(tag + ".an_cached", an is an2)
    put(tag + ".an_is_obs", an is c.observable())
    put(tag + ".an_is_full", an is c._full_observable)
    attempt(tag + ".phase_indices", c.phase_indices)
    if pm is not None and an is not None and not c.anomalies:
        # anomalies + phase means rebuild the observable
        tc = c.time_cycle
        rebuilt = np.array(an, copy=True)
        for i in range(tc):
            rebuilt[i::tc, :] = rebuilt[i::tc, :] + pm[i, :]
        put(tag + ".rebuilt", rebuilt)
    return pm, an


def make_grid(rng, n_time, n_space, kind):
    if kind == 0:
        time = np.arange(n_time)
    elif kind == 1:
        time = np.cumsum(rng.integers(1, 4, size=n_time)).astype("float64")
    else:
        time = np.sort(rng.uniform(-5., 50., size=n_time))
    if kind == 0:
        lat = rng.integers(-8, 9, size=n_space) * 10
        lon = rng.integers(-17, 18, size=n_space) * 10
    else:
        lat = rng.uniform(-90., 90., size=n_space)
        lon = rng.uniform(-180., 180., size=n_space)
    return GeoGrid(time, lat, lon, silence_level=2)


def windows_for(rng, grid):
    g = grid.grid()
    t, la, lo = g["time"], g["lat"], g["lon"]
    wins = []
    # global
    wins.append({"time_min": 0., "time_max": 0., "lat_min": 0.,
                 "lat_max": 0., "lon_min": 0., "lon_max": 0.})
    # bounds exactly on samples (closed window)
    wins.append({"time_min": t[1], "time_max": t[-2],
                 "lat_min": np.sort(la)[1], "lat_max": np.sort(la)[-2],
                 "lon_min": np.sort(lo)[1], "lon_max": np.sort(lo)[-2]})
    wins.append({"time_min": float(t[2]), "time_max": float(t[-1]),
                 "lat_min": float(la.min()), "lat_max": float(la.max()),
                 "lon_min": float(lo.min()), "lon_max": float(lo.max())})
    # coinciding bounds per axis
    wins.append({"time_min": 3., "time_max": 3., "lat_min": -40.,
                 "lat_max": 50., "lon_min": -100., "lon_max": 120.})
    wins.append({"time_min": float(t[1]), "time_max": float(t[5]),
                 "lat_min": 7., "lat_max": 7., "lon_min": -1., "lon_max": 1.})
    wins.append({"time_min": float(t[0]), "time_max": float(t[4]),
                 "lat_min": -1., "lat_max": 1., "lon_min": 9., "lon_max": 9.})
    # integer valued, extra key, numpy scalars
    wins.append({"time_min": 2, "time_max": 7, "lat_min": -90, "lat_max": 90,
                 "lon_min": -180, "lon_max": 180, "extra": "ignored"})
    wins.append({"time_min": np.float32(t[1]), "time_max": np.float64(t[6]),
                 "lat_min": np.float32(-30), "lat_max": np.int64(60),
                 "lon_min": -90., "lon_max": 170.})
    # random windows
    for _ in range(6):
        a, b = np.sort(rng.uniform(t.min() - 1, t.max() + 1, size=2))
        c, d = np.sort(rng.uniform(-95., 95., size=2))
        e, f = np.sort(rng.uniform(-185., 185., size=2))
        wins.append({"time_min": float(a), "time_max": float(b),
                     "lat_min": float(c), "lat_max": float(d),
                     "lon_min": float(e), "lon_max": float(f)})
    # reversed bounds -> empty; out of range -> empty (exceptions)
    wins.append({"time_min": 5., "time_max": 1., "lat_min": -90.,
                 "lat_max": 90., "lon_min": -180., "lon_max": 180.})
    wins.append({"time_min": float(t[0]), "time_max": float(t[-1]),
                 "lat_min": 500., "lat_max": 600., "lon_min": -180.,
                 "lon_max": 180.})
    wins.append({"time_min": 1e6, "time_max": 2e6, "lat_min": 500.,
                 "lat_max": 600., "lon_min": -180., "lon_max": 180.})
    # nan bounds
    wins.append({"time_min": float("nan"), "time_max": float("nan"),
                 "lat_min": -90., "lat_max": 90., "lon_min": -180.,
                 "lon_max": 180.})
    # missing keys / wrong types
    wins.append({"time_min": 0., "time_max": 4.})
    wins.append({"lat_min": 0., "lat_max": 4., "lon_min": 0., "lon_max": 1.})
    wins.append({"time_min": 0., "time_max": 0., "lat_min": 0.,
                 "lat_max": 1., "lon_min": 0.})
    wins.append({"time_min": 0., "time_max": 0., "lat_min": 1.,
                 "lat_max": 1.})
    wins.append({})
    wins.append(None)
    wins.append({"time_min": "a", "time_max": "b", "lat_min": 0.,
                 "lat_max": 1., "lon_min": 0., "lon_max": 1.})
    wins.append({"time_min": 0., "time_max": 5., "lat_min": [0., 1.],
                 "lat_max": 1., "lon_min": 0., "lon_max": 1.})
    return wins


class Recorder(ClimateData):
    """Subclass recording the dispatch of the window setters."""
    def __init__(self, *a, **k):
        self.calls = []
        ClimateData.__init__(self, *a, **k)

    def set_window(self, window):
        self.calls.append(("set_window", self._mut_window,
                           type(window).__name__,
                           [(k, type(v).__name__, v)
                            for k, v in window.items()],
                           window is getattr(self, "last_window", None)))
        self.last_window = window
        ClimateData.set_window(self, window)
        self.calls.append(("set_window_done", self._mut_window))

    def set_global_window(self):
        self.calls.append(("set_global_window", self._mut_window))
        ClimateData.set_global_window(self)
        self.calls.append(("set_global_window_done", self._mut_window))


class DataRecorder(Data):
    def __init__(self, *a, **k):
        self.calls = []
        Data.__init__(self, *a, **k)

    def set_window(self, window):
        self.calls.append(("set_window", type(window).__name__,
                           [(k, type(v).__name__, v)
                            for k, v in window.items()],
                           window is getattr(self, "last_window", None)))
        self.last_window = window
        Data.set_window(self, window)
        # a subclass may scribble on the dictionary it was handed
        window["time_min"] = 123.
        window.pop("lon_max", None)


def main():
    rng = np.random.default_rng(20260113)

    # ---- documented small examples
    d = Data.SmallTestData()
    dump_data_state("small", d)
    d.set_window({"time_min": 0., "time_max": 4., "lat_min": 10.,
                  "lat_max": 20., "lon_min": 5., "lon_max": 10.})
    dump_data_state("small.w", d)
    d.set_global_window()
    dump_data_state("small.g", d)
    c = ClimateData.SmallTestData()
    dump_data_state("csmall", c)
    dump_climate("csmall", c)
    c.set_window({"time_min": 0., "time_max": 0., "lat_min": 10.,
                  "lat_max": 20., "lon_min": 5., "lon_max": 10.})
    dump_data_state("csmall.w", c)
    dump_climate("csmall.w", c)
    c.set_global_window()
    dump_data_state("csmall.g", c)
    dump_climate("csmall.g", c)

    # ---- randomized spread
    case = 0
    for kind in (0, 1, 2):
        for (n_time, n_space, tc) in ((12, 7, 4), (23, 5, 6), (10, 9, 12),
                                       (9, 4, 1), (16, 3, 3)):
            for dtype in ("float64", "float32", "int64"):
                case += 1
                tag = f"c{case}"
                grid = make_grid(rng, n_time, n_space, kind)
                obs = (rng.normal(size=(n_time, n_space)) * 10).astype(dtype)
                if case % 4 == 0:
                    obs = np.asfortranarray(obs)
                obs_backup = obs.copy()
                wins = windows_for(rng, grid)
                data = Data(obs, grid, silence_level=2)
                clim = ClimateData(obs, grid, time_cycle=tc,
                                   silence_level=2)
                anom = ClimateData(obs, grid, time_cycle=tc, anomalies=True,
                                   silence_level=2)
                dump_data_state(tag + ".D0", data)
                dump_data_state(tag + ".C0", clim)
                dump_climate(tag + ".C0", clim)
                dump_climate(tag + ".A0", anom)
                prev = None
                for k, w in enumerate(wins):
                    wt = f"{tag}.w{k}"
                    w_backup = None if w is None else dict(w)
                    attempt(wt + ".D.set", lambda: data.set_window(w))
                    dump_data_state(wt + ".D", data)
                    attempt(wt + ".C.set", lambda: clim.set_window(w))
                    dump_data_state(wt + ".C", clim)
                    pm, an = dump_climate(wt + ".C", clim)
                    put(wt + ".C.newobj", (pm is not prev))
                    prev = pm
                    attempt(wt + ".A.set", lambda: anom.set_window(w))
                    dump_data_state(wt + ".A", anom)
                    dump_climate(wt + ".A", anom)
                    # window dict untouched
                    if w is not None:
                        put(wt + ".w_untouched",
                            list(w.keys()) == list(w_backup.keys())
                            and all(w[q] is w_backup[q] for q in w))
                    if k % 5 == 4:
                        attempt(wt + ".D.glob", data.set_global_window)
                        dump_data_state(wt + ".Dg", data)
                        attempt(wt + ".C.glob", clim.set_global_window)
                        dump_data_state(wt + ".Cg", clim)
                        dump_climate(wt + ".Cg", clim)
                        attempt(wt + ".A.glob", anom.set_global_window)
                        dump_data_state(wt + ".Ag", anom)
                        dump_climate(wt + ".Ag", anom)
                    # constructor with window
                    if k % 3 == 0:
                        d2 = attempt(wt + ".ctor", lambda: str(type(
                            Data(obs, grid, window=w, silence_level=2))))
                        try:
                            c2 = ClimateData(obs, grid, time_cycle=tc,
                                             window=w, silence_level=1)
                            dump_data_state(wt + ".ctorC", c2)
                        except Exception as e:  # pylint: disable=W0703
                            put(wt + ".ctorC!exc", type(e).__name__)
                put(tag + ".input_untouched",
                    bool(np.array_equal(obs, obs_backup)))

    # ---- silence level propagates into the windowed grid
    for sl in (0, 1, 2, 5):
        grid = make_grid(rng, 10, 5, 1)
        obs = rng.normal(size=(10, 5))
        dd = Data(obs, grid, silence_level=sl)
        dump_data_state(f"sl{sl}", dd)
        dd.silence_level = sl + 1
        dd.set_window({"time_min": 0., "time_max": 100., "lat_min": -90.,
                       "lat_max": 90., "lon_min": -180., "lon_max": 180.})
        dump_data_state(f"sl{sl}.w", dd)

    # ---- time_cycle corner cases (longer than series, zero, negative, float)
    for tc in (15, 10, 7, 0, -1, 2.0, None):
        grid = make_grid(rng, 10, 4, 0)
        obs = rng.normal(size=(10, 4))
        cc = ClimateData(obs, grid, time_cycle=tc, silence_level=2)
        dump_climate(f"tc{tc}", cc)
        attempt(f"tc{tc}.set", lambda: cc.set_window(
            {"time_min": 2., "time_max": 8., "lat_min": 0., "lat_max": 0.,
             "lon_min": 0., "lon_max": 0.}))
        dump_data_state(f"tc{tc}.w", cc)
        dump_climate(f"tc{tc}.w", cc)

    # ---- masked array / non-finite observables
    grid = make_grid(rng, 12, 5, 1)
    raw = rng.normal(size=(12, 5))
    raw[3, 2] = np.nan
    raw[7, 1] = np.inf
    mobs = np.ma.masked_array(rng.normal(size=(12, 5)),
                              mask=rng.uniform(size=(12, 5)) < 0.2)
    for name, o in (("nonfinite", raw), ("masked", mobs)):
        cc = ClimateData(o, grid, time_cycle=4, silence_level=2)
        dump_data_state(name, cc)
        dump_climate(name, cc)
        g = grid.grid()
        attempt(name + ".set", lambda: cc.set_window(
            {"time_min": float(g["time"][1]), "time_max": float(g["time"][9]),
             "lat_min": -60., "lat_max": 60., "lon_min": -150.,
             "lon_max": 150.}))
        dump_data_state(name + ".w", cc)
        dump_climate(name + ".w", cc)

    # ---- dispatch of the setters through subclasses
    grid = make_grid(rng, 12, 6, 0)
    obs = rng.normal(size=(12, 6))
    win = {"time_min": 1., "time_max": 9., "lat_min": -90., "lat_max": 90.,
           "lon_min": -180., "lon_max": 180.}
    for w0 in (None, win):
        r = Recorder(obs, grid, time_cycle=3, window=w0, silence_level=2)
        put("rec.init", list(r.calls))
        dump_data_state("rec.init", r)
        r.set_window(win)
        put("rec.set", list(r.calls))
        r.set_global_window()
        r.set_global_window()
        put("rec.glob", list(r.calls))
        dump_data_state("rec.glob", r)
        attempt("rec.bad", lambda: r.set_window({"time_min": 9.,
                                                  "time_max": 1.}))
        put("rec.bad.calls", list(r.calls))
        dump_data_state("rec.bad", r)
        dr = DataRecorder(obs, grid, window=w0, silence_level=2)
        dr.set_global_window()
        dr.set_global_window()
        dump_data_state("drec.g", dr)
        dr.set_window(dict(win))
        dr.set_global_window()
        put("drec", list(dr.calls))
        dump_data_state("drec", dr)

    # ---- interleaved caching across two objects and windows
    grid = make_grid(rng, 24, 6, 1)
    obs = rng.normal(size=(24, 6))
    a = ClimateData(obs, grid, time_cycle=6, silence_level=2)
    b = ClimateData(obs, grid, time_cycle=6, silence_level=2)
    g = grid.grid()
    seq = []
    for step in range(12):
        tgt = a if step % 2 == 0 else b
        lo, hi = sorted(rng.integers(0, 24, size=2))
        if step % 4 == 3:
            tgt.set_global_window()
        else:
            attempt(f"il{step}.set", lambda: tgt.set_window(
                {"time_min": float(g["time"][lo]),
                 "time_max": float(g["time"][hi]),
                 "lat_min": 0., "lat_max": 0., "lon_min": 0., "lon_max": 0.}))
        seq.append((a._mut_window, b._mut_window))
        dump_climate(f"il{step}.a", a)
        dump_climate(f"il{step}.b", b)
    put("il.seq", seq)

    print("items:", N_ITEMS[0])
    print("digest:", H.hexdigest())


if __name__ == "__main__":
    main()
