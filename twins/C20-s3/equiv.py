"""Digest of the current-flow betweenness kernels of ResNetwork."""
import hashlib
import numpy as np
from pyunicorn.core._ext.numerics import \
    _vertex_current_flow_betweenness, _edge_current_flow_betweenness
from pyunicorn.core.resistive_network import ResNetwork

h = hashlib.sha256()


def feed(tag, fn):
    try:
        res = np.asarray(fn())
        h.update(f"{tag}|{res.dtype}|{res.shape}|".encode())
        h.update(np.ascontiguousarray(res).tobytes())
    except BaseException as e:  # noqa
        h.update(f"{tag}|EXC|{type(e).__name__}|{e}".encode())


rng = np.random.RandomState(3)
for N in (0, 1, 2, 3, 4, 7, 12, 23):
    adm = rng.rand(N, N).astype(np.float32)
    adm = adm * (rng.rand(N, N) < 0.6)
    adm = (adm + adm.T).astype(np.float32)
    R = rng.randn(N, N).astype(np.float32)
    for Is, It in ((1.0, 1.0), (0.5, -2.0), (0.0, 3.25)):
        feed(f"e{N},{Is},{It}",
             lambda: _edge_current_flow_betweenness(N, Is, It, adm, R))
        feed(f"eF{N},{Is},{It}",
             lambda: _edge_current_flow_betweenness(
                 N, Is, It, np.asfortranarray(adm), np.asfortranarray(R)))
        for i in range(N):
            feed(f"v{N},{Is},{It},{i}",
                 lambda: _vertex_current_flow_betweenness(
                     N, Is, It, adm, R, i))
        # node index outside [0, N): nothing is skipped, nothing is read
        # through it in the pristine kernel only if ... -> not exercised
        if N > 2:
            feed(f"vs{N},{Is},{It}",
                 lambda: _vertex_current_flow_betweenness(
                     N - 1, Is, It, adm, R, 1))
            feed(f"es{N},{Is},{It}",
                 lambda: _edge_current_flow_betweenness(
                     N - 1, Is, It, adm, R))
    h.update(adm.tobytes())
    h.update(R.tobytes())

adm = np.ones((3, 3), dtype=np.float32)
R = np.eye(3, dtype=np.float32)
feed("eneg", lambda: _edge_current_flow_betweenness(-3, 1., 1., adm, R))
feed("vneg", lambda: _vertex_current_flow_betweenness(-3, 1., 1., adm, R, 0))
feed("v0", lambda: _vertex_current_flow_betweenness(0, 1., 1., adm, R, 0))
feed("v1", lambda: _vertex_current_flow_betweenness(1, 1., 1., adm, R, 0))
# (None is not exercised: these private wrappers lack `not None` and the
#  pristine tree dereferences it; the public API never passes None)
feed("ef64", lambda: _edge_current_flow_betweenness(
    3, 1., 1., adm.astype(float), R))
feed("vf64", lambda: _vertex_current_flow_betweenness(
    3, 1., 1., adm, R.astype(float), 0))
feed("e1d", lambda: _edge_current_flow_betweenness(3, 1., 1., adm[0], R))
feed("estr", lambda: _edge_current_flow_betweenness("3", 1., 1., adm, R))
feed("vstr", lambda: _vertex_current_flow_betweenness(3, "x", 1., adm, R, 0))
feed("ebig", lambda: _edge_current_flow_betweenness(2**40, 1., 1., adm, R))
feed("nan", lambda: _edge_current_flow_betweenness(
    3, np.nan, 1., adm, R))
feed("inf", lambda: _vertex_current_flow_betweenness(
    3, np.inf, 1., adm, R, 2))

# public API
res = ResNetwork.SmallTestNetwork()
feed("pub_e", res.edge_current_flow_betweenness)
for i in range(-1, res.N + 1):
    feed(f"pub_v{i}", lambda: res.vertex_current_flow_betweenness(i))
res.update_resistances(res.adjacency)
feed("pub_e2", res.edge_current_flow_betweenness)
for i in range(res.N):
    feed(f"pub_v2{i}", lambda: res.vertex_current_flow_betweenness(i))
res = ResNetwork.SmallComplexNetwork()
feed("cpx_e", res.edge_current_flow_betweenness)
feed("cpx_v", lambda: res.vertex_current_flow_betweenness(1))
print(h.hexdigest())
