"""Digest of RQA line statistics (property C08) on a spread of inputs.

Run as:  PYTHONPATH=<worktree>/src /venv/bin/python equiv.py
"""
import contextlib
import hashlib
import io
import random
import warnings

import numpy as np

from pyunicorn.core._ext.types import NODE, LAG, DFIELD, MASK
from pyunicorn.timeseries import RecurrencePlot, CrossRecurrencePlot, \
    JointRecurrencePlot, RecurrenceNetwork
from pyunicorn.timeseries._ext import numerics as nx

warnings.simplefilter("ignore")
H = hashlib.sha256()


def put(tag, value):
    if isinstance(value, BaseException):
        H.update(f"{tag}|EXC|{type(value).__name__}|{value}\n".encode())
        return
    arr = np.asarray(value)
    H.update(f"{tag}|{arr.dtype}|{arr.shape}|".encode())
    H.update(np.ascontiguousarray(arr).tobytes())
    H.update(b"\n")


def call(tag, fn, *args, **kwargs):
    try:
        put(tag, fn(*args, **kwargs))
    except Exception as exc:  # pylint: disable=broad-except
        put(tag, exc)


def measures(tag, rp, mins=(1, 2, 3, 5)):
    call(tag + "diag", rp.diagline_dist)
    call(tag + "vert", rp.vertline_dist)
    call(tag + "white", rp.white_vertline_dist)
    call(tag + "RR", rp.recurrence_rate)
    call(tag + "maxd", rp.max_diaglength)
    call(tag + "maxv", rp.max_vertlength)
    call(tag + "maxw", rp.max_white_vertlength)
    for m in mins:
        t = f"{tag}{m}:"
        call(t + "summary", lambda m=m: sorted(
            rp.rqa_summary(l_min=m, v_min=m).items()).__repr__().encode())
        call(t + "DET", rp.determinism, m)
        call(t + "L", rp.average_diaglength, m)
        call(t + "ENTR", rp.diag_entropy, m)
        call(t + "LAM", rp.laminarity, m)
        call(t + "TT", rp.average_vertlength, m)
        call(t + "TT2", rp.trapping_time, m)
        call(t + "VENTR", rp.vert_entropy, m)
        call(t + "MRT", rp.average_white_vertlength, m)
        call(t + "MRT2", rp.mean_recurrence_time, m)
        call(t + "WENTR", rp.white_vert_entropy, m)
    # repeated call (cached) and state after the calls
    call(tag + "diag-again", rp.diagline_dist)
    call(tag + "vert-again", rp.vertline_dist)
    put(tag + "state", repr(sorted(
        k for k in rp.__dict__ if not k.startswith("_")
    )).encode())


def series(rng, n, kind):
    t = np.arange(n)
    if kind == "sine":
        return np.sin(2 * np.pi * t / 11.0) + 0.1 * rng.standard_normal(n)
    if kind == "noise":
        return rng.standard_normal(n)
    if kind == "steps":
        return np.repeat(rng.integers(0, 3, size=n // 5 + 1), 5)[:n] * 1.0
    if kind == "const":
        return np.ones(n)
    if kind == "2d":
        return rng.standard_normal((n, 2)).cumsum(axis=0)
    raise ValueError(kind)


def main():
    rng = np.random.default_rng(20240808)

    # --- RecurrencePlot: matrix mode, sequential mode, missing values
    for kind in ("sine", "noise", "steps", "const", "2d"):
        for n in (1, 2, 7, 40, 93):
            x = series(rng, n, kind)
            for metric in ("supremum", "euclidean", "manhattan"):
                for sparse in (False, True):
                    for emb in (None, (2, 1), (3, 2)):
                        if emb is not None and (kind == "2d" or n < 8):
                            continue
                        kw = {} if emb is None else \
                            {"dim": emb[0], "tau": emb[1]}
                        tag = f"RP|{kind}|{n}|{metric}|{sparse}|{emb}|"
                        try:
                            rp = RecurrencePlot(
                                x, metric=metric, threshold=0.6,
                                sparse_rqa=sparse, silence_level=2, **kw)
                        except Exception as exc:
                            put(tag + "init", exc)
                            continue
                        measures(tag, rp)

    # --- missing values
    for kind in ("sine", "noise", "steps", "2d"):
        for n in (9, 40, 77):
            for frac in (0.0, 0.1, 0.4, 1.0):
                x = np.array(series(rng, n, kind), dtype=float)
                holes = rng.random(n) < frac
                x[holes] = np.nan
                for metric in ("supremum", "euclidean"):
                    for sparse in (False, True):
                        tag = f"MV|{kind}|{n}|{frac}|{metric}|{sparse}|"
                        try:
                            rp = RecurrencePlot(
                                x, metric=metric, threshold=0.5,
                                missing_values=True, sparse_rqa=sparse,
                                silence_level=2)
                        except Exception as exc:
                            put(tag + "init", exc)
                            continue
                        measures(tag, rp, mins=(1, 2, 4))

    # --- other ways of fixing the recurrence structure
    x = series(rng, 60, "sine")
    for kw in ({"recurrence_rate": 0.15}, {"threshold_std": 0.4},
               {"local_recurrence_rate": 0.1},
               {"adaptive_neighborhood_size": 0.1},
               {"threshold": 0.0}, {"threshold": 100.0}):
        for sparse in (False, True):
            tag = f"KW|{sorted(kw.items())}|{sparse}|"
            try:
                rp = RecurrencePlot(x, sparse_rqa=sparse, silence_level=2,
                                    **kw)
            except Exception as exc:
                put(tag + "init", exc)
                continue
            measures(tag, rp, mins=(1, 2))

    # --- call sequences: threshold changes, resampled distributions, odd args
    rp = RecurrencePlot(series(rng, 50, "sine"), threshold=0.3,
                        silence_level=2)
    measures("SEQ|a|", rp, mins=(2,))
    rp.set_fixed_threshold(0.9)
    measures("SEQ|b|", rp, mins=(2,))
    rp.set_fixed_recurrence_rate(0.2)
    measures("SEQ|c|", rp, mins=(2,))
    d = rp.diagline_dist()
    v = rp.vertline_dist()
    for res in (d, v, d.astype(float), v[::-1].copy(),
                np.zeros(rp.N, dtype=NODE), np.arange(rp.N) % 3,
                (np.arange(rp.N) % 4).astype("float32")):
        for m in (1, 2, 7, 50, 51, 60):
            t = f"RES|{res.dtype}|{int(res.sum())}|{m}|"
            call(t + "DET", rp.determinism, m, res)
            call(t + "L", rp.average_diaglength, m, res)
            call(t + "ENTR", rp.diag_entropy, m, res)
            call(t + "LAM", rp.laminarity, m, res)
            call(t + "TT", rp.average_vertlength, m, res)
            call(t + "TT2", rp.trapping_time, m, res)
            call(t + "VENTR", rp.vert_entropy, m, res)
    for bad in (0, -1, 2.5, None, "2"):
        t = f"BAD|{bad!r}|"
        call(t + "DET", rp.determinism, bad)
        call(t + "L", rp.average_diaglength, bad)
        call(t + "ENTR", rp.diag_entropy, bad)
        call(t + "LAM", rp.laminarity, bad)
        call(t + "TT", rp.average_vertlength, bad)
        call(t + "VENTR", rp.vert_entropy, bad)
        call(t + "MRT", rp.average_white_vertlength, bad)
        call(t + "WENTR", rp.white_vert_entropy, bad)
    call("RESLIST|ENTR", rp.diag_entropy, 2, [0, 1, 2, 0, 3])
    call("RESLIST|VENTR", rp.vert_entropy, 2, [0, 1, 2, 0, 3])
    call("RESLIST|DET", rp.determinism, 2, [0, 1, 2, 0, 3])
    np.random.seed(7)
    random.seed(7)   # the rejection sampler draws from Python's `random`
    call("RESAMPLE|d", rp.resample_diagline_dist, 200)
    call("RESAMPLE|v", rp.resample_vertline_dist, 200)

    # sparse mode with changed attributes
    rp = RecurrencePlot(series(rng, 45, "noise"), threshold=0.7,
                        sparse_rqa=True, silence_level=2)
    measures("SP|a|", rp, mins=(2,))
    rp.threshold = 1.4
    measures("SP|b|", rp, mins=(2,))
    rp.metric = "euclidean"
    measures("SP|c|", rp, mins=(2,))
    rp.metric = "supremum"
    rp.threshold = None
    measures("SP|d|", rp, mins=(2,))
    rp.threshold = "0.5"
    measures("SP|e|", rp, mins=(2,))
    rp.threshold = "abc"
    measures("SP|f|", rp, mins=(2,))

    # --- derived classes
    a, b = series(rng, 40, "sine"), series(rng, 40, "sine")
    crp = CrossRecurrencePlot(a, b[:33], threshold=0.4, silence_level=2)
    measures("CRP|", crp, mins=(2,))
    jrp = JointRecurrencePlot(a, b, threshold=(0.4, 0.5), silence_level=2)
    measures("JRP|", jrp, mins=(1, 2))
    rn = RecurrenceNetwork(a, threshold=0.4, silence_level=2)
    measures("RN|", rn, mins=(1, 2))

    # --- the compiled kernels called directly
    for n in (1, 2, 3, 8, 31):
        for dens in (0.0, 0.3, 0.7, 1.0):
            R = (rng.random((n, n)) < dens).astype(LAG)
            Rs = np.maximum(R, R.T)
            np.fill_diagonal(Rs, 1)
            M = rng.random(n) < 0.2
            E = rng.standard_normal((n, 2)).astype(DFIELD)
            for name, mat in (("asym", R), ("sym", Rs)):
                t = f"K|{n}|{dens}|{name}|"
                for fn in ("_vertline_dist", "_diagline_dist",
                           "_white_vertline_dist"):
                    h = np.zeros(n, dtype=NODE)
                    call(t + fn, lambda: (getattr(nx, fn)(n, h, mat), h)[1])
                    # accumulating into a non-zero histogram
                    call(t + fn + "+", lambda: (
                        getattr(nx, fn)(n, h, mat), h)[1])
                for fn in ("_vertline_dist_missingvalues",
                           "_diagline_dist_missingvalues"):
                    for mask in (M, np.zeros(n, bool), np.ones(n, bool),
                                 M.astype(MASK)):
                        h = np.zeros(n, dtype=NODE)
                        call(t + fn, lambda: (
                            getattr(nx, fn)(n, h, mat, mask), h)[1])
            for eps in (0.0, 0.5, 1.5, 10.0):
                for dim in (1, 2):
                    t = f"KS|{n}|{eps}|{dim}|"
                    for fn in ("_vertline_dist_sequential",
                               "_diagline_dist_sequential"):
                        h = np.zeros(n, dtype=NODE)
                        call(t + fn, lambda: (
                            getattr(nx, fn)(n, h, E, eps, dim), h)[1])
                    for fn in ("_vertline_dist_sequential_missingvalues",
                               "_diagline_dist_sequential_missingvalues"):
                        h = np.zeros(n, dtype=NODE)
                        call(t + fn, lambda: (
                            getattr(nx, fn)(n, h, M, E, eps, dim), h)[1])
    # kernel on a sub-block (n_time smaller than the arrays) and wrong dtypes
    R = (rng.random((12, 12)) < 0.5).astype(LAG)
    for n in (0, 5, 12):
        h = np.zeros(12, dtype=NODE)
        call(f"KSUB|{n}|v", lambda: (nx._vertline_dist(n, h, R), h)[1])
        h = np.zeros(12, dtype=NODE)
        call(f"KSUB|{n}|d", lambda: (nx._diagline_dist(n, h, R), h)[1])
        h = np.zeros(12, dtype=NODE)
        call(f"KSUB|{n}|w", lambda: (nx._white_vertline_dist(n, h, R), h)[1])
    call("KBAD|dtype", nx._vertline_dist, 12, np.zeros(12), R)
    call("KBAD|ndim", nx._diagline_dist, 12, np.zeros(12, dtype=NODE), R[0])
    call("KBAD|none", nx._diagline_dist, 12, None, R)



if __name__ == "__main__":
    # the library prints progress/diagnostic messages; digest them as well
    buf = io.StringIO()
    with contextlib.redirect_stdout(buf):
        main()
    H.update(buf.getvalue().encode())
    print(H.hexdigest())
