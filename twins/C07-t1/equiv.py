"""Equivalence digest for twin_1 (distance / embedding kernels in
timeseries/_ext/numerics.pyx).  Run as

    PYTHONPATH=<worktree>/src /venv/bin/python equiv.py
"""
import hashlib
import io
import contextlib

import numpy as np

from pyunicorn.timeseries._ext.numerics import (
    _embed_time_series,
    _manhattan_distance_matrix_rp, _euclidean_distance_matrix_rp,
    _supremum_distance_matrix_rp,
    _manhattan_distance_matrix_crp, _euclidean_distance_matrix_crp,
    _supremum_distance_matrix_crp)
from pyunicorn.timeseries import RecurrencePlot, CrossRecurrencePlot, \
    RecurrenceNetwork

H = hashlib.sha256()


def feed(tag, obj):
    H.update(repr(tag).encode())
    if isinstance(obj, np.ndarray):
        H.update(str(obj.dtype).encode())
        H.update(repr(obj.shape).encode())
        H.update(repr(obj.flags.c_contiguous).encode())
        H.update(np.ascontiguousarray(obj).tobytes())
    else:
        H.update(repr(obj).encode())


def attempt(tag, fun, *args, **kwargs):
    try:
        with contextlib.redirect_stdout(io.StringIO()) as out:
            res = fun(*args, **kwargs)
        feed(tag, res)
        feed((tag, "stdout"), out.getvalue())
    except BaseException as exc:  # pylint: disable=broad-except
        feed(tag, (type(exc).__name__, str(exc)))


RP_KERNELS = (_manhattan_distance_matrix_rp, _euclidean_distance_matrix_rp,
              _supremum_distance_matrix_rp)
CRP_KERNELS = (_manhattan_distance_matrix_crp, _euclidean_distance_matrix_crp,
               _supremum_distance_matrix_crp)


def special(rng, arr, frac=0.1):
    """Sprinkle NaN / inf / -0.0 / huge / tiny values."""
    arr = arr.copy()
    flat = arr.reshape(-1)
    n = flat.size
    if n == 0:
        return arr
    vals = np.array([np.nan, np.inf, -np.inf, -0.0, 0.0, 1e300, -1e300,
                     1e-310, 5e-324])
    idx = rng.choice(n, size=max(1, int(frac * n)), replace=False)
    flat[idx] = rng.choice(vals, size=idx.size)
    return arr


# --- 1. rp kernels, direct calls -------------------------------------------
rng = np.random.default_rng(70701)
for n_time in (0, 1, 2, 3, 7, 20, 61):
    for dim in (0, 1, 2, 3, 5):
        emb = rng.standard_normal((n_time, dim))
        emb_s = special(rng, emb)
        emb_i = np.round(emb * 2)       # many ties / exact zeros
        for name, e in (("plain", emb), ("special", emb_s), ("ties", emb_i)):
            for kern in RP_KERNELS:
                attempt(("rp", kern.__name__, n_time, dim, name),
                        kern, n_time, dim, e)
        # non-contiguous embeddings (rp kernels accept any strides)
        big = rng.standard_normal((2 * n_time + 1, 2 * dim + 1))
        view = big[:2 * n_time:2, :2 * dim:2]
        fview = np.asfortranarray(emb)
        for kern in RP_KERNELS:
            attempt(("rp-strided", kern.__name__, n_time, dim),
                    kern, n_time, dim, view)
            attempt(("rp-fortran", kern.__name__, n_time, dim),
                    kern, n_time, dim, fview)

# sub-ranges and out-of-range sizes / wrong inputs
emb = rng.standard_normal((9, 4))
for kern in RP_KERNELS:
    for n_time, dim in ((5, 2), (9, 4), (10, 4), (9, 5), (12, 7), (-1, 2),
                        (3, -1), (0, 9), (1, 9), (2, 9)):
        attempt(("rp-sub", kern.__name__, n_time, dim), kern, n_time, dim,
                emb)
    attempt(("rp-f32", kern.__name__), kern, 9, 4, emb.astype("float32"))
    attempt(("rp-1d", kern.__name__), kern, 9, 1, emb[:, 0])
    attempt(("rp-none", kern.__name__), kern, 9, 4, None)
    attempt(("rp-kw", kern.__name__), kern, n_time=4, dim=3, embedding=emb)

# --- 2. crp kernels, direct calls ------------------------------------------
rng = np.random.default_rng(70702)
for nx in (0, 1, 2, 6, 23):
    for ny in (0, 1, 3, 17):
        for dim in (0, 1, 2, 4):
            x = rng.standard_normal((nx, dim))
            y = rng.standard_normal((ny, dim))
            variants = (("plain", x, y),
                        ("special", special(rng, x), special(rng, y)),
                        ("ties", np.round(2 * x), np.round(2 * y)))
            for name, xx, yy in variants:
                for kern in CRP_KERNELS:
                    attempt(("crp", kern.__name__, nx, ny, dim, name),
                            kern, nx, ny, dim, xx, yy)

x = rng.standard_normal((8, 3))
y = rng.standard_normal((5, 3))
for kern in CRP_KERNELS:
    for nx, ny, dim in ((8, 5, 3), (4, 2, 1), (9, 5, 3), (8, 6, 3),
                        (8, 5, 4), (-1, 5, 3), (8, -2, 3), (8, 5, -1),
                        (0, 6, 3), (9, 0, 3), (1, 1, 4)):
        attempt(("crp-sub", kern.__name__, nx, ny, dim), kern, nx, ny, dim,
                x, y)
    attempt(("crp-fortran", kern.__name__), kern, 8, 5, 3,
            np.asfortranarray(x), y)
    attempt(("crp-f32", kern.__name__), kern, 8, 5, 3, x.astype("float32"),
            y)
    attempt(("crp-none", kern.__name__), kern, 8, 5, 3, x, None)
    attempt(("crp-kw", kern.__name__), kern, ntime_x=8, ntime_y=5, dim=3,
            x_embedded=x, y_embedded=y)
    attempt(("crp-same", kern.__name__), kern, 8, 8, 3, x, x)

# --- 3. embedding kernel ----------------------------------------------------
rng = np.random.default_rng(70703)
for n_time in (0, 1, 5, 12, 40):
    ts = special(rng, rng.standard_normal(n_time), 0.05).astype("float32")
    for dim in (0, 1, 2, 3, 6):
        for tau in (0, 1, 2, 5, -1):
            length = n_time - (dim - 1) * tau
            # the exact buffer the library would allocate (if possible) ...
            if length >= 0:
                emb = np.full((length, dim), 7.5, dtype="float32")
                attempt(("embed", n_time, dim, tau),
                        _embed_time_series, n_time, dim, tau, ts, emb)
                feed(("embed-out", n_time, dim, tau), emb)
            # ... and buffers that are too small / too large / strided
            for shape in ((max(length, 0) + 2, dim + 1),
                          (max(length - 1, 0), dim),
                          (max(length, 0), max(dim - 1, 0))):
                emb = np.full(shape, -3.25, dtype="float32")
                attempt(("embed-odd", n_time, dim, tau, shape),
                        _embed_time_series, n_time, dim, tau, ts, emb)
                feed(("embed-odd-out", n_time, dim, tau, shape), emb)
    big = np.zeros((2 * n_time + 2, 8), dtype="float32")
    attempt(("embed-strided", n_time),
            _embed_time_series, n_time, 3, 1, ts, big[::2, ::2])
    feed(("embed-strided-out", n_time), big)
    # n_time larger than the series: IndexError after partial writes
    emb = np.full((n_time + 4, 2), 1.5, dtype="float32")
    attempt(("embed-oob", n_time),
            _embed_time_series, n_time + 5, 2, 1, ts, emb)
    feed(("embed-oob-out", n_time), emb)
attempt("embed-f64", _embed_time_series, 5, 2, 1, np.zeros(5),
        np.zeros((4, 2), dtype="float32"))
attempt("embed-kw", _embed_time_series, n_time=5, dim=2, tau=1,
        time_series=np.arange(5, dtype="float32"),
        embedding=np.zeros((4, 2), dtype="float32"))

# --- 4. through the public classes -----------------------------------------
rng = np.random.default_rng(70704)
for metric in ("manhattan", "euclidean", "supremum"):
    for shape in ((30,), (30, 1), (25, 3)):
        ts = rng.standard_normal(shape)
        for kw in (dict(threshold=0.4), dict(recurrence_rate=0.2),
                   dict(local_recurrence_rate=0.15),
                   dict(adaptive_neighborhood_size=3),
                   dict(threshold_std=0.5)):
            def build(ts=ts, kw=kw, metric=metric):
                rp = RecurrencePlot(ts, metric=metric, silence_level=2, **kw)
                return np.concatenate([
                    rp.R.ravel().astype("float64"),
                    rp.distance_matrix(metric).ravel(),
                    [rp.N, rp.recurrence_rate(), rp.determinism(),
                     rp.laminarity()]])
            attempt(("RP", metric, shape, sorted(kw.items())), build)
    ts = rng.standard_normal(40)
    for dim, tau in ((2, 1), (3, 2), (4, 5)):
        def build_emb(ts=ts, dim=dim, tau=tau, metric=metric):
            rp = RecurrencePlot(ts, metric=metric, dim=dim, tau=tau,
                                threshold=0.8, silence_level=2)
            rn = RecurrenceNetwork(ts, metric=metric, dim=dim, tau=tau,
                                   recurrence_rate=0.1, silence_level=2)
            return np.concatenate([rp.embedding.ravel(),
                                   rp.R.ravel().astype("float64"),
                                   rn.adjacency.ravel().astype("float64"),
                                   [rp.N, rn.N, rn.n_links]])
        attempt(("RP-embed", metric, dim, tau), build_emb)
    ts_nan = rng.standard_normal((30, 2))
    ts_nan[[3, 17], [0, 1]] = np.nan

    def build_nan(ts=ts_nan, metric=metric):
        rp = RecurrencePlot(ts, metric=metric, missing_values=True,
                            threshold=0.9, silence_level=2)
        return np.concatenate([rp.R.ravel().astype("float64"),
                               rp.distance_matrix(metric).ravel()])
    attempt(("RP-nan", metric), build_nan)

    x = rng.standard_normal((22, 2))
    y = rng.standard_normal((31, 2))
    for kw in (dict(threshold=0.7), dict(recurrence_rate=0.12)):
        def build_crp(x=x, y=y, kw=kw, metric=metric):
            crp = CrossRecurrencePlot(x, y, metric=metric, silence_level=2,
                                      **kw)
            return np.concatenate([crp.CR.ravel().astype("float64"),
                                   crp.distance_matrix(metric).ravel(),
                                   [crp.N, crp.M,
                                    crp.cross_recurrence_rate()]])
        attempt(("CRP", metric, sorted(kw.items())), build_crp)
    xs = rng.standard_normal(35)
    ys = rng.standard_normal(28)

    def build_crp_emb(x=xs, y=ys, metric=metric):
        crp = CrossRecurrencePlot(x, y, metric=metric, dim=3, tau=2,
                                  threshold=1.1, silence_level=2)
        return np.concatenate([crp.CR.ravel().astype("float64"),
                               crp.x_embedded.ravel(), crp.y_embedded.ravel(),
                               [crp.N, crp.M]])
    attempt(("CRP-embed", metric), build_crp_emb)

print(H.hexdigest())
