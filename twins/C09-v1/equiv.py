"""Equivalence digest for property C09 (ClimateNetwork thresholding,
non-local distance weighting, density -> threshold, angular distances)."""
import contextlib
import hashlib
import io
import warnings

import numpy as np

from pyunicorn.core import GeoGrid
from pyunicorn.climate import ClimateNetwork, TsonisClimateNetwork

warnings.simplefilter("ignore")

H = hashlib.sha256()


def feed(tag, obj):
    H.update(tag.encode())
    if isinstance(obj, np.ndarray):
        H.update(str(obj.dtype).encode())
        H.update(str(obj.shape).encode())
        H.update(np.ascontiguousarray(obj).tobytes())
    else:
        H.update(repr(obj).encode())
        H.update(type(obj).__name__.encode())


def attempt(tag, fn):
    try:
        res = fn()
    except Exception as e:  # pylint: disable=broad-except
        feed(tag + ":exc", type(e).__name__)
        return None
    if res is not None and not isinstance(res, ClimateNetwork):
        feed(tag, res)
    return res


def state(tag, net):
    try:
        _state(tag, net)
    except Exception as e:  # pylint: disable=broad-except
        feed(tag + ":state_exc", type(e).__name__)


def _state(tag, net):
    feed(tag + ":thr", net.threshold())
    feed(tag + ":thr_attr", net._threshold)
    feed(tag + ":nl", net.non_local())
    feed(tag + ":A", net.adjacency)
    feed(tag + ":n_links", net.n_links)
    feed(tag + ":ld", net.link_density)
    feed(tag + ":dir", net.directed)
    feed(tag + ":N", net.N)
    feed(tag + ":sim", net.similarity_measure())
    feed(tag + ":mut", (net._mut_clim, net._mut_la, net._mut_nw))
    feed(tag + ":deg", net.degree())


def make_grid(rng, N, kind):
    if kind == 0:
        lat = rng.uniform(-90, 90, N)
        lon = rng.uniform(-180, 180, N)
    elif kind == 1:   # poles, duplicates, antipodes
        lat = rng.choice([-90., 90., 0., 45., -45.], N)
        lon = rng.choice([0., 180., -180., 90., 360.], N)
    else:             # tightly clustered nodes (local links matter)
        lat = 10 + rng.uniform(-3, 3, N)
        lon = 20 + rng.uniform(-3, 3, N)
    return GeoGrid(np.arange(4.), lat, lon, silence_level=2)


def make_sim(rng, N, kind):
    if kind == 0:     # symmetric, signed
        S = rng.uniform(-1, 1, (N, N))
        S = (S + S.T) / 2
    elif kind == 1:   # asymmetric
        S = rng.uniform(-1, 1, (N, N))
    elif kind == 2:   # many ties
        S = np.round(rng.uniform(-1, 1, (N, N)), 1)
        S = np.maximum(S, S.T)
    elif kind == 3:   # integers
        S = rng.integers(-3, 4, (N, N))
    else:             # NaN / inf contaminated, fortran ordered
        S = np.asfortranarray(rng.normal(size=(N, N)))
        S[rng.integers(0, N), rng.integers(0, N)] = np.nan
        S[rng.integers(0, N), rng.integers(0, N)] = np.inf
    return S


DENS = [0.0, 1e-9, 0.05, 0.1, 0.25, 1 / 3., 0.5, 0.7, 0.9, 0.999, 1.0,
        1.2, 2.5, -0.1, -1.0]
THRS = [0.0, 0.1, 0.3, 0.5, 0.55, np.float32(0.7), 0.9, 1.0, 2.0, -1.0, 1,
        np.nan]

case = 0
for seed in range(6):
    rng = np.random.default_rng(1000 + seed)
    for N in (2, 3, 5, 9, 17):
        gk = (seed + N) % 3
        sk = (seed * 7 + N) % 5
        grid = make_grid(rng, N, gk)
        feed(f"c{case}:angdist", grid.angular_distance())
        S = make_sim(rng, N, sk)
        S_before = S.copy()
        directed = bool((seed + N) % 2)
        non_local = bool((seed // 2 + N) % 2)
        tag = f"c{case}"
        case += 1

        # construction by threshold / by density / neither
        net = ClimateNetwork(grid, S, threshold=0.4, non_local=non_local,
                             directed=directed, silence_level=2)
        state(tag + ":t", net)
        netd = attempt(tag + ":ctor_ld", lambda: ClimateNetwork(
            grid, S, link_density=0.3, non_local=non_local,
            directed=directed, silence_level=2))
        if netd is not None:
            state(tag + ":d", netd)
        # threshold takes precedence over density
        netb = ClimateNetwork(grid, S, threshold=0.2, link_density=0.9,
                              non_local=not non_local, directed=directed,
                              node_weight_type=None, silence_level=2)
        state(tag + ":b", netb)

        # pure queries
        for ld in DENS:
            attempt(tag + f":tfld{ld}",
                    lambda: net.threshold_from_link_density(ld))
        for th in THRS:
            attempt(tag + f":cta{th}",
                    lambda: net._calculate_threshold_adjacency(
                        net.similarity_measure(), th))
            attempt(tag + f":cnla{th}",
                    lambda: net._calculate_non_local_adjacency(
                        net.similarity_measure(), th))
            attempt(tag + f":cnla2{th}",
                    lambda: net._calculate_non_local_adjacency(
                        similarity_measure=net.similarity_measure(),
                        threshold=th, a=30, d_min=0.2))
            attempt(tag + f":cnla3{th}",
                    lambda: net._calculate_non_local_adjacency(
                        net.similarity_measure(), th, 3.5, d_min=1.0))
        # float64 / non-square / mismatching input to the helpers
        attempt(tag + ":cta64", lambda: net._calculate_threshold_adjacency(
            S_before.astype("float64"), 0.25))
        attempt(tag + ":cta_rect", lambda: net._calculate_threshold_adjacency(
            np.ones((N, N + 1)), 0.25))
        attempt(tag + ":cta_vecthr",
                lambda: net._calculate_threshold_adjacency(
                    net.similarity_measure(), np.linspace(0, 1, N)))
        attempt(tag + ":cnla_rect",
                lambda: net._calculate_non_local_adjacency(
                    np.ones((N + 1, N + 1)), 0.25))
        attempt(tag + ":cta_none", lambda: net._calculate_threshold_adjacency(
            net.similarity_measure(), None))
        state(tag + ":after_queries", net)

        # mutation sequences
        for k, th in enumerate(THRS):
            attempt(tag + f":set_thr{k}", lambda: net.set_threshold(th))
            state(tag + f":st{k}", net)
            if k % 4 == 1:
                net.set_non_local(not net.non_local())
                state(tag + f":snl{k}", net)
            if k % 4 == 2:
                net.set_non_local(net.non_local())
                state(tag + f":snl_same{k}", net)
        for k, ld in enumerate(DENS):
            attempt(tag + f":set_ld{k}", lambda: net.set_link_density(ld))
            state(tag + f":sld{k}", net)
            if k % 5 == 3:
                net.set_non_local(not net.non_local())
                state(tag + f":snl_d{k}", net)
        attempt(tag + ":regen", net._regenerate_network)
        state(tag + ":regen_state", net)
        attempt(tag + ":ldf", lambda: net.link_density_function(4)[0])
        feed(tag + ":cd", net.correlation_distance())
        feed(tag + ":input_untouched", np.array_equal(S, S_before,
                                                     equal_nan=True))
        # returned adjacency must not alias similarity / be fresh each call
        A1 = net._calculate_threshold_adjacency(net.similarity_measure(), .3)
        A2 = net._calculate_threshold_adjacency(net.similarity_measure(), .3)
        feed(tag + ":fresh", (A1 is A2, np.shares_memory(A1, A2),
                              A1.flags.c_contiguous, A1.flags.writeable,
                              A1.flags.owndata))
        thr = net.threshold_from_link_density(0.5)
        feed(tag + ":thr_type", (type(thr).__name__, str(thr.dtype)))

# similarity matrix deleted -> documented AttributeError
net = ClimateNetwork.SmallTestNetwork()
del net._similarity_measure
attempt("del:set_thr", lambda: net.set_threshold(0.3))
attempt("del:tfld", lambda: net.threshold_from_link_density(0.3))
attempt("del:set_ld", lambda: net.set_link_density(0.3))
feed("del:thr", net.threshold())
feed("del:A", net.adjacency)

# verbose output is part of the behaviour
buf = io.StringIO()
with contextlib.redirect_stdout(buf):
    net = ClimateNetwork(GeoGrid.SmallTestGrid(),
                         ClimateNetwork.SmallTestNetwork()
                         .similarity_measure(), link_density=0.4,
                         non_local=True, silence_level=0)
    net.set_threshold(0.6)
    net.set_non_local(False)
    net.set_link_density(0.2)
    print(net)
    try:
        ClimateNetwork(GeoGrid.SmallTestGrid(), np.eye(6), silence_level=2)
    except Exception as e:  # pylint: disable=broad-except
        print(type(e).__name__)
feed("stdout", buf.getvalue())

# documented small networks
net = ClimateNetwork.SmallTestNetwork()
state("small", net)
for ld in np.linspace(0, 1, 31):
    net.set_link_density(ld)
    state(f"small_ld{ld}", net)
tn = TsonisClimateNetwork.SmallTestNetwork()
state("tsonis", tn)
tn.set_link_density(0.35)
state("tsonis_ld", tn)
tn.set_non_local(True)
state("tsonis_nl", tn)

# larger regular grid for the angular distance kernel
g = GeoGrid.RegularGrid(np.arange(2.), (np.linspace(-90, 90, 13),
                                        np.linspace(-180, 180, 11)),
                        silence_level=2)
feed("reg:angdist", g.angular_distance())
rng = np.random.default_rng(7)
S = rng.uniform(-1, 1, (g.N, g.N))
S = (S + S.T) / 2
net = ClimateNetwork(g, S, link_density=0.03, non_local=True,
                     silence_level=2)
state("reg", net)

print(H.hexdigest())
