"""Equivalence digest for twin 1 (compiled distance / embedding / adaptive
kernels of pyunicorn.timeseries._ext.numerics)."""
import hashlib
import io
import contextlib

import numpy as np

from pyunicorn.timeseries._ext import numerics as K
from pyunicorn.timeseries import RecurrencePlot, CrossRecurrencePlot, \
    RecurrenceNetwork

H = hashlib.sha256()


def feed(tag, obj):
    H.update(repr(tag).encode())
    if isinstance(obj, np.ndarray):
        H.update(str(obj.dtype).encode())
        H.update(repr(obj.shape).encode())
        H.update(repr((obj.flags.c_contiguous, obj.flags.f_contiguous))
                 .encode())
        H.update(np.ascontiguousarray(obj).tobytes())
    else:
        H.update(repr(obj).encode())


def attempt(tag, fun, *args, **kw):
    try:
        with contextlib.redirect_stdout(io.StringIO()):
            res = fun(*args, **kw)
    except Exception as exc:  # pylint: disable=broad-except
        feed(tag, ("EXC", type(exc).__name__, str(exc)))
        return None
    feed(tag, res)
    return res


RP = (K._manhattan_distance_matrix_rp, K._euclidean_distance_matrix_rp,
      K._supremum_distance_matrix_rp)
CRP = (K._manhattan_distance_matrix_crp, K._euclidean_distance_matrix_crp,
       K._supremum_distance_matrix_crp)

rng = np.random.RandomState(20260907)


def specials(a, frac=0.08):
    a = a.copy()
    m = rng.rand(*a.shape)
    a[m < frac] = np.nan
    a[(m >= frac) & (m < 1.5 * frac)] = np.inf
    a[(m >= 1.5 * frac) & (m < 2 * frac)] = -np.inf
    a[(m >= 2 * frac) & (m < 2.5 * frac)] = -0.0
    return a


# --- rp kernels -------------------------------------------------------------
for n_time, dim in [(0, 0), (0, 3), (1, 1), (1, 4), (2, 1), (3, 0), (5, 2),
                    (17, 3), (40, 1), (33, 7)]:
    base = rng.randn(n_time, dim) * 10.0 ** rng.randint(-3, 4)
    for variant, emb in (("plain", base), ("special", specials(base)),
                         ("ties", np.round(base))):
        for kern in RP:
            attempt(("rp", kern.__name__, n_time, dim, variant),
                    kern, n_time, dim, emb)
    # strided / Fortran-ordered input buffers
    wide = rng.randn(2 * n_time + 1, 2 * dim + 1)
    for kern in RP:
        attempt(("rp-strided", kern.__name__, n_time, dim),
                kern, n_time, dim, wide[::2, ::2][:n_time, :dim])
        attempt(("rp-fortran", kern.__name__, n_time, dim),
                kern, n_time, dim, np.asfortranarray(base))

# inconsistent size arguments, wrong dtypes, None
emb = rng.randn(6, 3)
for kern in RP:
    for n_time, dim in [(7, 3), (6, 4), (9, 9), (4, 2), (-1, 3), (6, -2),
                        (1, 5), (2, 5)]:
        attempt(("rp-bad", kern.__name__, n_time, dim), kern, n_time, dim,
                emb)
    attempt(("rp-f32", kern.__name__), kern, 6, 3, emb.astype("float32"))
    attempt(("rp-none", kern.__name__), kern, 6, 3, None)
    attempt(("rp-1d", kern.__name__), kern, 6, 3, emb.ravel())

# --- crp kernels ------------------------------------------------------------
for nx, ny, dim in [(0, 0, 0), (0, 4, 2), (3, 0, 2), (1, 1, 1), (4, 6, 0),
                    (5, 3, 2), (12, 19, 4), (25, 8, 1), (9, 9, 6)]:
    x = rng.randn(nx, dim) * 3
    y = rng.randn(ny, dim) * 3
    for variant, (xx, yy) in (("plain", (x, y)),
                              ("special", (specials(x), specials(y))),
                              ("ties", (np.round(x), np.round(y)))):
        for kern in CRP:
            attempt(("crp", kern.__name__, nx, ny, dim, variant),
                    kern, nx, ny, dim, xx, yy)
x = rng.randn(5, 3)
y = rng.randn(7, 3)
for kern in CRP:
    for nx, ny, dim in [(6, 7, 3), (5, 8, 3), (5, 7, 4), (9, 9, 9),
                        (-1, 7, 3), (5, -1, 3), (5, 7, -1), (3, 2, 1)]:
        attempt(("crp-bad", kern.__name__, nx, ny, dim), kern, nx, ny, dim,
                x, y)
    attempt(("crp-y2", kern.__name__), kern, 5, 7, 3, x, rng.randn(7, 2))
    attempt(("crp-fortran", kern.__name__), kern, 5, 7, 3,
            np.asfortranarray(x), y)
    attempt(("crp-none", kern.__name__), kern, 5, 7, 3, x, None)
    attempt(("crp-f32", kern.__name__), kern, 5, 7, 3, x.astype("float32"),
            y)

# --- embedding kernels ------------------------------------------------------
for n_time, dim, tau in [(10, 1, 1), (10, 3, 2), (10, 4, 3), (10, 5, 3),
                         (30, 3, 7), (7, 2, 0), (5, 0, 1), (6, 3, -1),
                         (1, 1, 5)]:
    ts = rng.randn(n_time).astype("float32")
    length = n_time - (dim - 1) * tau
    if length >= 0 and dim >= 0:
        out = np.full((length, dim), -7.0, dtype="float32")
        attempt(("embed", n_time, dim, tau), K._embed_time_series,
                n_time, dim, tau, ts, out)
        feed(("embed-out", n_time, dim, tau), out)
    attempt(("embed-api", n_time, dim, tau),
            RecurrencePlot.embed_time_series, ts, dim, tau)
    # too small output buffers
    out = np.full((max(length - 1, 0), max(dim, 0)), -7.0, dtype="float32")
    attempt(("embed-small", n_time, dim, tau), K._embed_time_series,
            n_time, dim, tau, ts, out)
    feed(("embed-small-out", n_time, dim, tau), out)
    arr = rng.randn(3, n_time)
    if length >= 0 and dim >= 0:
        out3 = np.full((3, length, dim), -7.0)
        attempt(("embed-arr", n_time, dim, tau), K._embed_time_series_array,
                3, n_time, dim, tau, arr, out3)
        feed(("embed-arr-out", n_time, dim, tau), out3)

# --- adaptive neighbourhood kernel -----------------------------------------
for n_time, size in [(1, 0), (2, 1), (6, 0), (6, 1), (6, 3), (6, 5), (6, 6),
                     (15, 4), (15, 14), (15, 20), (30, 7)]:
    dist = rng.rand(n_time, n_time)
    dist = dist + dist.T
    np.fill_diagonal(dist, 0)
    sn = dist.argsort(axis=1).astype("int32")
    for oname, order in (("id", np.arange(n_time)),
                         ("rev", np.arange(n_time)[::-1]),
                         ("perm", rng.permutation(n_time)),
                         ("rep", rng.randint(n_time, size=n_time))):
        rec = np.zeros((n_time, n_time), dtype="int8")
        attempt(("adaptive", n_time, size, oname),
                K._set_adaptive_neighborhood_size, n_time, size, sn,
                np.ascontiguousarray(order).astype("int32"), rec)
        feed(("adaptive-out", n_time, size, oname), rec)
    # non-square recurrence buffer, out-of-range neighbour indices
    rec = np.zeros((n_time, max(n_time - 1, 1)), dtype="int8")
    attempt(("adaptive-rect", n_time, size),
            K._set_adaptive_neighborhood_size, n_time, size, sn,
            np.arange(n_time, dtype="int32"), rec)
    feed(("adaptive-rect-out", n_time, size), rec)
    rec = np.zeros((max(n_time - 1, 1), n_time), dtype="int8")
    attempt(("adaptive-rect2", n_time, size),
            K._set_adaptive_neighborhood_size, n_time, size, sn,
            np.arange(n_time, dtype="int32"), rec)
    feed(("adaptive-rect2-out", n_time, size), rec)
    rec = np.zeros((n_time, n_time), dtype="int8")
    attempt(("adaptive-neg", n_time, size),
            K._set_adaptive_neighborhood_size, n_time, size, sn - 1,
            np.arange(n_time, dtype="int32"), rec)
    feed(("adaptive-neg-out", n_time, size), rec)

# --- library level ----------------------------------------------------------
for seed in range(4):
    r = np.random.RandomState(seed)
    ts = r.randn(60 + 7 * seed, 1 + seed % 3)
    ts_nan = ts.copy()
    ts_nan[r.randint(len(ts), size=5), 0] = np.nan
    other = r.randn(45, 1 + seed % 3)
    for metric in ("manhattan", "euclidean", "supremum"):
        for kw in ({"threshold": 0.8}, {"recurrence_rate": 0.15},
                   {"local_recurrence_rate": 0.1},
                   {"adaptive_neighborhood_size": 5},
                   {"threshold_std": 0.5}):
            for mv, series in ((False, ts), (True, ts_nan)):
                tag = ("RP", seed, metric, sorted(kw.items()), mv)
                rp = RecurrencePlot(series, metric=metric, missing_values=mv,
                                    silence_level=2, **kw)
                feed(tag + ("R",), rp.R)
                feed(tag + ("D",), rp.distance_matrix(metric))
        if ts.shape[1] == 1:
            rp = RecurrencePlot(ts[:, 0], metric=metric, dim=3, tau=2,
                                recurrence_rate=0.1, silence_level=2)
            feed(("RP-emb", seed, metric), rp.R)
            feed(("RP-emb-e", seed, metric), rp.embedding)
        crp = CrossRecurrencePlot(ts, other, metric=metric, threshold=1.1,
                                  silence_level=2)
        feed(("CRP", seed, metric), crp.recurrence_matrix())
        crp = CrossRecurrencePlot(ts, other, metric=metric,
                                  recurrence_rate=0.2, silence_level=2)
        feed(("CRP-rr", seed, metric), crp.recurrence_matrix())
        rn = RecurrenceNetwork(ts, metric=metric, recurrence_rate=0.1,
                               silence_level=2)
        feed(("RN", seed, metric), rn.adjacency)

print(H.hexdigest())
