"""Equivalence digest for twin_2 (timeseries/_ext/src_numerics.c).

Run as:  PYTHONPATH=<worktree>/src /venv/bin/python equiv.py
"""
import hashlib
import warnings

import numpy as np

from pyunicorn.timeseries._ext.numerics import \
    _test_pearson_correlation, _test_mutual_information
from pyunicorn.timeseries.surrogates import Surrogates
from pyunicorn.core._ext.types import to_cy, DFIELD

warnings.simplefilter("ignore")
h = hashlib.sha256()


def feed(tag, obj):
    h.update(tag.encode())
    if isinstance(obj, np.ndarray):
        h.update(str(obj.dtype).encode())
        h.update(repr(obj.shape).encode())
        h.update(np.ascontiguousarray(obj).tobytes())
    else:
        h.update(repr(obj).encode())


def call(tag, fn, *args, **kwargs):
    try:
        feed(tag, fn(*args, **kwargs))
    except Exception as exc:  # pylint: disable=broad-except
        feed(tag, "EXC:" + type(exc).__name__)


rng = np.random.RandomState(2020)


def make(N, n_time, kind):
    if kind == "normal":
        a = rng.randn(N, n_time)
        b = rng.randn(N, n_time)
    elif kind == "ties":
        a = rng.randint(0, 3, size=(N, n_time)).astype(float)
        b = rng.randint(0, 3, size=(N, n_time)).astype(float)
    elif kind == "const":
        a = np.ones((N, n_time))
        b = np.ones((N, n_time))
    elif kind == "nan":
        a = rng.randn(N, n_time)
        b = rng.randn(N, n_time)
        if a.size:
            a.flat[rng.randint(a.size)] = np.nan
    elif kind == "inf":
        a = rng.randn(N, n_time)
        b = rng.randn(N, n_time)
        if a.size > 1:
            a.flat[0] = np.inf
            b.flat[-1] = -np.inf
    elif kind == "huge":
        a = rng.randn(N, n_time) * 1e308
        b = rng.randn(N, n_time) * 1e308
    else:
        raise AssertionError(kind)
    return a, b


shapes = [(0, 0), (0, 5), (5, 0), (1, 1), (1, 7), (2, 1), (2, 2), (3, 10),
          (7, 4), (12, 3), (5, 64), (9, 33)]
kinds = ["normal", "ties", "const", "nan", "inf", "huge"]

# 1) direct kernel-wrapper calls
for (N, n_time) in shapes:
    for kind in kinds:
        a, b = make(N, n_time, kind)
        ac, bc = to_cy(a, DFIELD), to_cy(b, DFIELD)
        a0, b0 = ac.copy(), bc.copy()
        call(f"p/{N}/{n_time}/{kind}", _test_pearson_correlation,
             ac, bc, N, n_time)
        for n_bins in (-1, 0, 1, 2, 3, 8, 32, 50):
            call(f"mi/{N}/{n_time}/{kind}/{n_bins}",
                 _test_mutual_information, ac, bc, N, n_time, n_bins)
        # inputs must be left untouched (bitwise, NaN-safe)
        assert ac.tobytes() == a0.tobytes() and bc.tobytes() == b0.tobytes()

# 2) the public static methods (shape check + conversion), several dtypes
for (N, n_time) in shapes:
    for kind in ("normal", "ties"):
        a, b = make(N, n_time, kind)
        for dt in (np.float64, np.float32):
            call(f"Sp/{N}/{n_time}/{kind}/{dt.__name__}",
                 Surrogates.test_pearson_correlation,
                 a.astype(dt), b.astype(dt))
            call(f"Smi/{N}/{n_time}/{kind}/{dt.__name__}",
                 Surrogates.test_mutual_information,
                 a.astype(dt), b.astype(dt))
            call(f"Smi5/{N}/{n_time}/{kind}/{dt.__name__}",
                 Surrogates.test_mutual_information,
                 a.astype(dt), b.astype(dt), n_bins=5)

# 3) error paths
call("err/shape", Surrogates.test_pearson_correlation,
     np.zeros((3, 4)), np.zeros((4, 3)))
call("err/shape-mi", Surrogates.test_mutual_information,
     np.zeros((3, 4)), np.zeros((4, 3)))
call("err/none", _test_pearson_correlation, None, np.zeros((2, 2)), 2, 2)
call("err/none-mi", _test_mutual_information, np.zeros((2, 2)), None, 2, 2, 4)
call("err/dtype", _test_pearson_correlation,
     np.zeros((2, 2), np.float32), np.zeros((2, 2)), 2, 2)
call("err/fortran", _test_mutual_information,
     np.asfortranarray(rng.randn(3, 4)), rng.randn(3, 4), 3, 4, 4)
call("err/negN", _test_pearson_correlation,
     np.zeros((2, 2)), np.zeros((2, 2)), -1, 2)
call("err/n_time0", _test_pearson_correlation,
     np.zeros((2, 0)), np.zeros((2, 0)), 2, 0)

print(h.hexdigest())
