"""Equivalence digest for twin 1 (network.py: save-and-restore of cached
path lengths in average_path_length / closeness / global_efficiency)."""
import hashlib
import io
import contextlib
import numpy as np
from pyunicorn.core.network import Network

H = hashlib.sha256()


def put(tag, obj):
    H.update(tag.encode())
    if isinstance(obj, np.ndarray):
        H.update(str(obj.dtype).encode() + str(obj.shape).encode())
        H.update(np.ascontiguousarray(obj).tobytes())
    else:
        H.update(repr(obj).encode())


def call(tag, f, *a, **k):
    buf = io.StringIO()
    try:
        with contextlib.redirect_stdout(buf), np.errstate(all="ignore"):
            res = f(*a, **k)
        if isinstance(res, (float, np.floating)):
            res = np.asarray(res, dtype=float)
        put(tag, res)
    except BaseException as e:  # noqa
        put(tag, "EXC:" + type(e).__name__ + ":" + str(e))
    put(tag + ":out", buf.getvalue())


def make(seed, n, p, directed, silence):
    rng = np.random.RandomState(seed)
    A = (rng.rand(n, n) < p).astype(int)
    np.fill_diagonal(A, 0)
    if not directed:
        A = np.triu(A, 1)
        A = A + A.T
    net = Network(adjacency=A, directed=directed, silence_level=silence)
    W = rng.rand(n, n) * 3
    if rng.rand() < 0.5:
        W[rng.rand(n, n) < 0.2] = 0.0   # zero length links
    if not directed:
        W = np.triu(W, 1)
        W = W + W.T
    net.set_link_attribute("w", W * A)
    return net


cases = [(s, n, p, d, sl)
         for s, (n, p) in enumerate([(2, 0.0), (2, 1.0), (3, 0.5), (6, 0.2),
                                     (9, 0.15), (12, 0.3), (15, 0.08),
                                     (20, 0.12), (25, 0.5), (1, 0.0)])
         for d in (False, True) for sl in (0, 2)]

for (s, n, p, d, sl) in cases:
    tag = f"{s}-{n}-{p}-{d}-{sl}"
    try:
        net = make(s, n, p, d, sl)
    except BaseException as e:  # noqa
        put(tag, "MAKE-EXC:" + type(e).__name__)
        continue
    for attr in (None, "w", "topological", "missing"):
        t = f"{tag}|{attr}"
        # interleave the queries in different orders and repeat them; the
        # cached matrix must be left untouched by every one of them
        call(t + "pl0", net.path_lengths, None if attr == "topological"
             else attr)
        call(t + "apl", net.average_path_length, attr)
        call(t + "pl1", net.path_lengths, None if attr == "topological"
             else attr)
        call(t + "cc", net.closeness, attr)
        call(t + "pl2", net.path_lengths, None if attr == "topological"
             else attr)
        call(t + "ge", net.global_efficiency, attr)
        call(t + "pl3", net.path_lengths, None if attr == "topological"
             else attr)
        call(t + "ge2", net.global_efficiency, attr)
        call(t + "cc2", net.closeness, attr)
        call(t + "apl2", net.average_path_length, attr)
        call(t + "diam", net.diameter)
        call(t + "nsiapl", net.nsi_average_path_length)
        call(t + "nsicc", net.nsi_closeness)
        call(t + "nsige", net.nsi_global_efficiency)
    # object identity of the memoised matrix is preserved
    call(tag + "id", lambda: bool(
        net.path_lengths("w") is net.path_lengths("w")))

# small test network with its documented attribute
net = Network.SmallTestNetwork()
net.silence_level = 2
for attr in (None, "topological"):
    call("stn-apl", net.average_path_length, attr)
    call("stn-cc", net.closeness, attr)
    call("stn-ge", net.global_efficiency, attr)
    call("stn-pl", net.path_lengths, attr)

print(H.hexdigest())
