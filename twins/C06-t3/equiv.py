"""Equivalence digest for twin_3: mutual information at zero lag
(climate/_ext/src_numerics.c:_mutual_information and its Python wrapper
MutualInfoClimateNetwork._cython_calculate_mutual_information)."""
import hashlib
import io
import os
import tempfile
import contextlib
import warnings

import numpy as np

from pyunicorn.core._ext.types import FIELD, to_cy
from pyunicorn.climate._ext.numerics import mutual_information
from pyunicorn.climate import ClimateData, MutualInfoClimateNetwork

warnings.simplefilter("ignore")
os.chdir(tempfile.mkdtemp(prefix="twc06_"))
H = hashlib.sha256()


def feed(tag, value):
    H.update(tag.encode())
    if isinstance(value, BaseException):
        H.update(("EXC:" + type(value).__name__).encode())
        return
    if not isinstance(value, (np.ndarray, np.generic, int, float, list)):
        H.update(("OBJ:" + type(value).__name__).encode())
        return
    a = np.asarray(value)
    H.update(str(a.dtype).encode())
    H.update(str(a.shape).encode())
    H.update(np.ascontiguousarray(a).tobytes())


def call(tag, f, *args, **kwargs):
    out = io.StringIO()
    try:
        with contextlib.redirect_stdout(out):
            res = f(*args, **kwargs)
    except Exception as e:  # pylint: disable=broad-except
        res = e
    feed(tag, res)
    H.update(out.getvalue().encode())
    return res


rng = np.random.default_rng(606)

# --- the compiled kernel directly -------------------------------------------
for N in (1, 2, 3, 7, 20):
    for n_samples in (1, 2, 5, 33, 200):
        for kind in ("normal", "uniform", "const", "ties", "heavy"):
            if kind == "normal":
                x = rng.standard_normal((N, n_samples))
            elif kind == "uniform":
                x = rng.random((N, n_samples))
            elif kind == "const":
                x = np.zeros((N, n_samples))
                x[0, 0] = 1.
            elif kind == "ties":
                x = rng.integers(0, 4, (N, n_samples)).astype(float)
            else:
                x = rng.standard_cauchy((N, n_samples))
            x = to_cy(x, FIELD)
            lo, hi = float(x.min()), float(x.max())
            scaling = 1. / (hi - lo) if hi > lo else 1.
            for n_bins in (1, 2, 5, 32, 64):
                keep = x.copy()
                t = f"k/{N}/{n_samples}/{kind}/{n_bins}"
                call(t, mutual_information, x, n_samples, N, n_bins,
                     scaling, lo)
                #  the input must not have been touched
                feed(t + "/in", x)
                assert np.array_equal(x, keep)
                #  repeated query
                call(t + "/again", mutual_information, x, n_samples, N,
                     n_bins, scaling, lo)

#  error behaviour of the wrapper
x = to_cy(rng.random((3, 10)), FIELD)
call("err/bins0", mutual_information, x, 10, 3, 0, 1., 0.)
call("err/bins-1", mutual_information, x, 10, 3, -1, 1., 0.)
call("err/none", mutual_information, None, 10, 3, 4, 1., 0.)
call("err/f64", mutual_information, x.astype(float), 10, 3, 4, 1., 0.)
call("err/fortran", mutual_information, np.asfortranarray(x), 10, 3, 4,
     1., 0.)
call("err/1d", mutual_information, x.ravel(), 10, 3, 4, 1., 0.)

# --- through the network class ----------------------------------------------
cd = ClimateData.SmallTestData()
for winter_only in (False, True):
    for silence in (2, 0):
        t = f"net/{winter_only}/{silence}"
        a0 = cd.anomaly().copy()
        net = call(t + "/init", MutualInfoClimateNetwork, cd,
                   threshold=0.2, winter_only=winter_only,
                   silence_level=silence)
        if isinstance(net, BaseException):
            continue
        call(t + "/sim", net.similarity_measure)
        call(t + "/adj", lambda: net.adjacency)
        for n_bins in (2, 8, 32):
            for trial in range(3):
                own = rng.standard_normal((12 + trial, net.N))
                own[:, 0] = 1.5              # zero variance column
                keep = own.copy()
                call(f"{t}/own/{n_bins}/{trial}",
                     net._cython_calculate_mutual_information, own,
                     n_bins=n_bins)
                feed(f"{t}/own/{n_bins}/{trial}/in", own)
                assert np.array_equal(own, keep)
        call(t + "/calc", net.calculate_similarity_measure, cd.anomaly())
        call(t + "/calcT", net.calculate_similarity_measure,
             np.asfortranarray(cd.anomaly()))
        call(t + "/calc32", net.calculate_similarity_measure,
             cd.anomaly().astype(np.float32))
        call(t + "/bad", net._cython_calculate_mutual_information,
             cd.anomaly(), n_bins=0)
        call(t + "/bad1d", net._cython_calculate_mutual_information,
             cd.anomaly()[0])
        call(t + "/badlist", net._cython_calculate_mutual_information,
             [[1., 2.], [3., 4.]])
        #  shared data object is untouched
        feed(t + "/anomaly", cd.anomaly())
        assert np.array_equal(a0, cd.anomaly())

print(H.hexdigest())
