"""Digest of the weighted BFS (Newman 2001) betweenness kernel."""
import hashlib
import io
import contextlib

import numpy as np

from pyunicorn.core.network import Network
from pyunicorn.core._ext.types import to_cy, NODE, DEGREE, DWEIGHT, MASK
from pyunicorn.core._ext.numerics import _nsi_betweenness

h = hashlib.sha256()


def put(tag, val):
    h.update(tag.encode())
    if isinstance(val, np.ndarray):
        h.update(str(val.dtype).encode())
        h.update(str(val.shape).encode())
        h.update(np.ascontiguousarray(val).tobytes())
    else:
        h.update(repr(val).encode())


def sym(rng, n, p):
    a = (rng.random((n, n)) < p).astype(np.int8)
    a = np.triu(a, 1)
    return a + a.T


rng = np.random.default_rng(977)
out = io.StringIO()
with contextlib.redirect_stdout(out), np.errstate(all="ignore"):
    g = 0
    for n in (2, 3, 4, 5, 7, 10, 16, 25, 40):
        for p in (0.0, 0.08, 0.2, 0.45, 0.8, 1.0):
            g += 1
            A = sym(rng, n, p)
            w = rng.random(n) + 0.1
            net = Network(adjacency=A, directed=False, node_weights=w,
                          silence_level=2)
            put(f"g{g}nsi", net.nsi_betweenness())
            put(f"g{g}plain", net.nsi_betweenness(nsi=False))
            src = rng.choice(n, size=max(1, n // 3), replace=False)
            tgt = rng.choice(n, size=max(1, n // 2), replace=False)
            put(f"g{g}st", net.nsi_betweenness(sources=src, targets=tgt))
            put(f"g{g}ir", net.nsi_interregional_betweenness(
                sources=list(src), targets=list(tgt)))
            put(f"g{g}rep", net.nsi_betweenness(
                targets=[int(tgt[0]), int(tgt[0])]))
            # unit weights: relation to the unweighted measure
            net1 = Network(adjacency=A, directed=False, silence_level=2)
            put(f"g{g}unit", net1.nsi_betweenness())
    net = Network.SmallTestNetwork()
    put("small", net.nsi_betweenness())
    put("split", net.splitted_copy().nsi_betweenness())

    # direct kernel calls
    for trial in range(40):
        n = int(rng.integers(1, 20))
        A = sym(rng, n, float(rng.random()))
        k = to_cy(A.sum(axis=1), DEGREE)
        flat = to_cy(np.array(np.nonzero(A)).T[:, 1], NODE) \
            if A.sum() else np.zeros(0, dtype=NODE)
        w = to_cy(rng.random(n) + 0.05, DWEIGHT)
        is_source = to_cy(rng.integers(0, 2, size=n), MASK)
        targets = to_cy(rng.integers(0, n, size=int(rng.integers(0, n + 2))),
                        NODE)
        try:
            put(f"k{trial}",
                _nsi_betweenness(n, w, k, flat, is_source, targets))
        except Exception as e:  # pylint: disable=broad-except
            put(f"k{trial}", type(e).__name__ + str(e))
    # inconsistent inputs must fail in the same way
    bad = [
        (3, np.ones(3), np.array([1, 1, 0], dtype=DEGREE),
         np.array([1, 0], dtype=NODE), np.ones(3, dtype=MASK),
         np.array([5], dtype=NODE)),
        (3, np.ones(3), np.array([2, 2, 2], dtype=DEGREE),
         np.array([1, 2, 0], dtype=NODE), np.ones(3, dtype=MASK),
         np.array([0, 1, 2], dtype=NODE)),
        (3, np.ones(3), np.array([1, 1, 0], dtype=DEGREE),
         np.array([1, 7], dtype=NODE), np.ones(3, dtype=MASK),
         np.array([0], dtype=NODE)),
        (0, np.ones(0), np.zeros(0, dtype=DEGREE),
         np.zeros(0, dtype=NODE), np.zeros(0, dtype=MASK),
         np.zeros(0, dtype=NODE)),
        (0, np.ones(0), np.zeros(0, dtype=DEGREE),
         np.zeros(0, dtype=NODE), np.zeros(0, dtype=MASK),
         np.array([0], dtype=NODE)),
    ]
    for b, args in enumerate(bad):
        try:
            put(f"bad{b}", _nsi_betweenness(*args))
        except Exception as e:  # pylint: disable=broad-except
            put(f"bad{b}", type(e).__name__ + str(e))
put("stdout", out.getvalue())
print(h.hexdigest())
