"""Equivalence digest for GeoNetwork.set_node_weight_type."""
import contextlib
import hashlib
import io
import numpy as np
from pyunicorn.core.geo_grid import GeoGrid
from pyunicorn.core.geo_network import GeoNetwork

h = hashlib.sha256()


def feed(tag, arr):
    arr = np.ascontiguousarray(arr)
    h.update(tag.encode())
    h.update(str(arr.dtype).encode())
    h.update(str(arr.shape).encode())
    h.update(arr.tobytes())


def state(tag, net):
    feed(tag + "-nw", net.node_weights)
    nwt = net.node_weight_type
    h.update(repr((type(nwt).__name__,
                   nwt if isinstance(nwt, (str, type(None), int)) else
                   np.asarray(nwt, dtype=object).tolist()
                   if not hasattr(nwt, "tag") else nwt.tag,
                   net._mut_nw, net._mut_A, net._mut_la,
                   float(net.total_node_weight), float(net.mean_node_weight),
                   net.node_weights is net.grid.cos_lat())).encode())


def captured(tag, fn):
    buf = io.StringIO()
    try:
        with contextlib.redirect_stdout(buf):
            res = fn()
        h.update((tag + ":" + repr(res)).encode())
    except BaseException as e:
        h.update((tag + ":" + type(e).__name__).encode())
    h.update(buf.getvalue().encode())


class Weird:
    """Node weight type with a custom, logged equality."""
    def __init__(self, tag, equal_to):
        self.tag, self.equal_to, self.log = tag, equal_to, []

    def __eq__(self, other):
        self.log.append(other)
        return other in self.equal_to

    __hash__ = None

    def __repr__(self):
        return f"Weird({self.tag})"


class Str(str):
    pass


rng = np.random.default_rng(31212)


def make(n, directed, nwt, silence):
    lat = rng.uniform(-90, 90, size=n)
    lon = rng.uniform(-180, 180, size=n)
    lat[0], lat[1] = 90., -90.
    grid = GeoGrid(np.arange(3.), lat, lon, silence_level=2)
    A = (rng.random((n, n)) < 0.4).astype(np.int8)
    np.fill_diagonal(A, 0)
    if not directed:
        A = np.triu(A, 1)
        A = A + A.T
    buf = io.StringIO()
    with contextlib.redirect_stdout(buf):
        net = GeoNetwork(grid, adjacency=A, directed=directed,
                         node_weight_type=nwt, silence_level=silence)
    h.update(buf.getvalue().encode())
    return net


TYPES = [None, "surface", "irrigation", "Surface", "", "surface ", b"surface",
         Str("surface"), Str("irrigation"), 0, 1.5, ("surface",), ["surface"],
         {"surface": 1}, np.str_("irrigation")]

k = 0
for n in (2, 6, 31):
    for directed in (False, True):
        for silence in (0, 1, 2):
            net = make(n, directed, TYPES[k % len(TYPES)], silence)
            state(f"init{k}", net)
            # sequences of switches on one live object, with n.s.i. measures
            # in between so that stale caches would be noticed
            for t in TYPES:
                k += 1
                captured(f"set{k}", lambda: net.set_node_weight_type(t))
                state(f"set{k}", net)
                feed(f"nsi{k}", net.nsi_degree())
                if k % 4 == 0:
                    captured(f"awc{k}", lambda: net.
                             area_weighted_connectivity().tolist())

# custom equality objects: which comparisons are made and in which order
net = make(7, False, None, 2)
for tag, eq in (("none", ()), ("surf", ("surface",)), ("irr", ("irrigation",)),
                ("both", ("surface", "irrigation"))):
    w = Weird(tag, eq)
    captured("weird-" + tag, lambda: net.set_node_weight_type(w))
    state("weird-" + tag, net)
    h.update(repr(w.log).encode())

# array valued types: ambiguous truth value
net = make(5, True, "surface", 1)
for tag, t in (("arr2", np.array(["surface", "irrigation"])),
               ("arr1", np.array(["surface"])),
               ("arr1b", np.array(["irrigation"])),
               ("arr0", np.array([], dtype=str))):
    captured("arr-" + tag, lambda: net.set_node_weight_type(t))
    feed("arr-" + tag + "-nw", net.node_weights)
    h.update(repr((type(net.node_weight_type).__name__, net._mut_nw,
                   float(net.total_node_weight))).encode())

# failing grid: state after the exception
net = make(5, False, "irrigation", 1)
good = net.grid
net.grid = None
for t in ("surface", "irrigation", None, "other"):
    captured(f"nogrid-{t}", lambda: net.set_node_weight_type(t))
    feed(f"nogrid-{t}-nw", net.node_weights)
    h.update(repr((net.node_weight_type, net._mut_nw,
                   float(net.total_node_weight))).encode())

# grid of the wrong size -> NetworkError from the setter
net.grid = GeoGrid(np.arange(2.), np.array([0., 10., 20.]),
                   np.array([0., 10., 20.]), silence_level=2)
for t in ("surface", "irrigation", None):
    captured(f"badgrid-{t}", lambda: net.set_node_weight_type(t))
    feed(f"badgrid-{t}-nw", net.node_weights)
    h.update(repr((net.node_weight_type, net._mut_nw,
                   float(net.total_node_weight))).encode())

net = GeoNetwork.SmallTestNetwork()
state("small", net)
print(h.hexdigest())
