"""
Equivalence digest for property C11 (cross/internal measures of interacting
networks).  Run as:  PYTHONPATH=<worktree>/src /venv/bin/python equiv.py
Prints one sha256 digest; it must be identical on the pristine and on the
refactored tree.
"""
import contextlib
import hashlib
import io
import warnings

import numpy as np

from pyunicorn.core.interacting_networks import InteractingNetworks
from pyunicorn.core._ext import numerics as cy
from pyunicorn.core._ext.types import to_cy, ADJ, NODE, DFIELD, DWEIGHT

warnings.simplefilter("ignore")
np.seterr(all="ignore")

H = hashlib.sha256()
COUNT = [0]
EXC = {}


def feed(tag, value):
    COUNT[0] += 1
    H.update(tag.encode())
    if isinstance(value, BaseException):
        H.update(b"EXC:" + type(value).__name__.encode())
        H.update(str(value).encode())
        EXC[type(value).__name__] = EXC.get(type(value).__name__, 0) + 1
        return
    a = np.asarray(value)
    H.update(str(a.dtype).encode() + str(a.shape).encode())
    if a.dtype == object:
        H.update(repr(value).encode())
    else:
        H.update(np.ascontiguousarray(a).tobytes())


def call(tag, fn, *args, **kw):
    try:
        res = fn(*args, **kw)
    except Exception as e:  # pylint: disable=broad-except
        res = e
    feed(tag, res)
    return res


def make_net(rng, N, p, directed, weighted_nodes=True):
    A = (rng.random((N, N)) < p).astype(np.int8)
    np.fill_diagonal(A, 0)
    if not directed:
        A = np.triu(A, 1)
        A = A + A.T
    nw = rng.uniform(0.2, 3.0, N) if weighted_nodes else None
    net = InteractingNetworks(adjacency=A, directed=directed,
                              node_weights=nw, silence_level=3)
    W = rng.uniform(0.5, 4.0, (N, N))
    if not directed:
        W = (W + W.T) / 2
    net.set_link_attribute("lw", W * A)
    return net


def groups(rng, N):
    """A spread of node-list pairs (plain python lists of ints)."""
    out = []
    perm = [int(x) for x in rng.permutation(N)]
    k = max(1, N // 3)
    out.append((sorted(perm[:k]), sorted(perm[k:])))          # disjoint cover
    out.append((perm[:k], perm[k:2 * k + 1]))                 # unsorted
    out.append((perm[k:], perm[:k]))                          # swapped
    out.append((list(range(N)), list(range(N))))              # whole / whole
    out.append((perm[:k + 2], perm[k:]))                      # overlapping
    out.append(([perm[0]], perm[1:]))                         # singleton
    out.append((perm[:2], [perm[2]]))                         # singleton 2nd
    return out


PAIR_METHODS = [
    "cross_adjacency", "cross_adjacency_sparse", "cross_path_lengths",
    "number_cross_links", "cross_link_density",
    "cross_global_clustering", "cross_global_clustering_sparse",
    "cross_transitivity", "cross_transitivity_sparse",
    "cross_average_path_length", "average_cross_closeness",
    "global_efficiency", "cross_degree", "cross_indegree", "cross_outdegree",
    "cross_local_clustering", "cross_local_clustering_sparse",
    "cross_closeness", "cross_betweenness", "local_efficiency",
    "nsi_cross_degree", "nsi_cross_mean_degree",
    "nsi_cross_local_clustering", "nsi_cross_closeness_centrality",
    "nsi_cross_global_clustering", "nsi_cross_betweenness",
    "nsi_cross_edge_density", "nsi_cross_transitivity",
    "nsi_cross_average_path_length",
]
PAIR_METHODS_LA = [
    "cross_path_lengths", "cross_average_path_length",
    "average_cross_closeness", "global_efficiency", "cross_degree",
    "cross_indegree", "cross_outdegree", "cross_closeness",
    "local_efficiency",
]
SINGLE_METHODS = [
    "internal_adjacency", "internal_path_lengths", "number_internal_links",
    "internal_link_density", "internal_global_clustering",
    "internal_average_path_length", "internal_degree", "internal_indegree",
    "internal_outdegree", "internal_closeness", "internal_betweenness",
    "nsi_internal_degree", "nsi_internal_closeness_centrality",
    "nsi_internal_local_clustering",
]
SINGLE_METHODS_LA = [
    "internal_path_lengths", "internal_average_path_length",
    "internal_degree", "internal_indegree", "internal_outdegree",
    "internal_closeness",
]


def exercise(net, tag, pairs):
    for gi, (l1, l2) in enumerate(pairs):
        t = "%s/g%d/" % (tag, gi)
        for m in PAIR_METHODS:
            if hasattr(net, m):
                call(t + m, getattr(net, m), list(l1), list(l2))
        for m in PAIR_METHODS_LA:
            call(t + m + "/lw", getattr(net, m), list(l1), list(l2), "lw")
        call(t + "cross_link_attribute", net.cross_link_attribute, "lw",
             list(l1), list(l2))
        for m in SINGLE_METHODS:
            if hasattr(net, m):
                call(t + m, getattr(net, m), list(l1))
        for m in SINGLE_METHODS_LA:
            call(t + m + "/lw", getattr(net, m), list(l1), "lw")
        call(t + "internal_link_attribute", net.internal_link_attribute,
             "lw", list(l1))
        # repeated call sequence: cached path lengths must not be damaged
        call(t + "pl_again", net.path_lengths)
        call(t + "pl_again_lw", net.path_lengths, "lw")
        call(t + "adj_again", lambda: net.adjacency)


def odd_inputs(net, tag):
    N = net.N
    odd = [
        ([], [0, 1]), ([0, 1], []), ([], []),
        ([0, 0, 1], [2, 2]),                       # repeated nodes
        ([0, N], [1]), ([0], [1, N + 3]),          # out of range
        ([-1, 0], [1, 2]),                         # negative index
        ((0, 1), (2, 3)),                          # tuples
        ([0, 1], (2, 3)),                          # list + tuple
        (np.array([0, 1]), np.array([2, 3])),      # arrays, equal length
        (np.array([0, 1]), np.array([2, 3, 4])),   # arrays, unequal length
        (range(0, 2), range(2, 5)),                # ranges
        ([0.0, 1.0], [2, 3]),                      # floats
        ("ab", [1]), (None, [1]), ([0, 1], None),
    ]
    for oi, (l1, l2) in enumerate(odd):
        t = "%s/odd%d/" % (tag, oi)
        for m in PAIR_METHODS:
            if hasattr(net, m):
                call(t + m, getattr(net, m), l1, l2)
        for m in PAIR_METHODS_LA:
            call(t + m + "/lw", getattr(net, m), l1, l2, "lw")
        call(t + "cross_link_attribute", net.cross_link_attribute, "lw",
             l1, l2)
        call(t + "cross_link_attribute/bad", net.cross_link_attribute,
             "nope", l1, l2)
        for m in ("internal_path_lengths", "internal_average_path_length",
                  "internal_closeness", "nsi_internal_degree",
                  "nsi_internal_closeness_centrality",
                  "nsi_internal_local_clustering"):
            call(t + m, getattr(net, m), l1)


def kernels(rng, net, tag, pairs):
    """Call the compiled kernels directly, including with odd arguments."""
    A = to_cy(net.adjacency, ADJ)
    Ap = to_cy(net.adjacency + np.eye(net.N, dtype=ADJ), ADJ)
    w = to_cy(net.node_weights, DWEIGHT)
    for gi, (l1, l2) in enumerate(pairs):
        t = "%s/k%d/" % (tag, gi)
        n1 = np.array(l1, dtype=NODE)
        n2 = np.array(l2, dtype=NODE)
        call(t + "ct", cy._cross_transitivity, A, n1, n2)
        call(t + "nsi_ct", cy._nsi_cross_transitivity, Ap, n1, n2, w)
        for variant in range(3):
            if variant == 0:
                norm = rng.integers(0, 4, len(l1)).astype(DFIELD)
            elif variant == 1:
                norm = rng.uniform(-1, 1, len(l1)).astype(DFIELD)
                norm[::2] = 0
            else:
                norm = np.full(len(l1), np.nan, dtype=DFIELD)
            cc = rng.uniform(0, 1, len(l1)).astype(DFIELD)
            r = call(t + "clc%d" % variant, cy._cross_local_clustering,
                     A, norm, n1, n2, cc)
            feed(t + "clc%d/out" % variant, cc)
            feed(t + "clc%d/norm" % variant, norm)
            # aliased norm / output buffers
            buf = norm.copy()
            call(t + "clc%d/alias" % variant, cy._cross_local_clustering,
                 A, buf, n1, n2, buf)
            feed(t + "clc%d/alias/out" % variant, buf)
            del r
        cc = np.zeros(len(l1), dtype=DFIELD)
        call(t + "nsi_clc", cy._nsi_cross_local_clustering, Ap, cc, n1, n2, w)
        feed(t + "nsi_clc/out", cc)
        # short norm / output buffers, out of range nodes
        if len(l1) > 1:
            cc = np.zeros(len(l1), dtype=DFIELD)
            call(t + "clc/shortnorm", cy._cross_local_clustering, A,
                 np.ones(len(l1) - 1, dtype=DFIELD), n1, n2, cc)
            feed(t + "clc/shortnorm/out", cc)
            cc = np.zeros(len(l1) - 1, dtype=DFIELD)
            call(t + "clc/shortout", cy._cross_local_clustering, A,
                 np.ones(len(l1), dtype=DFIELD), n1, n2, cc)
            feed(t + "clc/shortout/out", cc)
        bad1 = n1.copy()
        bad1[-1] = net.N
        bad2 = n2.copy()
        bad2[0] = net.N + 1
        neg2 = n2.copy()
        neg2[-1] = -1
        for nm, (b1, b2) in (("bad1", (bad1, n2)), ("bad2", (n1, bad2)),
                             ("neg2", (n1, neg2))):
            call(t + "ct/" + nm, cy._cross_transitivity, A, b1, b2)
            cc = np.zeros(len(l1), dtype=DFIELD)
            call(t + "clc/" + nm, cy._cross_local_clustering, A,
                 np.ones(len(l1), dtype=DFIELD), b1, b2, cc)
            feed(t + "clc/" + nm + "/out", cc)
    call(tag + "/k/none", cy._cross_transitivity, None,
         np.array([0], dtype=NODE), np.array([1], dtype=NODE))
    call(tag + "/k/dtype", cy._cross_transitivity, A,
         np.array([0], dtype=np.int64), np.array([1], dtype=np.int64))
    call(tag + "/k/empty", cy._cross_transitivity, A,
         np.array([], dtype=NODE), np.array([], dtype=NODE))


def main():
    rng = np.random.default_rng(20240611)
    nets = [("small", InteractingNetworks.SmallTestNetwork()),
            ("smalldir", InteractingNetworks.SmallDirectedTestNetwork())]
    for i, (N, p, directed) in enumerate([
            (7, 0.5, False), (9, 0.3, True), (12, 0.25, False),
            (12, 0.6, True), (15, 0.12, False), (10, 0.9, False),
            (8, 0.0, False), (11, 0.15, True), (14, 0.4, False)]):
        nets.append(("r%d" % i, make_net(rng, N, p, directed,
                                         weighted_nodes=(i % 3 != 2))))
    for tag, net in nets:
        if "lw" not in net.graph.es.attribute_names():
            W = rng.uniform(0.5, 4.0, (net.N, net.N))
            if not net.directed:
                W = (W + W.T) / 2
            net.set_link_attribute("lw", W * net.adjacency)
        pairs = groups(rng, net.N)
        exercise(net, tag, pairs)
        kernels(rng, net, tag, pairs)
    odd_inputs(nets[0][1], "small")
    odd_inputs(nets[1][1], "smalldir")
    odd_inputs(nets[4][1], "r2")
    odd_inputs(nets[5][1], "r3")


if __name__ == "__main__":
    with contextlib.redirect_stdout(io.StringIO()):
        main()
    print("calls:", COUNT[0], "exceptions:", sorted(EXC.items()))
    print("digest:", H.hexdigest())
