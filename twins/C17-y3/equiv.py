"""Equivalence digest for the geographical rewiring code (property C17).

Run as:  PYTHONPATH=<worktree>/src /venv/bin/python equiv.py
Prints one sha256 digest; it must be identical on the pristine and on the
refactored tree.
"""
import contextlib
import hashlib
import io

import numpy as np

from pyunicorn.core.network import Network
from pyunicorn.core.grid import Grid
from pyunicorn.core.spatial_network import SpatialNetwork
from pyunicorn.core._ext.types import ADJ, NODE, FIELD, DEGREE
from pyunicorn.core._ext.numerics import (
    _randomly_rewire_geomodel_I, _randomly_rewire_geomodel_II,
    _randomly_rewire_geomodel_III)

H = hashlib.sha256()
LOG = []


def put(tag, *vals):
    parts = [tag]
    for v in vals:
        if isinstance(v, np.ndarray):
            parts.append(f"{v.dtype}|{v.shape}|"
                         f"{hashlib.sha256(np.ascontiguousarray(v).tobytes()).hexdigest()}")
        else:
            parts.append(repr(v))
    line = " ".join(parts)
    LOG.append(line)
    if __import__("os").environ.get("EQUIV_TRACE"):
        print(line[:150], file=__import__("sys").stderr, flush=True)
    H.update(line.encode() + b"\n")


def rng_digest():
    st = np.random.get_state()
    return hashlib.sha256(st[1].tobytes() + repr(st[2:]).encode()).hexdigest()


def cache_state():
    return (tuple(Network.degree.cache_info()),
            tuple(Network.outdegree.cache_info()),
            tuple(Network.indegree.cache_info()))


def random_net(seed, N, p, dim=2, directed=False, silence_level=2):
    rs = np.random.RandomState(seed)
    space = rs.uniform(0, 10, size=(dim, N))
    grid = Grid(np.arange(3.), space, silence_level=2)
    A = (rs.uniform(size=(N, N)) < p).astype(int)
    if directed:
        np.fill_diagonal(A, 0)
    else:
        A = np.triu(A, 1)
        A = A + A.T
    return SpatialNetwork(grid=grid, adjacency=A, directed=directed,
                          silence_level=silence_level)


def run_method(tag, net, model, D, iterations, inaccuracy, seed):
    np.random.seed(seed)
    out = io.StringIO()
    before = net.adjacency.copy()
    try:
        with contextlib.redirect_stdout(out):
            res = getattr(net, "randomly_rewire_geomodel_" + model)(
                D, iterations, inaccuracy)
        status = ("ok", repr(res))
    except BaseException as e:  # pylint: disable=broad-except
        status = ("exc", type(e).__name__)
    after = net.adjacency
    put(tag, model, status, out.getvalue(), after, net.n_links, net.N,
        type(net.n_links).__name__, str(net.sp_A.dtype),
        int((before != after).sum()) if before.shape == after.shape else -1,
        net.degree(), sorted(net.graph.get_edgelist()), rng_digest(),
        cache_state())


MODELS = ["I", "II", "III"]

# --- 1. public methods on a spread of networks ------------------------------
for model in MODELS:
    for eps in (100, 12.5, 6, 5.6):
        for seed in (0, 1):
            net = SpatialNetwork.SmallTestNetwork()
            if model == "I":
                its = 10 if eps >= 6 else 0
            else:
                its = 20 if eps >= 100 and model == "II" else 0
            run_method("small", net, model, net.grid.distance(), its, eps,
                       seed)
    # silence_level 0 prints a message
    net = random_net(11, 20, 0.3, silence_level=0)
    run_method("loud", net, model, net.grid.distance(), 5, 1000, 3)
    net.silence_level = 1
    run_method("loud1", net, model, net.grid.distance(), 5, 1000, 4)

    for (s, N, p, eps, its) in ((11, 20, 0.3, 50., 30), (12, 40, 0.15, 4., 15),
                                (13, 40, 0.2, 2.5, 8), (14, 60, 0.1, 3.0, 10),
                                (15, 30, 0.5, 1.5, 5)):
        net = random_net(s, N, p)
        D = net.grid.distance()
        run_method("rand", net, model, D, its, eps, s)
        # second call on the same (already rewired) object, float64 matrix
        run_method("rand-again", net, model, D.astype(np.float64), its // 2,
                   eps * 2, s + 100)
        # numpy scalar / string-convertible parameters
        run_method("rand-npargs", net, model, D, np.int64(3),
                   np.float32(eps * 3), s + 200)
        run_method("rand-strargs", net, model, D, 2, str(eps * 3), s + 300)
        run_method("rand-zero", net, model, D, 0, eps, s + 400)
        run_method("rand-neg", net, model, D, -4, eps, s + 500)

    # integer valued and non-contiguous distance matrices
    net = random_net(21, 25, 0.3)
    D = np.rint(net.grid.distance()).astype(np.int64)
    run_method("intD", net, model, D, 6 if model != "III" else 0, 3, 21)
    D = np.asfortranarray(net.grid.distance())
    run_method("fortD", net, model, D, 6, 3., 22)
    D = np.random.RandomState(5).uniform(0, 5, size=(25, 25))  # asymmetric
    run_method("asymD", net, model, D, 6, 2., 23)
    D = np.zeros((30, 30), dtype=np.float32)                    # larger
    run_method("bigD", net, model, D, 6, 2., 24)

    # directed network (edge list is directed)
    net = random_net(31, 20, 0.2, directed=True)
    run_method("directed", net, model, net.grid.distance(), 4, 100., 31)

    # 3d embedding
    net = random_net(41, 30, 0.25, dim=3)
    run_method("dim3", net, model, net.grid.distance(), 7, 5., 41)

# --- 2. error behaviour and state after errors -----------------------------
for model in MODELS:
    def fresh():
        return random_net(51, 15, 0.4)
    net = fresh()
    D = net.grid.distance()
    for name, args in (
            ("bad-eps-str", (D, 3, "abc")),
            ("bad-eps-none", (D, 3, None)),
            ("bad-eps-list", (D, 3, [1.0])),
            ("bad-eps-nan", (D, 0, float("nan"))),
            ("bad-D-none", (None, 3, 1.0)),
            ("bad-D-list", ([[0., 1.], [1., 0.]], 3, 1.0)),
            ("bad-D-complex", (D.astype(complex), 3, 1.0)),
            ("bad-D-1d", (D[0], 3, 1.0)),
            ("bad-D-3d", (D[None], 3, 1.0)),
            ("bad-D-small", (D[:3, :3], 3, 100.0)),
            ("bad-D-small-eps-str", (D[:3, :3], 3, "x")),
            ("bad-D-none-eps-str", (None, 3, "x")),
            ("bad-it-float", (D, 3.0, 100.0)),
            ("bad-it-str", (D, "3", 100.0)),
            ("bad-it-none", (D, None, 100.0)),
            ("bad-it-huge", (D, 2 ** 40, 100.0)),
            ("bad-it-and-eps", (D, None, "x")),
            ("bad-it-and-D", (None, None, 1.0))):
        net = fresh()
        run_method(name, net, model, args[0], args[1], args[2], 7)

    # network without links: 1d edge array
    net = SpatialNetwork(grid=Grid.SmallTestGrid(),
                         adjacency=np.zeros((6, 6), dtype=int),
                         silence_level=2)
    run_method("empty", net, model, net.grid.distance(), 0, 1.0, 8)
    run_method("empty-badeps", net, model, net.grid.distance(), 0, "q", 8)

    # unusual n_links attribute values
    for nl in (7.0, np.int64(7), np.float64(7.0), "7", None, True):
        net = SpatialNetwork.SmallTestNetwork()
        net.n_links = nl
        run_method("nlinks-" + repr(nl), net, model, net.grid.distance(),
                   0 if (model == "III" or nl is True) else 2, 100.0, 9)
        net = SpatialNetwork.SmallTestNetwork()
        net.n_links = nl
        run_method("nlinks-badeps-" + repr(nl), net, model,
                   net.grid.distance(), 2, "zz", 9)

    # degree() failing inside model III must happen at the same point
    class BadDegree(SpatialNetwork):
        calls = []
        armed = False

        def degree(self, key=None):
            if not BadDegree.armed:
                return SpatialNetwork.degree(self, key)
            BadDegree.calls.append("degree")
            raise RuntimeError("no degree")

    for args in ((D, 2, 100.0), (D, 2, "x"), (None, 2, 100.0)):
        b = BadDegree(grid=Grid.SmallTestGrid(),
                      adjacency=Network.SmallTestNetwork().adjacency,
                      silence_level=2)
        BadDegree.armed = True
        np.random.seed(10)
        try:
            getattr(b, "randomly_rewire_geomodel_" + model)(
                Grid.SmallTestGrid().distance() if args[0] is not None
                else None, args[1], args[2])
            st = "ok"
        except BaseException as e:  # pylint: disable=broad-except
            st = type(e).__name__
        BadDegree.armed = False
        put("baddegree", model, st, list(BadDegree.calls), b.adjacency,
            rng_digest())
        BadDegree.calls.clear()

    # order of attribute/argument evaluation, traced
    class Traced(SpatialNetwork):
        trace = []

        def __getattribute__(self, name):
            if name in ("n_links", "adjacency", "graph", "degree",
                        "silence_level"):
                Traced.trace.append(name)
            return SpatialNetwork.__getattribute__(self, name)

    class Eps:
        def __float__(self):
            Traced.trace.append("float(eps)")
            return 100.0

    class Dm:
        def __init__(self, arr):
            self.arr = arr

        def astype(self, *a, **k):
            Traced.trace.append(("D.astype", a, tuple(sorted(k.items()))))
            return self.arr.astype(*a, **k)

    t = Traced(grid=Grid.SmallTestGrid(),
               adjacency=Network.SmallTestNetwork().adjacency,
               silence_level=2)
    Traced.trace.clear()
    np.random.seed(12)
    getattr(t, "randomly_rewire_geomodel_" + model)(
        Dm(Grid.SmallTestGrid().distance()), 0 if model == "III" else 3,
        Eps())
    put("trace", model, [str(x) for x in Traced.trace],
        SpatialNetwork.__getattribute__(t, "adjacency"), rng_digest())

# --- 3. the extension wrappers called directly -----------------------------


def ext_inputs(seed, N, p):
    net = random_net(seed, N, p)
    A = net.adjacency.astype(ADJ)
    D = net.grid.distance().astype(FIELD)
    edges = np.array(net.graph.get_edgelist()).astype(NODE)
    deg = net.degree().astype(DEGREE)
    return A, D, int(net.n_links), edges, deg


def run_ext(tag, model, its, eps, A, D, E, edges, deg, seed):
    np.random.seed(seed)
    f = {"I": _randomly_rewire_geomodel_I, "II": _randomly_rewire_geomodel_II,
         "III": _randomly_rewire_geomodel_III}[model]
    args = (its, eps, A, D, E, edges) + ((deg,) if model == "III" else ())
    try:
        res = f(*args)
        status = ("ok", repr(res))
    except BaseException as e:  # pylint: disable=broad-except
        status = ("exc", type(e).__name__, str(e))
    put(tag, model, status,
        *[x for x in (A, D, edges, deg) if isinstance(x, np.ndarray)],
        rng_digest())


for model in MODELS:
    for (s, N, p, eps, its) in ((61, 20, 0.3, 50., 25), (62, 35, 0.2, 3., 12),
                                (63, 50, 0.1, 2., 6), (64, 12, 0.6, 1.0, 4)):
        A, D, E, edges, deg = ext_inputs(s, N, p)
        run_ext("ext", model, its, eps, A, D, E, edges, deg, s)
        run_ext("ext-zero", model, 0, eps, A, D, E, edges, deg, s)
        run_ext("ext-neg", model, -1, eps, A, D, E, edges, deg, s)
        # fewer edges sampled than stored
        run_ext("ext-halfE", model, 0 if (model == "III" and N < 20) else 3,
                eps * 5, A, D, E // 2, edges, deg,
                s + 1)
    A, D, E, edges, deg = ext_inputs(71, 20, 0.3)
    # E larger than the number of rows of edges -> IndexError eventually
    run_ext("ext-bigE", model, 1000, 0.0, A.copy(), D, 50 * E, edges.copy(),
            deg, 71)
    # node numbers outside A / D
    e2 = edges.copy()
    e2[:, 1] += 15
    run_ext("ext-badnodes", model, 5, 100., A.copy(), D, E, e2, deg, 72)
    e2 = edges.copy()
    e2[::2, 0] = -1
    run_ext("ext-negnodes", model, 5, 100., A.copy(), D, E, e2, deg, 73)
    # D smaller than A
    run_ext("ext-smallD", model, 5, 100., A.copy(), D[:10, :10].copy(), E,
            edges.copy(), deg, 74)
    # A smaller than D
    run_ext("ext-smallA", model, 5, 100., A[:10, :10].copy(), D, E,
            edges.copy(), deg, 75)
    # degree array too short / empty
    run_ext("ext-shortdeg", model, 5, 100., A.copy(), D, E, edges.copy(),
            deg[:5].copy(), 76)
    run_ext("ext-nodeg", model, 5, 100., A.copy(), D, E, edges.copy(),
            deg[:0].copy(), 77)
    # wrong dtypes / dimensions
    run_ext("ext-dtypeA", model, 5, 100., A.astype(np.int64), D, E,
            edges.copy(), deg, 78)
    run_ext("ext-dtypeD", model, 5, 100., A.copy(), D.astype(np.float64), E,
            edges.copy(), deg, 78)
    run_ext("ext-dtypeE", model, 5, 100., A.copy(), D, E,
            edges.astype(np.int64), deg, 78)
    run_ext("ext-dtypedeg", model, 5, 100., A.copy(), D, E, edges.copy(),
            deg.astype(np.int64), 78)
    run_ext("ext-dimE", model, 5, 100., A.copy(), D, E, edges[:, 0].copy(),
            deg, 78)
    run_ext("ext-3col", model, 5, 100., A.copy(), D, E,
            np.hstack([edges, edges[:, :1]]).copy(), deg, 79)
    run_ext("ext-1col", model, 5, 100., A.copy(), D, E, edges[:, :1].copy(),
            deg, 80)
    run_ext("ext-noncontig", model, 5, 100., A.copy(), np.asfortranarray(D),
            E, edges.copy(), deg, 81)
    # read-only inputs
    for ro in ("A", "D", "edges", "deg"):
        for its in (0, 3):
            arrs = {"A": A.copy(), "D": D.copy(), "edges": edges.copy(),
                    "deg": deg.copy()}
            arrs[ro].setflags(write=False)
            run_ext("ext-readonly-" + ro, model, its, 100., arrs["A"],
                    arrs["D"], E, arrs["edges"], arrs["deg"], 83)
    run_ext("ext-its-float", model, 5.0, 100., A.copy(), D, E, edges.copy(),
            deg, 82)
    run_ext("ext-eps-str", model, 5, "1", A.copy(), D, E, edges.copy(),
            deg, 82)
    run_ext("ext-eps-int", model, 5, 100, A.copy(), D, E, edges.copy(),
            deg, 82)
    run_ext("ext-E-float", model, 5, 100., A.copy(), D, float(E),
            edges.copy(), deg, 82)
    # wrong number of arguments
    for nargs in (5, 6, 7, 8):
        np.random.seed(1)
        f = {"I": _randomly_rewire_geomodel_I,
             "II": _randomly_rewire_geomodel_II,
             "III": _randomly_rewire_geomodel_III}[model]
        full = (2, 100., A.copy(), D, E, edges.copy(), deg, deg)
        try:
            f(*full[:nargs])
            st = "ok"
        except BaseException as e:  # pylint: disable=broad-except
            st = type(e).__name__
        put("ext-nargs", model, nargs, st)
    # keyword call
    np.random.seed(2)
    kw = dict(iterations=3, eps=100., A=A.copy(), D=D, E=E,
              edges=edges.copy())
    if model == "III":
        kw["degree"] = deg
    f = {"I": _randomly_rewire_geomodel_I, "II": _randomly_rewire_geomodel_II,
         "III": _randomly_rewire_geomodel_III}[model]
    f(**kw)
    put("ext-kw", model, kw["A"], kw["edges"], rng_digest())
    put("ext-doc", model, f.__doc__, f.__name__)

print(H.hexdigest())
if __import__("os").environ.get("EQUIV_VERBOSE"):
    print("\n".join(LOG))
