"""Digest of the current-flow betweenness entry points of ResNetwork."""
import hashlib
import io
import contextlib

import numpy as np

from pyunicorn.core.resistive_network import ResNetwork

h = hashlib.sha256()


def feed(tag, obj):
    h.update(tag.encode())
    if isinstance(obj, np.ndarray):
        h.update(str(obj.dtype).encode())
        h.update(str(obj.shape).encode())
        h.update(np.ascontiguousarray(obj).tobytes())
    elif isinstance(obj, (np.floating, float)):
        h.update(type(obj).__name__.encode())
        h.update(np.float64(obj).tobytes())
    else:
        h.update(repr(obj).encode())


def attempt(tag, fn):
    try:
        with np.errstate(all="ignore"), \
                contextlib.redirect_stdout(io.StringIO()):
            res = fn()
        feed(tag, res)
    except Exception as e:  # noqa
        feed(tag, type(e).__name__ + ":" + str(e))


def state(tag, net):
    keys = sorted(k for k in net.__dict__)
    feed(tag + ":keys", keys)
    feed(tag + ":N", net.N)
    feed(tag + ":adm", net.sparse_Adm.toarray())
    feed(tag + ":R", net.sparse_R.toarray())
    feed(tag + ":eff", repr(net._effective_resistances))


def exercise(tag, net):
    state(tag + ":before", net)
    N = net.N
    for i in list(range(-2, N + 2)) + [np.int64(0), np.int32(N - 1), 10**12,
                                       -10**12, 0.5, 1.0, True, "a", None,
                                       np.float32(1.0)]:
        attempt(f"{tag}:vcfb:{i!r}",
                lambda: net.vertex_current_flow_betweenness(i))
    attempt(tag + ":ecfb", net.edge_current_flow_betweenness)
    attempt(tag + ":ecfb2", net.edge_current_flow_betweenness)
    state(tag + ":after", net)


def silent(fn, *a, **k):
    with contextlib.redirect_stdout(io.StringIO()):
        return fn(*a, **k)


net = silent(ResNetwork.SmallTestNetwork)
exercise("small", net)
silent(net.update_resistances, net.adjacency)
exercise("small-unit", net)

attempt("complex-build", lambda: exercise(
    "complex", ResNetwork.SmallComplexNetwork()))

rng = np.random.RandomState(1234)
for N in (1, 2, 3, 4, 7, 12, 25):
    for density in (0.0, 0.3, 1.0):
        upper = np.triu((rng.rand(N, N) < density) * (rng.rand(N, N) * 9 + 1),
                        k=1)
        resistances = upper + upper.T
        tag = f"rand-{N}-{density}"
        try:
            net = silent(ResNetwork, resistances, silence_level=3)
        except Exception as e:  # noqa
            feed(tag, "ctor:" + type(e).__name__)
            continue
        exercise(tag, net)
        # float32 / integer resistances
        for dt in (np.float32, np.int64):
            try:
                net = silent(ResNetwork, resistances.astype(dt),
                             silence_level=3)
            except Exception as e:  # noqa
                feed(tag + str(dt), "ctor:" + type(e).__name__)
                continue
            attempt(tag + str(dt) + ":ecfb",
                    net.edge_current_flow_betweenness)
            attempt(tag + str(dt) + ":vcfb",
                    lambda: net.vertex_current_flow_betweenness(0))

# stale admittance / R: the node number no longer matches
net = silent(ResNetwork.SmallTestNetwork)
net.N = 6
exercise("stale-N6", net)
net.N = 4
exercise("stale-N4", net)
net.N = 0
exercise("stale-N0", net)


class Logged(ResNetwork):
    """Records the order in which the inputs of the kernels are fetched."""
    log = []

    def get_admittance(self):
        self.log.append(("adm", self.N))
        return ResNetwork.get_admittance(self)

    def get_R(self):
        self.log.append(("R", self.N))
        return ResNetwork.get_R(self)


class BadR(Logged):
    def get_R(self):
        self.log.append("badR")
        return np.zeros((3, 3))


class BadAdm(Logged):
    def get_admittance(self):
        self.log.append("badAdm")
        return np.zeros((5, 4))


class Raising(Logged):
    def get_R(self):
        self.log.append("raise")
        raise RuntimeError("no R")


class Shrinking(Logged):
    """An accessor that changes the node number while being called."""
    def get_R(self):
        self.log.append("shrink")
        self.N = 3
        return ResNetwork.get_R(self)


base = silent(ResNetwork.SmallTestNetwork)
resist = base.get_admittance()
with np.errstate(all="ignore"):
    resist = np.where(resist != 0, 1. / resist, 0)
for cls in (Logged, BadR, BadAdm, Raising, Shrinking):
    cls.log = []
    net = silent(ResNetwork, resist, silence_level=3)
    net.__class__ = cls
    cls.log.clear()
    for i in (-1, 0, 4, 5):
        attempt(f"{cls.__name__}:vcfb:{i}",
                lambda: net.vertex_current_flow_betweenness(i))
        feed(f"{cls.__name__}:log:{i}", list(cls.log))
        cls.log.clear()
        if cls is Shrinking:
            net.N = 5
    attempt(f"{cls.__name__}:ecfb", net.edge_current_flow_betweenness)
    feed(f"{cls.__name__}:log:ecfb", list(cls.log))

print(h.hexdigest())
