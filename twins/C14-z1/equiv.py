"""Equivalence digest for the visibility-graph mechanism (property C14).

Run as:  PYTHONPATH=<worktree>/src /venv/bin/python equiv.py
Prints one sha256 digest; it must be identical on the pristine and on the
refactored tree.
"""
import hashlib
import warnings

import numpy as np

warnings.simplefilter("ignore")

from pyunicorn.timeseries.visibility_graph import VisibilityGraph
from pyunicorn.timeseries._ext import numerics as tn
from pyunicorn.core._ext.types import to_cy, ADJ, MASK, FIELD, DFIELD

H = hashlib.sha256()


def feed(tag, obj):
    H.update(tag.encode())
    if isinstance(obj, np.ndarray):
        H.update(str(obj.dtype).encode())
        H.update(str(obj.shape).encode())
        H.update(np.ascontiguousarray(obj).tobytes())
    else:
        H.update(repr(obj).encode())


def attempt(tag, fn):
    try:
        res = fn()
    except Exception as exc:  # pylint: disable=broad-except
        feed(tag + ":exc", type(exc).__name__ + "|" + str(exc))
        return None
    if isinstance(res, tuple):
        for n, r in enumerate(res):
            feed(f"{tag}:{n}", r)
    else:
        feed(tag, res)
    return res


MEASURES = ["retarded_degree", "advanced_degree",
            "retarded_local_clustering", "advanced_local_clustering",
            "boundary_corrected_degree", "degree"]


def series(rng, kind, n):
    if kind == "normal":
        return rng.standard_normal(n)
    if kind == "ties":
        return rng.integers(0, 4, n).astype(float)
    if kind == "const":
        return np.full(n, 1.5)
    if kind == "ramp":
        return np.arange(n) * 0.25
    if kind == "nan":
        x = rng.standard_normal(n)
        if n:
            x[rng.random(n) < 0.2] = np.nan
        return x
    if kind == "inf":
        x = rng.standard_normal(n)
        if n:
            x[rng.random(n) < 0.15] = np.inf
            x[rng.random(n) < 0.1] = -np.inf
        return x
    raise ValueError(kind)


def timings(rng, kind, n):
    if kind == "none":
        return None
    if kind == "irregular":
        return np.cumsum(rng.random(n) + 0.01)
    if kind == "dupes":
        return np.sort(rng.integers(0, max(n // 2, 1), n)).astype(float)
    if kind == "decreasing":
        return np.cumsum(rng.random(n) + 0.01)[::-1].copy()
    if kind == "nan":
        t = np.cumsum(rng.random(n) + 0.01)
        if n > 2:
            t[n // 2] = np.nan
        return t
    raise ValueError(kind)


def run_graph(tag, x, t, mv, hor):
    def build():
        return VisibilityGraph(x, timings=t, missing_values=mv,
                               horizontal=hor, silence_level=2)
    try:
        vg = build()
    except Exception as exc:  # pylint: disable=broad-except
        feed(tag + ":init-exc", type(exc).__name__ + "|" + str(exc))
        return
    feed(tag + ":A", vg.adjacency)
    feed(tag + ":state", sorted(vg.__dict__.keys()))
    feed(tag + ":ts", vg.time_series)
    feed(tag + ":tm", vg.timings)
    for m in MEASURES:
        attempt(f"{tag}:{m}", getattr(vg, m))
    # call twice / in other order: no hidden state
    attempt(tag + ":alc2", vg.advanced_local_clustering)
    attempt(tag + ":rlc2", vg.retarded_local_clustering)
    attempt(tag + ":vr", vg.visibility_relations)
    attempt(tag + ":vrh", vg.visibility_relations_horizontal)
    feed(tag + ":A-after", vg.adjacency)


rng = np.random.default_rng(20240714)
case = 0
for n in [0, 1, 2, 3, 4, 5, 8, 13, 40, 97]:
    for xk in ["normal", "ties", "const", "ramp", "nan", "inf"]:
        for tk in ["none", "irregular", "dupes", "decreasing", "nan"]:
            x = series(rng, xk, n)
            t = timings(rng, tk, n)
            for mv in (False, True):
                for hor in (False, True):
                    case += 1
                    run_graph(f"g{case}", x, t, mv, hor)

# subclass overriding the directed degrees (dynamic dispatch must be kept)
class Sub(VisibilityGraph):
    def retarded_degree(self):
        return VisibilityGraph.retarded_degree(self) + 1.0

    def advanced_degree(self):
        return VisibilityGraph.advanced_degree(self) * 2.0


for n in [5, 20]:
    x = rng.standard_normal(n)
    sub = Sub(x, silence_level=2)
    attempt(f"sub{n}:r", sub.retarded_local_clustering)
    attempt(f"sub{n}:a", sub.advanced_local_clustering)
    attempt(f"sub{n}:b", sub.boundary_corrected_degree)

# manually replaced missing value mask (wrong length / dtype)
for n in [6, 15]:
    x = rng.standard_normal(n)
    vg = VisibilityGraph(x, missing_values=True, silence_level=2)
    for mask in [np.zeros(n - 1, dtype=bool), np.zeros(n + 3, dtype=bool),
                 np.ones(n, dtype=bool), np.zeros(n, dtype=np.int8),
                 np.zeros(2, dtype=bool), np.zeros(0, dtype=bool)]:
        vg.missing_value_indices = mask
        attempt(f"mask{n}:{mask.shape}:{mask.dtype}", vg.visibility_relations)

# direct kernel calls, including inconsistent arguments; the output arrays
# are digested after the call whether or not it raised
for n in [0, 1, 2, 3, 7, 30]:
    for rep in range(3):
        x = to_cy(series(rng, ["normal", "ties", "nan"][rep], n), FIELD)
        t = to_cy(np.cumsum(rng.random(n) + 0.01), FIELD)
        td = to_cy(np.sort(rng.integers(0, 3, n)), FIELD)
        mvi = np.isnan(x)
        for dn in (-1, 0, 1, 2):
            N = n + dn
            for tt, tn_ in ((t, "t"), (td, "td")):
                A = np.zeros((n, n), dtype=MASK)
                attempt(f"k-nomv{n},{rep},{dn},{tn_}", lambda: tn.
                        _visibility_relations_no_missingvalues(x, tt, N, A))
                feed("A", A)
                A = np.zeros((n, n), dtype=MASK)
                attempt(f"k-mv{n},{rep},{dn},{tn_}", lambda: tn.
                        _visibility_relations_missingvalues(x, tt, N, A, mvi))
                feed("A", A)
                A = np.zeros((n, n), dtype=MASK)
                attempt(f"k-mvshort{n},{rep},{dn},{tn_}", lambda: tn.
                        _visibility_relations_missingvalues(
                            x, tt, N, A, mvi[:max(n - 1, 0)]))
                feed("A", A)
            A = np.zeros((n, n), dtype=MASK)
            attempt(f"k-hor{n},{rep},{dn}",
                    lambda: tn._visibility_relations_horizontal(x, N, A))
            feed("A", A)
            A = np.zeros((n + 1, max(n - 1, 0)), dtype=MASK)
            attempt(f"k-hor-rect{n},{rep},{dn}",
                    lambda: tn._visibility_relations_horizontal(x, N, A))
            feed("A", A)

for n in [0, 1, 2, 3, 4, 9, 25]:
    for dens in (0.2, 0.6, 1.0):
        B = (rng.random((n, n)) < dens)
        Bs = B | B.T
        for M, mt in ((B, "dir"), (Bs, "sym")):
            Ac = to_cy(M, ADJ)
            for dn in (-1, 0, 1, 3):
                N = n + dn
                for normkind in ("ones", "mixed", "nan", "short"):
                    if normkind == "ones":
                        norm = np.ones(n)
                    elif normkind == "mixed":
                        norm = rng.integers(0, 3, n).astype(DFIELD)
                    elif normkind == "nan":
                        norm = np.full(n, np.nan)
                    else:
                        norm = np.ones(max(n - 2, 0))
                    out = np.full(n, -7.0)
                    attempt(f"c-ret{n},{dens},{mt},{dn},{normkind}",
                            lambda: tn._retarded_local_clustering(
                                N, Ac, norm, out))
                    feed("out", out)
                    out = np.full(n, -7.0)
                    attempt(f"c-adv{n},{dens},{mt},{dn},{normkind}",
                            lambda: tn._advanced_local_clustering(
                                N, Ac, norm, out))
                    feed("out", out)

print(H.hexdigest())
